#!/bin/bash
# run.sh <property-id> [quick|thorough]
# Runs the static checker for one property against /repo's current working tree.
set -u
cd "$(dirname "$(readlink -f "$0")")"
export PATH=/opt/veriftools/go1.26.8/bin:$PATH GOFLAGS=-mod=mod GOPROXY=off GOSUMDB=off GOTOOLCHAIN=local GOWORK=off
prop=${1:?usage: run.sh <property-id> [quick|thorough]}
tier=${2:-${VERIF_TIER:-quick}}
bin=./bin/goccverif
need=0
[ -x "$bin" ] || need=1
if [ $need = 0 ] && [ -n "$(find checker -newer "$bin" \( -name '*.go' -o -name go.mod \) -print -quit)" ]; then need=1; fi
if [ $need = 1 ]; then
  ./setup.sh >&2 || { echo "setup failed" >&2; exit 2; }
fi
exec "$bin" -prop "$prop" -tier "$tier" -repo "${VERIF_REPO:-/repo}" -out "$PWD/evidence"
