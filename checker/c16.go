package main

import (
	"fmt"
	"go/token"
	"go/types"
	"sort"
	"strings"

	"golang.org/x/tools/go/ssa"
)

func init() { register("C16", "other", runC16) }

// recvFieldStores: fields of the receiver object stored by fn, with the stored value.
func recvFieldStores(fn *ssa.Function) map[string]ssa.Value {
	out := map[string]ssa.Value{}
	if len(fn.Params) == 0 {
		return out
	}
	recv := fn.Params[0]
	for _, b := range fn.Blocks {
		for _, in := range b.Instrs {
			if st, ok := in.(*ssa.Store); ok {
				if fa, ok := st.Addr.(*ssa.FieldAddr); ok && fa.X == ssa.Value(recv) {
					out[fieldVar(fa).Name()] = st.Val
				}
			}
		}
	}
	return out
}

// fieldLoads: which functions of the package load the named field of type tn.
func fieldLoads(p *Prog, fns []*ssa.Function, tn string, field string) []string {
	var out []string
	for _, fn := range fns {
		for _, b := range fn.Blocks {
			for _, in := range b.Instrs {
				u, ok := in.(*ssa.UnOp)
				if !ok || u.Op != token.MUL {
					continue
				}
				fa, ok := u.X.(*ssa.FieldAddr)
				if !ok {
					continue
				}
				if isNamedStruct(fa.X.Type(), tn) && fieldVar(fa).Name() == field {
					out = append(out, fn.Name())
				}
			}
		}
	}
	return out
}

func isNamedStruct(t types.Type, name string) bool {
	if pt, ok := t.Underlying().(*types.Pointer); ok {
		t = pt.Elem()
	}
	n, ok := t.(*types.Named)
	return ok && n.Obj().Name() == name
}

func structFieldNames(sp *ssa.Package, tn string) []string {
	o := sp.Pkg.Scope().Lookup(tn)
	if o == nil {
		return nil
	}
	st, ok := o.Type().Underlying().(*types.Struct)
	if !ok {
		return nil
	}
	var out []string
	for i := 0; i < st.NumFields(); i++ {
		out = append(out, st.Field(i).Name())
	}
	return out
}

// newLexerInit: the constants NewLexer gives to each field.
func constructorInit(fn *ssa.Function, tn string) map[string]string {
	out := map[string]string{}
	// a constructor may leave part of the initialisation to a method of the new object (NewLexer calling Reset)
	for _, b := range fn.Blocks {
		for _, in := range b.Instrs {
			if call, ok := in.(*ssa.Call); ok {
				if f := call.Call.StaticCallee(); f != nil && f.Signature.Recv() != nil && len(call.Call.Args) > 0 && f.Blocks != nil {
					if _, isAlloc := call.Call.Args[0].(*ssa.Alloc); isAlloc && isNamedStruct(call.Call.Args[0].Type(), tn) {
						for k, v := range recvFieldStoresDeep(f, map[*ssa.Function]bool{}) {
							out[k] = valueText(v)
						}
					}
				}
			}
		}
	}
	for _, b := range fn.Blocks {
		for _, in := range b.Instrs {
			if st, ok := in.(*ssa.Store); ok {
				if fa, ok := st.Addr.(*ssa.FieldAddr); ok && isNamedStruct(fa.X.Type(), tn) {
					if _, isAlloc := fa.X.(*ssa.Alloc); isAlloc {
						out[fieldVar(fa).Name()] = valueText(st.Val)
					}
				}
			}
		}
	}
	return out
}

func valueText(v ssa.Value) string {
	if c, ok := v.(*ssa.Const); ok {
		if c.Value == nil {
			return "nil"
		}
		return c.Value.ExactString()
	}
	return v.Name() + ":" + v.String()
}

func runC16(c *Ctx) {
	p := c.RepoProg()
	if !gmHealth(c, p, "R16.0") {
		return
	}
	// ---- R16.2: Lexer.Reset restores every field Scan mutates ----
	for _, d := range gmLexerDirs {
		sp := p.SSAPkg(gmRoot + "/" + d)
		scan := p.Func(gmRoot+"/"+d, "*Lexer.Scan")
		reset := p.Func(gmRoot+"/"+d, "*Lexer.Reset")
		newl := p.Func(gmRoot+"/"+d, "NewLexer")
		if sp == nil || scan == nil || reset == nil || newl == nil {
			c.Undecided("R16.2", d, "Scan / Reset / NewLexer not found in the generated lexer")
			continue
		}
		W := recvFieldStoresDeep(scan, map[*ssa.Function]bool{})
		R := recvFieldStoresDeep(reset, map[*ssa.Function]bool{})
		init := constructorInit(newl, "Lexer")
		ws := make([]string, 0, len(W))
		for f := range W {
			ws = append(ws, f)
		}
		sort.Strings(ws)
		if len(ws) < 3 {
			c.Undecided("R16.2", d+": vacuity", fmt.Sprintf("Scan stores only %v of the lexer's fields (pos, line, column confirmed by hand)", ws))
		}
		// calls from Scan that could mutate the receiver further
		for _, b := range scan.Blocks {
			for _, in := range b.Instrs {
				if call, ok := in.(*ssa.Call); ok {
					for k, a := range call.Call.Args {
						if a == ssa.Value(scan.Params[0]) {
							// a method of the lexer called on the same receiver is followed (recvFieldStoresDeep); anything else is not
							if f := call.Call.StaticCallee(); f != nil && k == 0 && f.Signature.Recv() != nil && f.Blocks != nil {
								continue
							}
							c.Undecided("R16.2", d+": Scan hands the lexer to "+call.Call.Value.Name(), "the set of mutated fields must include the callee's")
						}
					}
				}
			}
		}
		// Reset and NewLexer are interpreted (a store of a whole struct value counts field by field; helpers
		// and Reset called from the constructor are followed); the syntactic tables R / init are the fallback
		rn := reset.Params[0].Name()
		ro := InterpretSafe(&Region{Fn: reset}, &MapWorld{})
		no := InterpretSafe(&Region{Fn: newl}, &MapWorld{})
		newObj := ""
		if no.Term == "return" && len(no.Results) == 1 {
			newObj = strings.TrimPrefix(no.Results[0], "&")
		}
		interp := ro.Term == "return" && newObj != ""
		for _, f := range ws {
			rv, ok := R[f]
			want := init[f]
			got := "(not assigned)"
			if ok {
				got = valueText(rv)
			}
			if interp {
				want = no.Stores[newObj+"."+f]
				got, ok = ro.Stores[rn+"."+f]
				if !ok {
					got = "(not assigned)"
				}
			}
			c.Ob("R16.2", fmt.Sprintf("%s: Lexer.Reset restores %s", d, f), ok && got == want,
				fmt.Sprintf("Scan mutates Lexer.%s; NewLexer initialises it to %s; Reset assigns %s — a reused lexer must start from the same state as a fresh one (witness on HEAD: scan \"x\\nx\", Reset, scan: first token reported on line 2)", f, want, got), p.FnPos(reset))
		}
		// what Scan never changes belongs to the lexer as it was made (the source, the Context that every
		// token position carries): Reset leaves it alone
		if interp {
			isW := map[string]bool{}
			for _, f := range ws {
				isW[f] = true
			}
			var changed []string
			nOther := 0
			for _, g := range structFieldNames(sp, "Lexer") {
				if isW[g] {
					continue
				}
				nOther++
				v, stored := ro.Stores[rn+"."+g]
				if !stored {
					continue
				}
				old := rn + "." + g
				if v != old && v != "*"+old && v != "&*"+old {
					changed = append(changed, fmt.Sprintf("%s := %s", g, v))
				}
			}
			// struct-valued fields are stored cell by cell: any cell below a field that Scan does not touch
			for k, v := range ro.Stores {
				if !strings.HasPrefix(k, rn+".") {
					continue
				}
				rest := strings.TrimPrefix(k, rn+".")
				top := rest
				if i := strings.IndexAny(rest, ".["); i >= 0 {
					top = rest[:i]
				}
				if top == rest || isW[top] {
					continue
				}
				if v != k && v != "*"+k && v != "&*"+k {
					changed = append(changed, fmt.Sprintf("%s := %s", rest, v))
				}
			}
			sort.Strings(changed)
			c.Ob("R16.2", d+": Lexer.Reset leaves the other fields alone", len(changed) == 0,
				fmt.Sprintf("%d fields of Lexer that Scan never assigns; Reset changes %v — a lexer made with a Context (NewLexerFile) must hand out the same token positions after Reset as before", nOther, changed), p.FnPos(reset))
		} else {
			c.Undecided("R16.2", d+": Lexer.Reset leaves the other fields alone", fmt.Sprintf("Reset / NewLexer could not be interpreted (%s %s / %s %s)", ro.Term, ro.Undecided, no.Term, no.Undecided))
		}
		c.Sample(map[string]any{"rule": "R16.2", "variant": d, "fields_mutated_by_Scan": ws, "NewLexer_init": init})
	}

	// ---- R16.1: Parse re-initialises every field before reading it ----
	for _, d := range gmParserDirs {
		checkPopNFresh(c, p, "R16.4", d)
		sp := p.SSAPkg(gmRoot + "/" + d)
		parse := p.Func(gmRoot+"/"+d, "*Parser.Parse")
		reset := p.Func(gmRoot+"/"+d, "*Parser.Reset")
		sreset := p.Func(gmRoot+"/"+d, "*stack.reset")
		if sp == nil || parse == nil || reset == nil || sreset == nil {
			c.Undecided("R16.1", d, "Parse / Reset / stack.reset not found in the generated parser")
			continue
		}
		fns := pkgFunctions(p, sp)
		// (a) prologue of Parse: Reset, then Scan, then nextToken assigned; nothing read before
		hs := loopHeaders(parse)
		if len(hs) < 1 {
			c.Undecided("R16.1", d+": Parse", "no loop found")
			continue
		}
		var evs []string
		reg := &Region{Fn: parse, Cuts: cutSet(hs...), Summaries: map[string]Summary{
			"*.Reset": func(r *Run, cc *ssa.CallCommon, args []Val) (Val, error) {
				evs = append(evs, "Reset("+render(args[0])+")")
				return VTuple{}, nil
			},
			"invoke:Scan": func(r *Run, cc *ssa.CallCommon, args []Val) (Val, error) {
				evs = append(evs, "Scan()")
				return VOpq{"tok0"}, nil
			},
		}}
		out := InterpretSafe(reg, &MapWorld{})
		for _, e := range out.Events {
			evs = append(evs, e)
		}
		got := strings.Join(evs, "; ")
		want := "Reset(&p); Scan(); store p.nextToken = tok0"
		ok := strings.HasPrefix(out.Term, "cut:") && got == want
		c.Ob("R16.1", d+": Parse prologue", ok, fmt.Sprintf("term=%s events=[%s] %s; required [%s]: the stack is reset and the look-ahead re-read before anything is read", out.Term, got, out.Undecided, want), p.FnPos(parse))
		// (b) Reset = stack.reset + push(0, nil)
		evs = nil
		reg = &Region{Fn: reset, Summaries: map[string]Summary{
			"*.reset": func(r *Run, cc *ssa.CallCommon, args []Val) (Val, error) {
				evs = append(evs, "reset("+render(args[0])+")")
				return VTuple{}, nil
			},
			"*.push": func(r *Run, cc *ssa.CallCommon, args []Val) (Val, error) {
				evs = append(evs, "push("+render(args[0])+","+render(args[1])+","+render(args[2])+")")
				return VTuple{}, nil
			},
		}}
		out = InterpretSafe(reg, &MapWorld{})
		got = strings.Join(evs, "; ")
		want = "reset(&*p.stack); push(&*p.stack,0,nil)"
		c.Ob("R16.1", d+": Parser.Reset", out.Term == "return" && got == want && len(out.Events) == 0, fmt.Sprintf("events=[%s] stores=%v %s; required [%s]", got, out.Events, out.Undecided, want), p.FnPos(reset))
		// (c) stack.reset truncates every field of the stack
		sf := structFieldNames(sp, "stack")
		for _, f := range sf {
			vals := allRecvFieldStores(sreset, f)
			okTrunc := len(vals) > 0
			for _, v := range vals {
				if !emptySliceValue(v) {
					okTrunc = false
				}
			}
			// on every path to the return some store must have happened: with one store this is
			// the entry block; with several, each must be an emptying store (checked above) and the
			// stores together must cover all paths
			if !storesCoverAllPaths(sreset, f) {
				okTrunc = false
			}
			c.Ob("R16.1", fmt.Sprintf("%s: stack.reset empties %s", d, f), okTrunc, fmt.Sprintf("every field of the parse stack must be left empty (length 0) by reset on every path — %d store(s) found; a field that keeps history, or a slice that is re-made with a non-zero length, leaks into the next Parse", len(vals)), p.FnPos(sreset))
		}
		// (d) every other field of Parser: never read, or assigned in the prologue / read-only Context
		for _, f := range structFieldNames(sp, "Parser") {
			switch f {
			case "stack", "nextToken":
				continue // (a), (b)
			case "Context":
				// read-only for the generated code
				stored := false
				for _, fn := range fns {
					if fn.Name() == "init" {
						continue
					}
					for _, b := range fn.Blocks {
						for _, in := range b.Instrs {
							if st, ok := in.(*ssa.Store); ok {
								if fa, ok := st.Addr.(*ssa.FieldAddr); ok && isNamedStruct(fa.X.Type(), "Parser") && fieldVar(fa).Name() == "Context" {
									if _, isAlloc := fa.X.(*ssa.Alloc); !isAlloc {
										stored = true
									}
								}
							}
						}
					}
				}
				c.Ob("R16.1", d+": Parser.Context is never written by generated code", !stored, "Context is user state handed to the actions; the generated code only reads it")
			default:
				loads := fieldLoads(p, fns, "Parser", f)
				c.Ob("R16.1", fmt.Sprintf("%s: Parser.%s carries no history", d, f), len(loads) == 0, fmt.Sprintf("field is neither re-initialised by Parse nor unused: read in %v", loads))
			}
		}
		// nextToken: every load in the package is in a function only reachable after Parse's prologue
		// (Parse itself, Error, newError, firstRecoveryState helpers); constructor does not read it.
		np := p.Func(gmRoot+"/"+d, "NewParser")
		if np != nil {
			reads := false
			for _, b := range np.Blocks {
				for _, in := range b.Instrs {
					if u, ok := in.(*ssa.UnOp); ok && u.Op == token.MUL {
						if fa, ok := u.X.(*ssa.FieldAddr); ok && fieldVar(fa).Name() == "nextToken" {
							reads = true
						}
					}
				}
			}
			c.Ob("R16.1", d+": NewParser does not depend on nextToken", !reads, "")
		}
	}
	c.Assumptions = append(c.Assumptions, "Lexer.src and Lexer.Context are set by the constructor/user and never written by Scan (checked: Scan's store set)",
		"user actions may keep their argument slice: popN hands out fresh memory (R16.4)")
	c.Trusted = append(c.Trusted, "go/ssa of the instantiated lexer and parser templates", "checker/sx.go for the prologue event order")
	c.Explanation = "C16 decided as a state-reinitialisation property of the generated code: (lexer) the set W of Lexer fields that Scan can store to is computed from the SSA of the instantiated template; Reset must assign every field of W the constant NewLexer gives it. (parser) the prologue of Parse is interpreted: its events must be Reset, Scan, store nextToken, in that order and before the loop; Reset must be stack.reset + push(0,nil); stack.reset must truncate every field of the stack; every other field of Parser must be Context (never written by generated code) or never read. Hence every run of Parse / every scan after Reset starts from the state of a fresh object. R16.4: the slice popN hands to an action is freshly allocated, so what an action keeps cannot be overwritten by later pushes into the surviving backing array."
}

func isZeroConst(v ssa.Value) bool {
	c, ok := v.(*ssa.Const)
	return ok && c.Value != nil && c.Int64() == 0
}

func allRecvFieldStores(fn *ssa.Function, field string) []ssa.Value {
	var out []ssa.Value
	if len(fn.Params) == 0 {
		return out
	}
	recv := fn.Params[0]
	for _, b := range fn.Blocks {
		for _, in := range b.Instrs {
			if st, ok := in.(*ssa.Store); ok {
				if fa, ok := st.Addr.(*ssa.FieldAddr); ok && fa.X == ssa.Value(recv) && fieldVar(fa).Name() == field {
					out = append(out, st.Val)
				}
			}
		}
	}
	return out
}

// emptySliceValue: x[:0], x[0:0] or make(T, 0, n).
func emptySliceValue(v ssa.Value) bool {
	switch x := v.(type) {
	case *ssa.Slice:
		hi, isC := x.High.(*ssa.Const)
		return isC && hi.Int64() == 0 && (x.Low == nil || isZeroConst(x.Low))
	case *ssa.MakeSlice:
		return isZeroConst(x.Len)
	case *ssa.Const:
		return x.Value == nil // nil slice
	}
	return false
}

// storesCoverAllPaths: every return of fn is dominated by the union of blocks
// storing to the field, i.e. no path from entry to a return avoids all of them.
func storesCoverAllPaths(fn *ssa.Function, field string) bool {
	storing := map[*ssa.BasicBlock]bool{}
	recv := fn.Params[0]
	for _, b := range fn.Blocks {
		for _, in := range b.Instrs {
			if st, ok := in.(*ssa.Store); ok {
				if fa, ok := st.Addr.(*ssa.FieldAddr); ok && fa.X == ssa.Value(recv) && fieldVar(fa).Name() == field {
					storing[b] = true
				}
			}
		}
	}
	// reachability from entry without passing a storing block
	seen := map[*ssa.BasicBlock]bool{}
	var walk func(b *ssa.BasicBlock) bool
	walk = func(b *ssa.BasicBlock) bool {
		if storing[b] || seen[b] {
			return true
		}
		seen[b] = true
		if len(b.Succs) == 0 {
			if _, isRet := b.Instrs[len(b.Instrs)-1].(*ssa.Return); isRet {
				return false
			}
			return true
		}
		for _, s := range b.Succs {
			if !walk(s) {
				return false
			}
		}
		return true
	}
	return walk(fn.Blocks[0])
}

// R16.4: the attributes handed to an action do not share memory with the stack. The stack's backing array
// survives Reset and is overwritten by later pushes, so an action that keeps its argument slice would see
// values that depend on how far earlier parses grew the stack.
func checkPopNFresh(c *Ctx, p *Prog, rule, dir string) {
	fn := p.Func(gmRoot+"/"+dir, "*stack.popN")
	if fn == nil {
		c.Undecided(rule, dir+" stack.popN", "function not found")
		return
	}
	var origin func(v ssa.Value, seen map[ssa.Value]bool) string
	origin = func(v ssa.Value, seen map[ssa.Value]bool) string {
		if seen[v] {
			return "fresh"
		}
		seen[v] = true
		switch x := v.(type) {
		case *ssa.MakeSlice:
			return "fresh"
		case *ssa.Alloc:
			if x.Heap {
				return "fresh"
			}
			return "local"
		case *ssa.Slice:
			return origin(x.X, seen)
		case *ssa.Phi:
			for _, e := range x.Edges {
				if o := origin(e, seen); o != "fresh" {
					return o
				}
			}
			return "fresh"
		case *ssa.Call:
			if b, ok := x.Call.Value.(*ssa.Builtin); ok && b.Name() == "append" {
				return origin(x.Call.Args[0], seen)
			}
			return "result of " + x.Call.Value.Name()
		case *ssa.UnOp:
			if fa, ok := x.X.(*ssa.FieldAddr); ok {
				return "the stack's own slice (field " + fieldVar(fa).Name() + ")"
			}
			return "a load"
		case *ssa.Const:
			return "fresh" // nil
		}
		return fmt.Sprintf("%T", v)
	}
	n := 0
	for _, b := range fn.Blocks {
		for _, in := range b.Instrs {
			ret, ok := in.(*ssa.Return)
			if !ok {
				continue
			}
			for _, r := range ret.Results {
				n++
				o := origin(r, map[ssa.Value]bool{})
				c.Ob(rule, dir+" stack.popN result", o == "fresh", "the attribute slice handed to the action is "+o+"; required: freshly allocated (the stack's backing array survives Reset and is overwritten by later pushes, so a kept slice would make the result depend on earlier parses)", p.Pos(in.Pos()))
			}
		}
	}
	if n == 0 {
		c.Undecided(rule, dir+" stack.popN", "no return found")
	}
}

// recvFieldStoresDeep: the receiver's fields stored by fn or by the methods it calls on the same receiver.
func recvFieldStoresDeep(fn *ssa.Function, seen map[*ssa.Function]bool) map[string]ssa.Value {
	out := map[string]ssa.Value{}
	if fn == nil || seen[fn] || fn.Blocks == nil {
		return out
	}
	seen[fn] = true
	for k, v := range recvFieldStores(fn) {
		out[k] = v
	}
	for _, b := range fn.Blocks {
		for _, in := range b.Instrs {
			call, ok := in.(*ssa.Call)
			if !ok {
				continue
			}
			f := call.Call.StaticCallee()
			if f == nil || f.Signature.Recv() == nil || len(call.Call.Args) == 0 || len(fn.Params) == 0 || call.Call.Args[0] != ssa.Value(fn.Params[0]) {
				continue
			}
			for k, v := range recvFieldStoresDeep(f, seen) {
				if _, has := out[k]; !has {
					out[k] = v
				}
			}
		}
	}
	return out
}
