package main

// E1 — template registry and the generated model (GM).
//
// gocc's output is the text of 16 template / string constants instantiated with
// tables. The checker instantiates the same constants with placeholder tables
// and analyses the result as ordinary Go packages. Nothing of gocc is executed:
// the constants are read with go/parser, and text/template (the Go library) is
// applied to placeholder data built here.

import (
	"bytes"
	"fmt"
	"go/ast"
	"go/parser"
	"go/token"
	"os"
	"path/filepath"
	"sort"
	"strconv"
	"strings"
	"text/template"
)

type tmplSpec struct {
	Pkg      string // package directory relative to the module root
	Const    string // name of the constant (or never-assigned var) holding the text
	Out      string // output file relative to the output directory
	IsTmpl   bool   // passed through text/template (true) or written verbatim
	UsedIn   string // function that consumes the constant
	DataType string // name of the struct type handed to Execute ("" = none / basic)
	Dead     bool   // generator unreachable from main
	Zip      bool   // only used with -zip
	NoZip    bool   // only used without -zip
}

var tmplRegistry = []tmplSpec{
	{Pkg: "internal/lexer/gen/golang", Const: "lexerSrc", Out: "lexer/lexer.go", IsTmpl: true, UsedIn: "genLexer", DataType: "lexerData"},
	{Pkg: "internal/lexer/gen/golang", Const: "transTabSrc", Out: "lexer/transitiontable.go", IsTmpl: true, UsedIn: "getTransitionTable", DataType: "transitionTableData"},
	{Pkg: "internal/lexer/gen/golang", Const: "actionTableSrc", Out: "lexer/acttab.go", IsTmpl: true, UsedIn: "genActionTable", DataType: "actTab"},
	{Pkg: "internal/lexer/gen/golang", Const: "asciiTabSrc", Out: "lexer/asciitable.go", IsTmpl: true, UsedIn: "genAsciiTable", Dead: true},
	{Pkg: "internal/parser/gen/golang", Const: "actionTableSrc", Out: "parser/actiontable.go", IsTmpl: true, UsedIn: "GenActionTable", DataType: "actionTableData", NoZip: true},
	{Pkg: "internal/parser/gen/golang", Const: "actionCompTableSrc", Out: "parser/actiontable.go", IsTmpl: true, UsedIn: "GenCompActionTable", Zip: true},
	{Pkg: "internal/parser/gen/golang", Const: "gotoTableSrc", Out: "parser/gototable.go", IsTmpl: true, UsedIn: "GenGotoTable", DataType: "gotoTableData", NoZip: true},
	{Pkg: "internal/parser/gen/golang", Const: "gotoTableCompSrc", Out: "parser/gototable.go", IsTmpl: true, UsedIn: "GenCompGotoTable", Zip: true},
	{Pkg: "internal/parser/gen/golang", Const: "parserSrc", Out: "parser/parser.go", IsTmpl: true, UsedIn: "GenParser", DataType: "parserData"},
	{Pkg: "internal/parser/gen/golang", Const: "prodsTabSrc", Out: "parser/productionstable.go", IsTmpl: true, UsedIn: "GenProductionsTable", DataType: "prodsTabData"},
	{Pkg: "internal/parser/gen/golang", Const: "actionSrc", Out: "parser/action.go", UsedIn: "GenAction"},
	{Pkg: "internal/parser/gen/golang", Const: "contextSrc", Out: "parser/context.go", IsTmpl: true, UsedIn: "GenContext"},
	{Pkg: "internal/parser/gen/golang", Const: "errorsSrc", Out: "errors/errors.go", IsTmpl: true, UsedIn: "GenErrors"},
	{Pkg: "internal/token/gen/golang", Const: "TokenMapSrc", Out: "token/token.go", IsTmpl: true, UsedIn: "GenToken", DataType: "TokenData"},
	{Pkg: "internal/token/gen/golang", Const: "contextSrc", Out: "token/context.go", IsTmpl: true, UsedIn: "GenContext"},
	{Pkg: "internal/util/gen/golang", Const: "litConvSrc", Out: "util/litconv.go", UsedIn: "GenLitConv"},
	{Pkg: "internal/util/gen/golang", Const: "runeSrc", Out: "util/rune.go", UsedIn: "GenRune"},
}

const gmRoot = "internal/zzgm"

type gmFile struct {
	Spec *tmplSpec
	Dir  string // package dir below gmRoot, e.g. "lexer_debug"
	Name string
	Text string
}

type GM struct {
	Texts    map[string]string // "pkg.Const" -> text (after the [1:] trim)
	Raw      map[string]string
	Files    []gmFile
	Problems []string            // registry / parse / execute problems (UNDECIDED)
	PkgConst map[string][]string // gen package -> template-looking constants found
}

func specKey(s *tmplSpec) string { return s.Pkg + "." + s.Const }

// evalStringExpr evaluates a constant string expression made of literals,
// concatenation and other package-level string constants of the same package.
func evalStringExpr(e ast.Expr, consts map[string]ast.Expr, depth int) (string, bool) {
	if depth > 8 {
		return "", false
	}
	switch x := e.(type) {
	case *ast.BasicLit:
		if x.Kind != token.STRING {
			return "", false
		}
		s, err := strconv.Unquote(x.Value)
		return s, err == nil
	case *ast.ParenExpr:
		return evalStringExpr(x.X, consts, depth+1)
	case *ast.BinaryExpr:
		if x.Op != token.ADD {
			return "", false
		}
		a, ok1 := evalStringExpr(x.X, consts, depth+1)
		b, ok2 := evalStringExpr(x.Y, consts, depth+1)
		return a + b, ok1 && ok2
	case *ast.Ident:
		if v, ok := consts[x.Name]; ok {
			return evalStringExpr(v, consts, depth+1)
		}
	}
	return "", false
}

// readGenConstants parses one generator package directory and returns its
// package-level string constants/variables.
func readGenConstants(dir string) (map[string]string, error) {
	fset := token.NewFileSet()
	ents, err := os.ReadDir(dir)
	if err != nil {
		return nil, err
	}
	exprs := map[string]ast.Expr{}
	for _, e := range ents {
		if e.IsDir() || !strings.HasSuffix(e.Name(), ".go") || strings.HasSuffix(e.Name(), "_test.go") {
			continue
		}
		f, err := parser.ParseFile(fset, filepath.Join(dir, e.Name()), nil, 0)
		if err != nil {
			return nil, err
		}
		for _, d := range f.Decls {
			gd, ok := d.(*ast.GenDecl)
			if !ok || (gd.Tok != token.CONST && gd.Tok != token.VAR) {
				continue
			}
			for _, s := range gd.Specs {
				vs := s.(*ast.ValueSpec)
				for i, n := range vs.Names {
					if i < len(vs.Values) {
						exprs[n.Name] = vs.Values[i]
					}
				}
			}
		}
	}
	out := map[string]string{}
	for n, e := range exprs {
		if s, ok := evalStringExpr(e, exprs, 0); ok {
			out[n] = s
		}
	}
	return out, nil
}

func looksLikeGoFile(s string) bool {
	t := strings.TrimSpace(s)
	return strings.Contains(s, "\npackage ") && (strings.HasPrefix(t, "//") || strings.HasPrefix(t, "package "))
}

// ---- placeholder data ------------------------------------------------------------

type M = map[string]any

const gmImport = gomod + "/" + gmRoot

func gmLexerData(debug bool, dir string) M {
	return M{"Debug": debug, "TokenImport": gmImport + "/token", "UtilImport": gmImport + "/util", "NumStates": 3, "NumSymbols": 3,
		"Symbols": []string{"'a'", "'0'-'9'", "."}}
}

func gmTransTabData() M {
	return M{"Header": "", "Rows": []M{
		{"MatchAny": false, "MatchAnyState": -1, "Imports": []M{}, "SymRange": []M{
			{"Range": "['a','a']", "Test": "r == 97", "State": 1},
			{"Range": "[' ',' ']", "Test": "r == 32", "State": 2}}},
		{"MatchAny": true, "MatchAnyState": 0, "Imports": []M{}, "SymRange": []M{
			{"Range": "['0','9']", "Test": "48 <= r && r <= 57", "State": 1}}},
		{"MatchAny": false, "MatchAnyState": -1, "Imports": []M{}, "SymRange": []M{}},
	}}
}

func gmActTabData() M {
	return M{"TokenImport": gmImport + "/token", "Actions": []M{
		{"Accept": 0, "Ignore": ""}, {"Accept": 2, "Ignore": ""}, {"Accept": -1, "Ignore": "!whitespace"}}}
}

func gmTokenData() M {
	return M{"TypMap": []string{"INVALID", "␚", "a"}, "IdMap": []string{`"INVALID": 0`, `"␚": 1`, `"a": 2`}}
}

func gmParserData(debug bool) M {
	return M{"Debug": debug, "ErrorImport": gmImport + "/errors", "TokenImport": gmImport + "/token",
		"NumProductions": 3, "NumStates": 3, "NumSymbols": 5}
}

func gmActionTableData() M {
	return M{"Rows": []M{
		{"CanRecover": false, "Actions": []string{"nil,          // INVALID", "nil,          // ␚", "shift(1),     // a"}},
		{"CanRecover": true, "Actions": []string{"nil,          // INVALID", "reduce(1),    // ␚, reduce: S", "nil,          // a"}},
		{"CanRecover": false, "Actions": []string{"nil,          // INVALID", "accept(true), // ␚", "nil,          // a"}},
	}}
}

func gmGotoTableData() M {
	return M{"NumNTSymbols": 2, "Rows": [][]M{
		{{"NT": "S'", "State": -1, "Pad": 1}, {"NT": "S", "State": 2, "Pad": 2}},
		{{"NT": "S'", "State": -1, "Pad": 1}, {"NT": "S", "State": -1, "Pad": 1}},
		{{"NT": "S'", "State": -1, "Pad": 1}, {"NT": "S", "State": -1, "Pad": 1}},
	}}
}

func gmProdsTabData() M {
	return M{"Header": "", "ProdTab": []M{
		{"String": "`S' : S	<<  >>`", "Id": "S'", "NTType": 0, "NumSymbols": 1, "ReduceFunc": "return X[0], nil"},
		{"String": "`S : a	<<  >>`", "Id": "S", "NTType": 1, "NumSymbols": 1, "ReduceFunc": "return X[0], nil"},
		{"String": "`S : empty	<<  >>`", "Id": "S", "NTType": 1, "NumSymbols": 0, "ReduceFunc": "return nil, nil"},
	}}
}

type gmPlan struct {
	spec string // Pkg.Const
	dir  string
	data any
}

func gmPlans() []gmPlan {
	lex := "internal/lexer/gen/golang."
	par := "internal/parser/gen/golang."
	tok := "internal/token/gen/golang."
	utl := "internal/util/gen/golang."
	var ps []gmPlan
	ps = append(ps,
		gmPlan{tok + "TokenMapSrc", "token", gmTokenData()},
		gmPlan{tok + "contextSrc", "token", nil},
		gmPlan{utl + "litConvSrc", "util", nil},
		gmPlan{utl + "runeSrc", "util", nil},
		gmPlan{par + "errorsSrc", "errors", gmImport + "/token"},
	)
	for _, dbg := range []bool{false, true} {
		d := "lexer_plain"
		if dbg {
			d = "lexer_debug"
		}
		ps = append(ps,
			gmPlan{lex + "lexerSrc", d, gmLexerData(dbg, d)},
			gmPlan{lex + "transTabSrc", d, gmTransTabData()},
			gmPlan{lex + "actionTableSrc", d, gmActTabData()})
	}
	for _, dbg := range []bool{false, true} {
		for _, zip := range []bool{false, true} {
			d := "parser_plain"
			switch {
			case dbg && zip:
				d = "parser_debugzip"
			case dbg:
				d = "parser_debug"
			case zip:
				d = "parser_zip"
			}
			ps = append(ps,
				gmPlan{par + "parserSrc", d, gmParserData(dbg)},
				gmPlan{par + "prodsTabSrc", d, gmProdsTabData()},
				gmPlan{par + "actionSrc", d, nil},
				gmPlan{par + "contextSrc", d, nil})
			if zip {
				ps = append(ps,
					gmPlan{par + "actionCompTableSrc", d, "[]byte{}"},
					gmPlan{par + "gotoTableCompSrc", d, M{"NumNTSymbols": 2, "Bytes": "[]byte{}"}})
			} else {
				ps = append(ps,
					gmPlan{par + "actionTableSrc", d, gmActionTableData()},
					gmPlan{par + "gotoTableSrc", d, gmGotoTableData()})
			}
		}
	}
	return ps
}

// BuildGM reads the template constants from repo and instantiates the model.
func BuildGM(repo string) *GM {
	g := &GM{Texts: map[string]string{}, Raw: map[string]string{}, PkgConst: map[string][]string{}}
	byKey := map[string]*tmplSpec{}
	pkgs := map[string]bool{}
	for i := range tmplRegistry {
		s := &tmplRegistry[i]
		byKey[specKey(s)] = s
		pkgs[s.Pkg] = true
	}
	pkgList := make([]string, 0, len(pkgs))
	for p := range pkgs {
		pkgList = append(pkgList, p)
	}
	sort.Strings(pkgList)
	for _, pk := range pkgList {
		consts, err := readGenConstants(filepath.Join(repo, pk))
		if err != nil {
			g.Problems = append(g.Problems, fmt.Sprintf("%s: %v", pk, err))
			continue
		}
		names := make([]string, 0, len(consts))
		for n := range consts {
			names = append(names, n)
		}
		sort.Strings(names)
		for _, n := range names {
			if looksLikeGoFile(consts[n]) {
				g.PkgConst[pk] = append(g.PkgConst[pk], n)
				if _, ok := byKey[pk+"."+n]; !ok {
					g.Problems = append(g.Problems, fmt.Sprintf("%s.%s looks like a generated-file template but is not in the checker's registry", pk, n))
				}
			}
		}
		for i := range tmplRegistry {
			s := &tmplRegistry[i]
			if s.Pkg != pk {
				continue
			}
			txt, ok := consts[s.Const]
			if !ok {
				g.Problems = append(g.Problems, fmt.Sprintf("template constant %s.%s not found or not a constant string expression", pk, s.Const))
				continue
			}
			g.Raw[specKey(s)] = txt
			// every generator writes C[1:] (the constant starts with a newline); asciiTabSrc is used untrimmed
			if strings.HasPrefix(txt, "\n") && s.Const != "asciiTabSrc" {
				txt = txt[1:]
			}
			g.Texts[specKey(s)] = txt
		}
	}
	for _, pl := range gmPlans() {
		s := byKey[pl.spec]
		txt, ok := g.Texts[pl.spec]
		if !ok {
			continue
		}
		out := txt
		if s.IsTmpl {
			t, err := template.New(s.Const).Parse(txt)
			if err != nil {
				g.Problems = append(g.Problems, fmt.Sprintf("%s does not parse as a template: %v", pl.spec, err))
				continue
			}
			var buf bytes.Buffer
			if err := t.Option("missingkey=error").Execute(&buf, pl.data); err != nil {
				g.Problems = append(g.Problems, fmt.Sprintf("%s cannot be instantiated with the model data for %s (a field the model does not know?): %v", pl.spec, pl.dir, err))
				continue
			}
			out = buf.String()
		}
		g.Files = append(g.Files, gmFile{Spec: s, Dir: pl.dir, Name: filepath.Base(s.Out), Text: out})
	}
	return g
}

func (g *GM) Overlay(repo string) map[string][]byte {
	ov := map[string][]byte{}
	for _, f := range g.Files {
		ov[filepath.Join(repo, gmRoot, f.Dir, f.Name)] = []byte(f.Text)
	}
	return ov
}

func (g *GM) Dirs() []string {
	seen := map[string]bool{}
	var out []string
	for _, f := range g.Files {
		if !seen[f.Dir] {
			seen[f.Dir] = true
			out = append(out, f.Dir)
		}
	}
	sort.Strings(out)
	return out
}

var gmLexerDirs = []string{"lexer_plain", "lexer_debug"}
var gmParserDirs = []string{"parser_plain", "parser_debug", "parser_zip", "parser_debugzip"}

// gmHealth reports registry / instantiation / type-check problems of the model.
// Every property that reasons about generated code depends on it.
func gmHealth(c *Ctx, p *Prog, rule string) bool {
	ok := true
	for _, pr := range p.GM.Problems {
		c.Undecided(rule, "generated model", pr)
		ok = false
	}
	paths := make([]string, 0, len(p.PkgErrors))
	for k := range p.PkgErrors {
		paths = append(paths, k)
	}
	sort.Strings(paths)
	for _, k := range paths {
		if !strings.Contains(k, gmRoot) {
			continue
		}
		es := p.PkgErrors[k]
		if len(es) > 3 {
			es = es[:3]
		}
		c.Ob(rule, "generated model "+strings.TrimPrefix(k, gmImport+"/"), false, "instantiated templates do not type-check: "+strings.Join(es, "; "))
		ok = false
	}
	n := 0
	for _, d := range p.GM.Dirs() {
		if p.SSAPkg(gmRoot+"/"+d) != nil {
			n++
		}
	}
	if n < 9 {
		c.Undecided(rule, "generated model", fmt.Sprintf("only %d of 9 model packages loaded", n))
		ok = false
	}
	c.Note("%s: generated model: %d files in %d packages instantiated from %d template constants, type-checked", rule, len(p.GM.Files), n, len(p.GM.Texts))
	return ok
}
