package main

import (
	"fmt"
	"go/ast"
	"go/constant"
	"go/types"
	"regexp"
	"sort"
	"strings"

	"golang.org/x/tools/go/ssa"
)

func init() {
	register("C03", "other", runC03)
	register("C06", "other", runC06)
}

// sdtPattern finds the constant handed to regexp.MustCompile for the package-level sdtRex.
func sdtPattern(p *Prog) (string, bool) {
	sp := p.SSAPkg("internal/frontend/token")
	if sp == nil {
		return "", false
	}
	init := sp.Func("init")
	if init == nil {
		return "", false
	}
	for _, b := range init.Blocks {
		for _, in := range b.Instrs {
			st, ok := in.(*ssa.Store)
			if !ok {
				continue
			}
			g, ok := st.Addr.(*ssa.Global)
			if !ok || g.Name() != "sdtRex" {
				continue
			}
			if call, ok := st.Val.(*ssa.Call); ok {
				if f := call.Call.StaticCallee(); f != nil && f.String() == "regexp.MustCompile" {
					if k, ok := call.Call.Args[0].(*ssa.Const); ok && k.Value != nil && k.Value.Kind() == constant.String {
						return constant.StringVal(k.Value), true
					}
				}
			}
		}
	}
	return "", false
}

func checkSDTVal(c *Ctx, p *Prog, rule string) {
	outer := p.Func("internal/frontend/token", "*Token.SDTVal")
	if outer == nil || len(outer.AnonFuncs) != 1 {
		c.Undecided(rule, "Token.SDTVal", "function or its replacement closure not found")
		return
	}
	cl := outer.AnonFuncs[0]
	// The digits are written as a plain decimal numeral: Go reads X[010] as X[8] and refuses X[08]. The helper
	// that does it is interpreted in place; "the digits without their leading zeros" is the value of
	// strings.TrimLeft(digits, "0"), which the world makes empty (all zeros) or not.
	for _, wd := range []struct {
		name    string
		b       int64
		allZero bool
		want    string
	}{
		{"$T<digits>", 'T', false, `(("X["+NOZEROS)+"].(*token.Token)")`},
		{"$T0", 'T', true, `"X[0].(*token.Token)"`},
		{"$Context", 'C', false, `"C"`},
		{"$<digits>", '7', false, `(("X["+NOZEROS)+"]")`},
		{"$0 / $00", '0', true, `"X[0]"`},
	} {
		var trimmed []string
		// the closure's parameter is called "match" here whatever its name in the source
		reg := &Region{Fn: cl, Params: map[string]Val{cl.Params[0].Name(): VOpq{"match"}}, Summaries: map[string]Summary{
			"strings.TrimLeft": func(r *Run, cc *ssa.CallCommon, args []Val) (Val, error) {
				trimmed = append(trimmed, render(args[0])+" without leading "+render(args[1]))
				return VOpq{"NOZEROS"}, nil
			}}}
		nz := "7"
		if wd.allZero {
			nz = ""
		}
		out := InterpretSafe(reg, &MapWorld{Ints: map[string]int64{"match[1]": wd.b}, Strs: map[string]string{"NOZEROS": nz}})
		got := out.Term
		if out.Term == "return" && len(out.Results) == 1 {
			got = out.Results[0]
		}
		ok := got == wd.want && len(out.Events) == 0
		if wd.b != 'C' {
			k := "1"
			if wd.b == 'T' {
				k = "2"
			}
			ok = ok && len(trimmed) == 1 && trimmed[0] == "match["+k+":] without leading \"0\""
		}
		stepOb(c, out, rule, "SDTVal replacement: "+wd.name, ok, fmt.Sprintf("code yields %s (digits normalised: %v) %s; required %s with NOZEROS = the digits after the $ (after $T) without their leading zeros ($Tn = the n-th attribute as token, $Context = C, $n = the n-th attribute; Go reads X[010] as X[8] and refuses X[08])", got, trimmed, out.Undecided, wd.want), p.FnPos(cl))
	}
	// outer: the replaced text without the << >> brackets, trimmed
	reg := &Region{Fn: outer, Summaries: map[string]Summary{
		"*.ReplaceAllStringFunc": func(r *Run, cc *ssa.CallCommon, args []Val) (Val, error) {
			return VOpq{"REPLACED(" + render(args[1]) + ")"}, nil
		},
		"strings.TrimSpace": pureSummary("TrimSpace"),
	}}
	out := InterpretSafe(reg, &MapWorld{})
	want := "TrimSpace(REPLACED(string(T.Lit))[2:len(REPLACED(string(T.Lit)))-2])"
	got := strings.ReplaceAll(strings.Join(out.Results, ","), "("+outer.Params[0].Name()+".Lit)", "(T.Lit)")
	c.Ob(rule, "SDTVal: brackets stripped", out.Term == "return" && got == want, fmt.Sprintf("result %s %s; required %s", got, out.Undecided, want), p.FnPos(outer))
	// the pattern's language on probes (semantic, not textual)
	pat, ok := sdtPattern(p)
	if !ok {
		c.Undecided(rule, "sdtRex", "pattern constant not found")
		return
	}
	re, err := regexp.Compile(pat)
	if err != nil {
		c.Ob(rule, "sdtRex", false, "pattern does not compile: "+err.Error())
		return
	}
	probes := map[string][]string{
		"$0": {"$0"}, "$12": {"$12"}, "$T3": {"$T3"}, "$T10 $2": {"$T10", "$2"}, "$Context": {"$Context"},
		"$C": nil, "$T": nil, "$x": nil, "$": nil, "x$1y": {"$1"}, "$$1": {"$1"}, "$Tx": nil, "$Contex": nil, "ast.New($0, $T1, $Context)": {"$0", "$T1", "$Context"},
		"$1a": {"$1"}, "$T1a": {"$T1"},
		// every reference is substituted wherever it stands: the scanner of actions knows no Go syntax
		`f('"', $2, "x")`: {"$2"}, "g(`a`, $T0, `b`)": {"$T0"}, `h("$1")`: {"$1"}, "k('`', $3, '`')": {"$3"}, `m("a\"", $4)`: {"$4"},
	}
	nbad := 0
	firstBad := ""
	for in, want := range probes {
		got := re.FindAllString(in, -1)
		if strings.Join(got, "|") != strings.Join(want, "|") {
			nbad++
			if firstBad == "" {
				firstBad = fmt.Sprintf("on %q the pattern finds %v, required %v", in, got, want)
			}
		}
	}
	c.Ob(rule, "sdtRex recognises exactly $n, $Tn, $Context", nbad == 0, fmt.Sprintf("pattern %q checked on %d probe strings with Go's regexp (the pattern text itself is not compared). %s", pat, len(probes), firstBad))
}

// newError of the generated parser (R03.3 / R06.1)
func checkNewError(c *Ctx, p *Prog, rule, dir string) {
	pkg := gmRoot + "/" + dir
	fn := p.Func(pkg, "*Parser.newError")
	if fn == nil {
		c.Undecided(rule, dir+" newError", "function not found")
		return
	}
	hs := loopHeaders(fn)
	if len(hs) != 1 {
		c.Undecided(rule, dir+" newError", "expected one loop")
		return
	}
	recv := fn.Params[0].Name()
	ps := &parserSumm{}
	reg := &Region{Fn: fn, Cuts: cutSet(hs[0]), Summaries: ps.summaries(nil)}
	out := InterpretSafe(reg, &MapWorld{})
	st := out.Stores
	ok := strings.HasPrefix(out.Term, "cut:") && st["new:complit.Err"] == "err" && st["new:complit.StackTop"] == "TOP@0" && st["new:complit.ErrorToken"] == "&*"+recv+".nextToken"
	c.Ob(rule, dir+" newError: fields", ok, fmt.Sprintf("stores %v %s; required Err = the given error, StackTop = top state, ErrorToken = the current look-ahead", st, out.Undecided), p.FnPos(fn))
	for _, has := range []bool{true, false} {
		ps := &parserSumm{}
		reg := &Region{Fn: fn, Start: hs[0], Cuts: cutSet(hs[0]), StalePrologue: true, Summaries: ps.summaries(nil), PhiInputs: map[string]Val{"rangeindex": VSym{Name: "i"}}}
		w := &MapWorld{Ints: map[string]int64{"i": 1}, AtomFn: func(key string) (bool, bool) {
			if strings.HasSuffix(key, "== nil") {
				return !has, true
			}
			return false, false
		}}
		var app []string
		reg.Summaries["builtin:append"] = func(r *Run, cc *ssa.CallCommon, args []Val) (Val, error) {
			app = append(app, render(args[0])+" ++ "+strings.Join(r.VarargElems(args[1]), ","))
			return VOpq{"APP"}, nil
		}
		out := InterpretSafe(reg, w)
		var ok bool
		if has {
			ok = strings.HasPrefix(out.Term, "cut:") && len(app) == 1 && strings.HasSuffix(app[0], "++ Id(token.TokenMap{},token.Type(i+1))") || (len(app) == 1 && strings.Contains(app[0], "Id(") && strings.HasSuffix(app[0], "i+1)"))
			ok = ok && out.Stores["new:complit.ExpectedTokens"] == "APP"
		} else {
			ok = strings.HasPrefix(out.Term, "cut:") && len(app) == 0 && len(out.Stores) == 0
		}
		c.Ob(rule, fmt.Sprintf("%s newError: column i+1 has an action=%v", dir, has), ok, fmt.Sprintf("term=%s appended=%v stores=%v %s; required: the name of token type i+1 is appended to ExpectedTokens iff the row has an action for it, in index order", out.Term, app, out.Stores, out.Undecided), p.FnPos(fn))
	}
}

func runC03(c *Ctx) {
	p := c.RepoProg()
	checkSymbolNamespace(c, p, "R03.9")
	if !gmHealth(c, p, "R03.0") {
		return
	}
	stores := checkBodyLength(c, p, "R03.1n")
	checkDefaultActions(c, p, "R03.1", stores)
	checkSDTVal(c, p, "R03.2")
	for _, d := range gmParserDirs {
		checkLRDriver(c, p, "R03.3", gmRoot+"/"+d, "*Parser.Parse", false)
		checkNewError(c, p, "R03.3", d)
	}
	c.Assumptions = append(c.Assumptions, "reductions happen in post-order of the parse tree: follows from LR parsing given C02 (not decided here)",
		"user action text is valid Go")
	c.Trusted = append(c.Trusted, "go/ssa", "checker/sx.go", "Go's regexp package (used to evaluate the constant pattern on probe strings)")
	c.Explanation = "C03, partial: decided are the pieces that give actions their meaning. R03.1: the synthesised reduce function is the user's action text if given, `return nil, nil` for an empty alternative and `return X[0], nil` otherwise, and NumSymbols is 0 exactly for empty alternatives. R03.2: the replacement closure maps $Tn to X[n].(*token.Token), $Context to C and $n to X[n]; the pattern's language is checked on probe strings; the << >> brackets are stripped. R03.3 (generated Parse, all variants): a shift pushes the very token object the scanner returned; a reduce pops NumSymbols attributes, calls the action with them and the parser's Context, pushes the result; an action error returns at once with newError(err) whose Err is that error; accept returns the remaining attribute. The instantiated templates type-check (ReduceFunc literal and call agree). NOT decided: post-order of reductions (LR property, C02)."
}

func runC06(c *Ctx) {
	p := c.RepoProg()
	checkSymbolNamespace(c, p, "R06.3")
	if !gmHealth(c, p, "R06.0") {
		return
	}
	checkItemAction(c, p, "R06.0a")
	checkCellWriters(c, p, "R06.0b", "R06.0c")
	checkFirstSteps(c, p, "R06.0e")
	checkLR1Steps(c, p, "R06.0e")
	checkItemSetOps(c, p, "R06.0e")
	for _, d := range gmParserDirs {
		checkLRDriver(c, p, "R06.0d", gmRoot+"/"+d, "*Parser.Parse", false)
		checkNewError(c, p, "R06.1", d)
	}
	// R06.2: the error type has the fields the statement names
	sp := p.SSAPkg(gmRoot + "/errors")
	if sp == nil {
		c.Undecided("R06.2", "errors.Error", "package missing")
	} else {
		have := strings.Join(structFieldNames(sp, "Error"), ",")
		want := "Err,ErrorToken,ErrorSymbols,ExpectedTokens,StackTop"
		c.Ob("R06.2", "errors.Error fields", have == want, "fields "+have+"; required "+want)
		// R06.4: looking at the error does not change it. The value names the offending token and the expected
		// terminals for as long as the caller holds it: no function of the errors package may write through a
		// parameter (a store, a copy, or an append into a slice reached from it — ErrorToken.Lit is a window
		// of the caller's input), except a helper that is only ever given memory its caller has just made.
		nFn, nMut := 0, 0
		seen := map[string]bool{}
		var fns []*ssa.Function
		var collect func(f *ssa.Function)
		collect = func(f *ssa.Function) {
			if f == nil || f.Blocks == nil || f.Pkg != sp || seen[f.String()] {
				return
			}
			seen[f.String()] = true
			fns = append(fns, f)
			for _, a := range f.AnonFuncs {
				collect(a)
			}
		}
		for _, m := range sp.Members {
			switch x := m.(type) {
			case *ssa.Function:
				collect(x)
			case *ssa.Type:
				for _, T := range []types.Type{x.Type(), types.NewPointer(x.Type())} {
					ms := p.SSA.MethodSets.MethodSet(T)
					for i := 0; i < ms.Len(); i++ {
						collect(p.SSA.MethodValue(ms.At(i)))
					}
				}
			}
		}
		sortFuncs(fns)
		for _, f := range fns {
			if f.Name() == "init" || f.Synthetic != "" {
				continue
			}
			nFn++
			mp := mutatedParams(f)
			if len(mp) == 0 {
				continue
			}
			// the helper may edit what it is given if every caller in the package hands it fresh memory
			fresh := true
			nCallers := 0
			for _, g := range fns {
				for _, b := range g.Blocks {
					for _, in := range b.Instrs {
						call, ok := in.(*ssa.Call)
						if !ok || call.Call.StaticCallee() != f {
							continue
						}
						nCallers++
						for i := range mp {
							if i < len(call.Call.Args) && !locallyAllocated(call.Call.Args[i], map[ssa.Value]bool{}) {
								fresh = false
							}
						}
					}
				}
			}
			exported := ast.IsExported(f.Name())
			okf := fresh && nCallers > 0
			if !okf {
				nMut++
			}
			var idx []int
			for i := range mp {
				idx = append(idx, i)
			}
			sort.Ints(idx)
			c.Ob("R06.4", "errors."+f.Name()+" writes through a parameter", okf,
				fmt.Sprintf("parameter(s) %v of %s may be written (store / copy / append into memory reached from it); %d call(s) inside the package, all with freshly allocated memory: %v; exported: %v. Required: rendering or describing an error leaves the error, its token and the caller's input as they are", idx, f.Name(), nCallers, fresh, exported), p.FnPos(f))
		}
		c.Ob("R06.4", "errors package: no function changes what it is shown", nMut == 0, fmt.Sprintf("%d functions and methods of the generated errors package examined; %d write through a parameter that is not fresh memory", nFn, nMut))
		if nFn < 3 {
			c.Undecided("R06.4", "vacuity", fmt.Sprintf("only %d functions of the errors package seen", nFn))
		}
	}
	c.Assumptions = append(c.Assumptions, "the action rows contain exactly the viable terminals: canonical LR(1) construction (C02) — NOT decided")
	c.Trusted = append(c.Trusted, "go/ssa", "checker/sx.go")
	c.Explanation = "C06, partial: decided are the mechanisms that make the error exact given a canonical table. A reduce entry exists only on the item's exact follow symbol and error cells are emitted as nil with no default reductions (Item.action table, cell writers); in Parse an empty cell leads to Error before any reduce on that look-ahead, the look-ahead is restored to the offending token and newError is returned; newError carries that token, the top state and, in index order, exactly the token names whose cell in the current row is non-nil. NOT decided: that rows hold exactly the viable terminals (needs the canonical construction, C02)."
}
