package main

import (
	"fmt"
	"go/constant"
	"go/types"
	"strings"

	"golang.org/x/tools/go/ssa"
)

func init() { register("C01", "other", runC01) }

const lexGenPkg = "internal/lexer/gen/golang"

// ---- R01.1: pattern priority -----------------------------------------------------------

func checkLexPriority(c *Ctx, p *Prog, rule string) {
	fn := p.Func(lexItemsPkg, "*ItemSet.Action")
	if fn == nil {
		c.Undecided(rule, "lexer ItemSet.Action", "function not found")
		return
	}
	hs := loopHeaders(fn)
	if len(hs) != 1 {
		c.Undecided(rule, "lexer ItemSet.Action", "expected one loop")
		return
	}
	head := hs[0]
	n, bad := 0, 0
	first := ""
	type kind struct {
		name   string
		strlit bool
	}
	for _, cur := range []string{"none", "strlit", "named"} {
		for _, cand := range []kind{{"strlit", true}, {"named", false}} {
			for _, ord := range []string{"<", "=", ">"} {
				for _, regdef := range []bool{false, true} {
					for _, reduce := range []bool{false, true} {
						cur, cand, ord, regdef, reduce := cur, cand, ord, regdef, reduce
						var curV Val = VConst{}
						reg := &Region{Fn: fn, Start: head, Cuts: cutSet(head),
							Summaries: map[string]Summary{
								"invoke:RegDef": func(r *Run, cc *ssa.CallCommon, args []Val) (Val, error) { return boolConst(regdef), nil },
								"*.Reduce":      func(r *Run, cc *ssa.CallCommon, args []Val) (Val, error) { return boolConst(reduce), nil },
								"*.StringLitTokDef": func(r *Run, cc *ssa.CallCommon, args []Val) (Val, error) {
									id := render(args[1])
									isLit := false
									if strings.HasPrefix(id, "CUR") {
										isLit = cur == "strlit"
									} else {
										isLit = cand.strlit
									}
									if isLit {
										o := r.NewObj("tokdef("+id+")", false)
										return VPtr{o, ""}, nil
									}
									return VConst{}, nil
								},
							},
						}
						reg.Prepare = func(r *Run) {
							if cur != "none" {
								curV = VPtr{r.NewObj("CUR", false), ""}
							}
							reg.PhiInputs = map[string]Val{"actionItem": curV, "rangeindex": VSym{Name: "i"}}
						}
						ci, ki := int64(5), int64(5)
						switch ord {
						case "<":
							ki = 2
						case ">":
							ki = 9
						}
						w := &MapWorld{Ints: map[string]int64{"i": 1, "len(this.Items)": 7, "CUR.ProdIndex": ci, "*this.Items[i+1].ProdIndex": ki}}
						out := InterpretSafe(reg, w)
						n++
						// expected: maximum under  string literal > lower index > higher index
						considered := !regdef && reduce
						wantCand, wantCur := false, true
						if considered {
							switch {
							case cur == "none":
								wantCand, wantCur = true, false
							case cand.strlit && cur == "strlit":
								wantCand, wantCur = true, true // either
							case cand.strlit:
								wantCand, wantCur = true, false
							case cur == "strlit":
							case ord == "<":
								wantCand, wantCur = true, false
							case ord == "=":
								wantCand, wantCur = true, true
							}
						}
						got := out.NextPhi["actionItem"]
						isCand := got == "&*this.Items[i+1]"
						isCur := got == render(curV)
						ok := strings.HasPrefix(out.Term, "cut:") && len(out.Events) == 0 && ((isCand && wantCand) || (isCur && wantCur))
						if !ok {
							bad++
							if first == "" {
								first = fmt.Sprintf("current=%s candidate=%s index order %s RegDef=%v Reduce=%v: code keeps %q (%s %s)", cur, cand.name, ord, regdef, reduce, got, out.Term, out.Undecided)
							}
						}
					}
				}
			}
		}
	}
	c.Ob(rule, "lexer ItemSet.Action: choice among completed patterns", bad == 0, fmt.Sprintf("%d worlds (current best x candidate kind x order of declaration indices x regular definition x complete); %d disagree with: only complete items of token / ignored-token definitions count; the kept item is the maximum under 'syntax-part string literal > lower declaration index > higher'. %s", n, bad, first), p.FnPos(fn))
	// result mapping
	for _, wd := range []struct{ ty, want string }{{"LexTokDef", "items.Accept(CUR.Id)"}, {"LexIgnoredTokDef", "items.Ignore(CUR.Id)"}, {"LexRegDef", "nil"}, {"", "nil"}} {
		var curV Val = VConst{}
		reg := &Region{Fn: fn, Start: head, Cuts: cutSet(head)}
		reg.Prepare = func(r *Run) {
			if wd.ty != "" {
				curV = VPtr{r.NewObj("CUR", false), ""}
			}
			reg.PhiInputs = map[string]Val{"actionItem": curV, "rangeindex": VSym{Name: "i"}}
		}
		reg.Lazy = func(o *Obj, path string, t types.Type) Val {
			if o.Name == "CUR" && path == ".Prod" {
				T := astType(p, wd.ty)
				po := newObj("prod", false)
				return VIface{Dyn: types.NewPointer(T), V: VPtr{po, ""}}
			}
			return nil
		}
		out := InterpretSafe(reg, &MapWorld{Ints: map[string]int64{"i": 6, "len(this.Items)": 7}})
		got := strings.Join(out.Results, ",")
		name := wd.ty
		if name == "" {
			name = "no completed pattern"
		}
		c.Ob(rule, "lexer ItemSet.Action: result for "+name, out.Term == "return" && got == wd.want, fmt.Sprintf("result %s %s; required %s (token definition -> Accept(id), ignored token -> Ignore(id), otherwise no action)", got, out.Undecided, wd.want), p.FnPos(fn))
	}
}

// ---- R01.3: action-table sentinels -----------------------------------------------------

func checkActTabWriter(c *Ctx, p *Prog, rule string) {
	fn := p.Func(lexGenPkg, "getActTab")
	if fn == nil {
		c.Undecided(rule, "getActTab", "function not found")
		return
	}
	hs := loopHeaders(fn)
	if len(hs) != 1 {
		c.Undecided(rule, "getActTab", "expected one loop")
		return
	}
	itemsT := func(n string) types.Type { return pkgType(p, lexItemsPkg, n) }
	for _, wd := range []struct {
		kind string
		want map[string]string
	}{
		{"Accept", map[string]string{"Accept": "tokMap.IdMap[ID]", "Ignore": `""`}},
		{"Ignore", map[string]string{"Accept": "-1", "Ignore": "ID"}},
		{"nil", map[string]string{}},
	} {
		var act Val = VIface{}
		if wd.kind != "nil" {
			act = VIface{Dyn: itemsT(wd.kind), V: VOpq{"ID"}}
		}
		reg := &Region{Fn: fn, Start: hs[0], Cuts: cutSet(hs[0]), PhiInputs: map[string]Val{"rangeindex": VSym{Name: "s"}},
			Summaries: map[string]Summary{
				"*.Action":  func(r *Run, cc *ssa.CallCommon, args []Val) (Val, error) { return act, nil },
				"*.Size":    func(r *Run, cc *ssa.CallCommon, args []Val) (Val, error) { return VSym{Name: "SIZE"}, nil },
				"*.List":    func(r *Run, cc *ssa.CallCommon, args []Val) (Val, error) { return VOpq{"SETS"}, nil },
				"path.Join": JoinSummary,
			},
			PreWorld: &MapWorld{Ints: map[string]int64{"SIZE": 3, "len(SETS)": 3}},
		}
		out := InterpretSafe(reg, &MapWorld{Ints: map[string]int64{"s": 0, "len(SETS)": 3}})
		st := map[string]string{}
		for k, v := range out.Stores {
			if i := strings.LastIndex(k, "]."); i >= 0 && strings.Contains(k, "[s+1]") {
				st[k[i+2:]] = v
			}
		}
		ok := strings.HasPrefix(out.Term, "cut:") && mapDiff(st, wd.want) == ""
		c.Ob(rule, "getActTab: state action "+wd.kind, ok, fmt.Sprintf("stores for state s+1: %v %s; required %v (accepting state: the token's number and no ignore id; ignore state: Accept = -1 and the id; otherwise the zero row, i.e. Accept = 0 = INVALID)", st, out.Undecided, wd.want), p.FnPos(fn))
	}
	// INVALID = 0, EOF = 1 in the generated token package
	tk := p.Pkg(gmRoot + "/token")
	if tk == nil {
		c.Undecided(rule, "token constants", "model package missing")
		return
	}
	for _, kv := range []struct {
		n string
		v int64
	}{{"INVALID", 0}, {"EOF", 1}} {
		o, _ := tk.Types.Scope().Lookup(kv.n).(*types.Const)
		ok := o != nil && o.Val().Kind() == constant.Int
		if ok {
			n, _ := constant.Int64Val(o.Val())
			ok = n == kv.v
		}
		c.Ob(rule, "generated token."+kv.n, ok, fmt.Sprintf("must be %d: the zero value of a lexer action row means INVALID", kv.v))
	}
}

// ---- R01.4: transition table -----------------------------------------------------------

func checkTransTabWriter(c *Ctx, p *Prog, rule string) {
	// rangeTest: the two formats denote r in [From,To]
	rt := p.Func(lexGenPkg, "rangeTest")
	if rt == nil {
		c.Undecided(rule, "rangeTest", "function not found")
	} else {
		for _, single := range []bool{true, false} {
			reg := &Region{Fn: rt, Summaries: map[string]Summary{"fmt.Sprintf": SprintfSummary},
				Params: map[string]Val{"rng": VStruct{Fields: map[string]Val{"From": VSym{Name: "F"}, "To": VSym{Name: "T"}}}}}
			t := int64(9)
			if single {
				t = 5
			}
			out := InterpretSafe(reg, &MapWorld{Ints: map[string]int64{"F": 5, "T": t}})
			want := `Sprintf("%d <= r && r <= %d"|rune(F)|rune(T))`
			if single {
				want = `Sprintf("r == %d"|rune(F))`
			}
			got := strings.Join(out.Results, ",")
			c.Ob(rule, fmt.Sprintf("rangeTest: single rune=%v", single), out.Term == "return" && got == want, fmt.Sprintf("test text %s %s; required %s", got, out.Undecided, want), p.FnPos(rt))
		}
	}
	// writer: one case per class in order, State = Transitions[i], default iff MatchAny
	fn := p.Func(lexGenPkg, "getTransitionTableData")
	if fn == nil {
		c.Undecided(rule, "getTransitionTableData", "function not found")
		return
	}
	hs := loopHeaders(fn)
	if len(hs) < 2 {
		c.Undecided(rule, "getTransitionTableData", "expected nested loops")
		return
	}
	sm := func() map[string]Summary {
		return map[string]Summary{
			"*.Size": func(r *Run, cc *ssa.CallCommon, args []Val) (Val, error) { return VSym{Name: "SIZE"}, nil },
			"*.List": func(r *Run, cc *ssa.CallCommon, args []Val) (Val, error) {
				return VOpq{"L(" + render(args[0]) + ")"}, nil
			},
			"*.String":    pureSummary("String"),
			"*.rangeTest": pureSummary("rangeTest"),
		}
	}
	// outer loop body up to the inner loop: MatchAny / MatchAnyState
	for _, any := range []bool{true, false} {
		reg := &Region{Fn: fn, Start: hs[0], Cuts: cutSet(hs...), PhiInputs: map[string]Val{"rangeindex": VSym{Name: "s"}}, Summaries: sm(),
			PreWorld: &MapWorld{Ints: map[string]int64{"SIZE": 3}}}
		w := &MapWorld{Ints: map[string]int64{"s": 0, "len(L(&itemsets))": 3}, AtomFn: func(key string) (bool, bool) {
			if strings.HasSuffix(key, ".MatchAny") {
				return any, true
			}
			return false, false
		}}
		out := InterpretSafe(reg, w)
		st := map[string]string{}
		for k, v := range out.Stores {
			if i := strings.LastIndex(k, "[s+1]."); i >= 0 {
				st[k[i+6:]] = v
			}
		}
		want := map[string]string{"MatchAnyState": "-1"}
		if any {
			want = map[string]string{"MatchAny": "true", "MatchAnyState": "*L(&itemsets)[s+1].DotTransition"}
		}
		okk := true
		for k, v := range want {
			if st[k] != v {
				okk = false
			}
		}
		c.Ob(rule, fmt.Sprintf("getTransitionTableData: state with '.'=%v", any), out.Term != "undecided" && okk, fmt.Sprintf("stores %v %s; required %v (default arm iff the state has a '.' item, going to its dot transition)", st, out.Undecided, want), p.FnPos(fn))
	}
	// inner loop body
	{
		reg := &Region{Fn: fn, Start: hs[1], Cuts: cutSet(hs...), PhiInputs: map[string]Val{"rangeindex": VSym{Name: "k"}}, Summaries: sm(),
			PreWorld: &MapWorld{Ints: map[string]int64{"SIZE": 3, "len(L(&itemsets))": 3}, IntFn: func(n string) (int64, bool) { return 2, strings.Contains(n, "SymbolClasses") },
				AtomFn: func(key string) (bool, bool) { return false, strings.HasSuffix(key, ".MatchAny") }}}
		w := &MapWorld{Ints: map[string]int64{"k": 0}, IntFn: func(n string) (int64, bool) { return 4, strings.Contains(n, "SymbolClasses") }}
		out := InterpretSafe(reg, w)
		st := map[string]string{}
		for k, v := range out.Stores {
			if i := strings.LastIndex(k, "[k+1]."); i >= 0 {
				st[k[i+6:]] = v
			}
		}
		ok := out.Term != "undecided" && strings.HasSuffix(st["State"], ".Transitions[k+1]") && strings.HasPrefix(st["Test"], "rangeTest(") && strings.Contains(st["Test"], "[k+1]")
		c.Ob(rule, "getTransitionTableData: class k+1", ok, fmt.Sprintf("stores %v %s; required: case k+1 tests class k+1 of the state's class list and goes to Transitions[k+1]", st, out.Undecided), p.FnPos(fn))
	}
	// template: the instantiated transition functions implement the model rows
	for _, d := range gmLexerDirs {
		sp := p.SSAPkg(gmRoot + "/" + d)
		if sp == nil {
			continue
		}
		init := sp.Func("init")
		var fns []*ssa.Function
		if init != nil {
			fns = append(fns, init.AnonFuncs...)
		}
		var tfs []*ssa.Function
		for _, f := range fns {
			if f.Signature.Params().Len() == 1 && f.Signature.Results().Len() == 1 {
				tfs = append(tfs, f)
			}
		}
		if len(tfs) != 3 {
			c.Undecided(rule, d+" TransTab", fmt.Sprintf("expected 3 transition functions in the model, found %d", len(tfs)))
			continue
		}
		// model rows (gm.go): s0: 'a'->1, ' '->2, no default; s1: '0'-'9'->1, default 0; s2: nothing
		expect := func(state int, r int64) int64 {
			switch state {
			case 0:
				if r == 97 {
					return 1
				}
				if r == 32 {
					return 2
				}
				return -1
			case 1:
				if 48 <= r && r <= 57 {
					return 1
				}
				return 0
			}
			return -1
		}
		nb := 0
		firstBad := ""
		nprobe := 0
		for si, f := range tfs {
			for _, r := range []int64{97, 32, 48, 50, 57, 58, 47, 0, 98, 0x10FFFF} {
				reg := &Region{Fn: f, Params: map[string]Val{f.Params[0].Name(): VSym{Name: "r"}}}
				out := InterpretSafe(reg, &MapWorld{Ints: map[string]int64{"r": r}})
				nprobe++
				want := fmt.Sprint(expect(si, r))
				if out.Term != "return" || len(out.Results) != 1 || out.Results[0] != want {
					nb++
					if firstBad == "" {
						firstBad = fmt.Sprintf("state %d on rune %d: %s %v %s, model row requires %s", si, r, out.Term, out.Results, out.Undecided, want)
					}
				}
			}
		}
		c.Ob(rule, d+": transition-table template", nb == 0, fmt.Sprintf("%d (state, rune class) worlds of the instantiated TransTab functions; %d differ from the model rows (first matching class in order; default arm only with '.'; otherwise NoState = -1). %s", nprobe, nb, firstBad))
	}
}

// ---- MoveDot -----------------------------------------------------------------------------

func checkMoveDot(c *Ctx, p *Prog, rule string) {
	fn := p.Func(lexItemsPkg, "*Item.MoveDot")
	if fn == nil {
		c.Undecided(rule, "Item.MoveDot", "function not found")
		return
	}
	dotT := astType(p, "LexDot")
	for _, isDot := range []bool{true, false} {
		moved := false
		reg := &Region{Fn: fn, Summaries: map[string]Summary{
			"*.ExpectedSymbol": func(r *Run, cc *ssa.CallCommon, args []Val) (Val, error) {
				if isDot {
					return VIface{Dyn: types.NewPointer(dotT), V: r.GlobalLoad("LexDOT", types.NewPointer(dotT))}, nil
				}
				o := r.NewObj("lit", false)
				return VIface{Dyn: types.NewPointer(astType(p, "LexCharLit")), V: VPtr{o, ""}}, nil
			},
			"*.Clone": func(r *Run, cc *ssa.CallCommon, args []Val) (Val, error) {
				moved = true
				o := r.NewObj("clone", false)
				return VPtr{o, ""}, nil
			},
			"*.inc":        func(r *Run, cc *ssa.CallCommon, args []Val) (Val, error) { return VTuple{}, nil },
			"*.getHashKey": func(r *Run, cc *ssa.CallCommon, args []Val) (Val, error) { return VTuple{}, nil },
			"*.Emoves":     pureSummary("Emoves"),
		}}
		out := InterpretSafe(reg, &MapWorld{})
		ok := out.Term == "return" && moved == isDot
		if !isDot {
			ok = ok && len(out.Results) == 1 && out.Results[0] == "nil"
		}
		c.Ob(rule, fmt.Sprintf("Item.MoveDot: expected symbol is '.'=%v", isDot), ok, fmt.Sprintf("term=%s results=%v moved=%v %s; required: the dot moves iff the expected symbol is the '.' terminal", out.Term, out.Results, moved, out.Undecided), p.FnPos(fn))
	}
}

func runC01(c *Ctx) {
	p := c.RepoProg()
	if !gmHealth(c, p, "R01.0") {
		return
	}
	checkLexPriority(c, p, "R01.1")
	K := 1
	checkItemMatch(c, p, "R01.2", K, func(bool) {})
	checkMoveDot(c, p, "R01.2")
	checkActTabWriter(c, p, "R01.3")
	checkTransTabWriter(c, p, "R01.4")
	for _, d := range gmLexerDirs {
		checkScanTable(c, p, d, "R01.5")
	}
	checkLexSubsetSteps(c, p, "R01.6")
	checkLexListClosure(c, p, "R01.7")
	checkLexDependents(c, p, "R01.6")
	checkLexEmoves(c, p, "R01.8")
	// the rune classes of a state are an exact disjoint partition of what its items expect: the C18 argument
	r18prefix = "R01.9"
	rangeSetProof(c, p, 2)
	r18prefix = "R18"
	c.Assumptions = append(c.Assumptions,
		"NOT decided: that the DFA is the subset construction of the patterns (Closure, Next, Emoves, dependentsClosure, set identity are graph algorithms over unbounded item sets) — regular-definition sharing, epsilon moves and state identity are outside this check",
		"rune classes are an exact partition (C18)")
	c.Trusted = append(c.Trusted, "go/ssa", "checker/sx.go", "the generated model")
	c.Explanation = "C01, partial: decided are the loop-free decisions around the lexer automaton. R01.1: among completed patterns a state's action is the maximum under 'syntax-part string literal > earlier declaration > later', regular definitions never accept, token -> Accept, ignored token -> Ignore. R01.2: an item moves on a rune class iff the class lies inside its literal/range; '.' never moves on a listed class and moves only on the default arm. R01.3: the action-table writer stores the token number / -1 + ignore id / the zero row (INVALID = 0), which is what Scan tests. R01.4: one case per class in order with the class's transition, default arm iff the state has a '.', NoState otherwise; the instantiated transition functions implement the model rows. R01.5: the generated Scan loop (plain and debug) in every world: reads while the automaton is live, the last live state's verdict decides, ignored lexemes restart the scan with a fresh verdict, unmatched text becomes one INVALID token including the killing rune, end of input is sticky. NOT decided: the subset construction itself."
}
