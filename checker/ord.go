package main

// E3 — orderings with gaps: every total preorder of a few integer symbols,
// refined by the size class of the gap between neighbouring classes. By the
// small-model property of difference constraints this decides every
// comparison between terms sym±k with |k| <= K exactly.

import "sort"

type ordConstraint struct {
	A, B   string
	Strict bool // A < B, else A <= B
}

// weakOrders enumerates all ordered set partitions of syms.
func weakOrders(syms []string, yield func(classes [][]string)) {
	var rec func(i int, classes [][]string)
	rec = func(i int, classes [][]string) {
		if i == len(syms) {
			yield(classes)
			return
		}
		s := syms[i]
		// join an existing class
		for k := range classes {
			cp := make([][]string, len(classes))
			for j := range classes {
				cp[j] = append([]string{}, classes[j]...)
			}
			cp[k] = append(cp[k], s)
			rec(i+1, cp)
		}
		// new class at any position
		for k := 0; k <= len(classes); k++ {
			cp := make([][]string, 0, len(classes)+1)
			for j := 0; j < k; j++ {
				cp = append(cp, append([]string{}, classes[j]...))
			}
			cp = append(cp, []string{s})
			for j := k; j < len(classes); j++ {
				cp = append(cp, append([]string{}, classes[j]...))
			}
			rec(i+1, cp)
		}
	}
	rec(0, nil)
}

// orderWorlds enumerates representative integer assignments.
func orderWorlds(syms []string, cons []ordConstraint, K int, yield func(vals map[string]int64, desc string)) int {
	n := 0
	weakOrders(syms, func(classes [][]string) {
		rank := map[string]int{}
		for i, c := range classes {
			for _, s := range c {
				rank[s] = i
			}
		}
		for _, c := range cons {
			ra, oka := rank[c.A]
			rb, okb := rank[c.B]
			if !oka || !okb {
				continue
			}
			if c.Strict && !(ra < rb) {
				return
			}
			if !c.Strict && !(ra <= rb) {
				return
			}
		}
		gaps := make([]int, len(classes))
		var rec func(i int)
		rec = func(i int) {
			if i >= len(classes) {
				vals := map[string]int64{}
				v := int64(1000)
				desc := ""
				for ci, c := range classes {
					if ci > 0 {
						v += int64(gaps[ci])
						g := gaps[ci]
						if g > K {
							desc += " <<"
						} else {
							desc += " <" + string(rune('0'+g))
						}
						desc += " "
					}
					cc := append([]string{}, c...)
					sort.Strings(cc)
					for si, s := range cc {
						vals[s] = v
						if si > 0 {
							desc += "="
						}
						desc += s
					}
				}
				n++
				yield(vals, desc)
				return
			}
			for g := 1; g <= K+1; g++ {
				gaps[i] = g
				rec(i + 1)
			}
		}
		if len(classes) <= 1 {
			rec(len(classes))
		} else {
			rec(1)
		}
	})
	return n
}
