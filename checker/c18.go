package main

import (
	"fmt"
	"go/types"
	"regexp"
	"sort"
	"strconv"
	"strings"

	"golang.org/x/tools/go/ssa"
)

func init() { register("C18", "proof", runC18) }

const lexItemsPkg = "internal/lexer/items"

type ivl struct{ lo, hi int64 }

var winKeyRe = regexp.MustCompile(`^\[i(?:([+-])(\d+))?\]\.(From|To)$`)

// windowOf reads the slice cells around index i as a list of intervals.
func windowOf(o *Obj, w *MapWorld) ([]ivl, []string, error) {
	type cell struct{ from, to Val }
	cells := map[int]*cell{}
	for k, v := range o.cells {
		m := winKeyRe.FindStringSubmatch(k)
		if m == nil {
			return nil, nil, fmt.Errorf("access to the slice outside the window model: %s", k)
		}
		off := 0
		if m[2] != "" {
			off, _ = strconv.Atoi(m[2])
			if m[1] == "-" {
				off = -off
			}
		}
		c := cells[off]
		if c == nil {
			c = &cell{}
			cells[off] = c
		}
		if m[3] == "From" {
			c.from = v
		} else {
			c.to = v
		}
	}
	var out []ivl
	var sym []string
	for k := 0; k < len(cells); k++ {
		c, ok := cells[k]
		if !ok || c.from == nil || c.to == nil {
			return nil, nil, fmt.Errorf("window has a hole at offset %d", k)
		}
		lo, ok1 := w.intOf(c.from)
		hi, ok2 := w.intOf(c.to)
		if !ok1 || !ok2 {
			return nil, nil, fmt.Errorf("window entry %d is not a term over the boundary symbols: [%s,%s]", k, render(c.from), render(c.to))
		}
		out = append(out, ivl{lo, hi})
		sym = append(sym, "["+render(c.from)+","+render(c.to)+"]")
	}
	return out, sym, nil
}

// insertAt implements the specification of insertRange on the window model.
func insertAt(o *Obj, at int, from, to Val) {
	max := -1
	for k := range o.cells {
		if m := winKeyRe.FindStringSubmatch(k); m != nil {
			off := 0
			if m[2] != "" {
				off, _ = strconv.Atoi(m[2])
				if m[1] == "-" {
					off = -off
				}
			}
			if off > max {
				max = off
			}
		}
	}
	key := func(off int, f string) string {
		switch {
		case off == 0:
			return "[i]." + f
		case off > 0:
			return fmt.Sprintf("[i+%d].%s", off, f)
		}
		return fmt.Sprintf("[i-%d].%s", -off, f)
	}
	for k := max; k >= at; k-- {
		for _, f := range []string{"From", "To"} {
			if v, ok := o.cells[key(k, f)]; ok {
				o.cells[key(k+1, f)] = v
				delete(o.cells, key(k, f))
			}
		}
	}
	o.cells[key(at, "From")] = from
	o.cells[key(at, "To")] = to
}

func inIvl(x int64, v ivl) bool { return v.lo <= x && x <= v.hi }

// r18 names the rules of the range-set argument; C01 runs the same argument under its own rule id.
var r18prefix = "R18"

func r18(n string) string { return r18prefix + "." + n }

func runC18(c *Ctx) {
	p := c.RepoProg()
	K := 3
	if c.Tier == "thorough" {
		K = 5
	}
	totalOb, totalOK, nWorlds := rangeSetProof(c, p, K)
	if totalOb == 0 {
		return
	}
	c.Extra["obligations"] = totalOb
	c.Extra["discharged"] = totalOK
	c.Extra["worlds"] = nWorlds
	c.Extra["gap_bound_K"] = K
	c.Trusted = append(c.Trusted, "go/ssa construction of AddRange, insertRange, AddLexTNode, Item.match",
		"the abstract interpreter (checker/sx.go) and the window model of the slice",
		"small-model property of difference constraints: comparisons between boundary±k with |k|<=K are decided by orderings with gap classes 1..K,>K",
		"rune values fit in int32 with to+1 not overflowing (<= 0x10FFFF)")
	c.Assumptions = append(c.Assumptions, "the set satisfies the invariant (sorted, disjoint, non-empty classes, all classes before index i end before `from`) when an iteration starts — established by induction: NewDisjunctRangeSet creates the empty set, every iteration preserves it (R18.1)")
	c.Explanation = "Proof by loop invariant, discharged mechanically: INV(i,from,to) = the set is sorted, pairwise disjoint, non-empty; classes before i end before `from`; (set ∪ [from,to]) is unchanged; every old class and the consumed part of the new range is a union of classes. One iteration of AddRange's loop is interpreted abstractly (slice modelled as a window around index i with the three mutators store-element, store-.To, insertRange) in every ordering-with-gaps of the four boundaries from,to,class.From,class.To; in every world obligations O1-O4 must hold for the resulting window, and the loop may carry only from and i (O5). Initialisation, exit (append of the remainder iff from<=to), insertRange = insert-at, the AddLexTNode dispatch and Item.match = 'class ⊆ item range' complete the argument. Not covered: nothing of the property's statement; the argument is about the code, given go/ssa and the interpreter."
}

// rangeSetProof discharges the loop-invariant argument for DisjunctRangeSet (see the explanation of C18).
func rangeSetProof(c *Ctx, p *Prog, K int) (totalOb, totalOK, nWorlds int) {
	fn := p.Func(lexItemsPkg, "*DisjunctRangeSet.AddRange")
	if fn == nil {
		c.Undecided(r18("1"), "AddRange", "function not found")
		return
	}
	hs := loopHeaders(fn)
	if len(hs) != 1 {
		c.Undecided(r18("1"), "AddRange", fmt.Sprintf("expected exactly one loop, found %d", len(hs)))
		return
	}
	head := hs[0]
	// O5: the loop carries exactly from and i
	carried := []string{}
	for _, in := range head.Instrs {
		if phi, ok := in.(*ssa.Phi); ok {
			carried = append(carried, phi.Comment)
		}
	}
	sort.Strings(carried)
	count := func(ok bool) {
		totalOb++
		if ok {
			totalOK++
		}
	}
	c.Ob(r18("1"), "AddRange: loop-carried variables", strings.Join(carried, ",") == "from,i", "loop carries "+strings.Join(carried, ",")+" (O5: `to` is never assigned; the set is only changed through the three mutators)", p.FnPos(fn))
	count(strings.Join(carried, ",") == "from,i")

	// ---- one iteration, all orderings of the four boundaries ----
	type failure struct{ world, what string }
	var fails []failure
	var undec []failure
	sigs := map[string]int{}
	cons := []ordConstraint{{"F", "TO", false}, {"A", "BT", false}}
	orderWorlds([]string{"F", "TO", "A", "BT"}, cons, K, func(vals map[string]int64, desc string) {
		nWorlds++
		ints := map[string]int64{"i": 10, "len(this.set)": 20}
		for k, v := range vals {
			ints[k] = v
		}
		w := &MapWorld{Ints: ints}
		var setObj *Obj
		reg := &Region{
			Fn:        fn,
			Start:     head,
			Cuts:      cutSet(head),
			PhiInputs: map[string]Val{"from": VSym{Name: "F"}, "i": VSym{Name: "i"}},
			Params:    map[string]Val{"to": VSym{Name: "TO"}, "from": VSym{Name: "F0"}},
			Lazy: func(o *Obj, path string, t types.Type) Val {
				if o.Name == "this.set" {
					switch path {
					case "[i].From":
						return VSym{Name: "A"}
					case "[i].To":
						return VSym{Name: "BT"}
					}
				}
				return nil
			},
			Summaries: map[string]Summary{
				"*.insertRange": func(r *Run, cc *ssa.CallCommon, args []Val) (Val, error) {
					at, ok := args[1].(VSym)
					if !ok || at.Name != "i" {
						return nil, fmt.Errorf("insertRange at %s: not an offset from i", render(args[1]))
					}
					o := r.sliceObj("this.set")
					insertAt(o, int(at.Off), args[2], args[3])
					r.Event("insertRange(i+%d,%s,%s)", at.Off, render(args[2]), render(args[3]))
					setObj = o
					return VTuple{}, nil
				},
			},
		}
		out := InterpretSafe(reg, w)
		if out.Term == "undecided" {
			undec = append(undec, failure{desc, out.Undecided})
			return
		}
		if out.Term != "cut:"+head.Comment {
			fails = append(fails, failure{desc, "iteration ends with " + out.Term})
			return
		}
		// read back the window
		var run *Obj = setObj
		_ = run
		o := findObj(reg, out, "this.set")
		if o == nil {
			undec = append(undec, failure{desc, "slice object not found"})
			return
		}
		win, sym, err := windowOf(o, w)
		if err != nil {
			undec = append(undec, failure{desc, err.Error()})
			return
		}
		F, TO, A, BT := vals["F"], vals["TO"], vals["A"], vals["BT"]
		bad := func(what string) {
			fails = append(fails, failure{desc, what + fmt.Sprintf(" — window %v, from'=%s, i'=%s, events %v", sym, out.NextPhi["from"], out.NextPhi["i"], out.Events)})
		}
		evs := strings.Join(out.Events, ";")
		evs = strings.ReplaceAll(evs, "store ", "")
		sigs[fmt.Sprintf("path %v: %s", out.Path, evs)]++
		// O1: non-empty, strictly increasing, disjoint, inside [min(F,A), BT]
		o1 := true
		lo := F
		if A < lo {
			lo = A
		}
		for k, v := range win {
			if v.lo > v.hi || v.lo < lo || v.hi > BT {
				o1 = false
			}
			if k > 0 && !(win[k-1].hi < v.lo) {
				o1 = false
			}
		}
		count(o1)
		if !o1 {
			bad("O1 (pieces non-empty, sorted, disjoint, within the window)")
		}
		// O2: union = [A,BT] ∪ ([F,TO] ∩ (-inf,BT])
		o2 := true
		member := func(x int64) bool {
			for _, v := range win {
				if inIvl(x, v) {
					return true
				}
			}
			return false
		}
		pts := []int64{}
		for _, b := range []int64{F, TO, A, BT} {
			for d := int64(-2); d <= 2; d++ {
				pts = append(pts, b+d)
			}
		}
		for _, v := range win {
			pts = append(pts, v.lo-1, v.lo, v.hi, v.hi+1)
		}
		for _, x := range pts {
			want := inIvl(x, ivl{A, BT}) || (inIvl(x, ivl{F, TO}) && x <= BT)
			if member(x) != want {
				o2 = false
			}
		}
		count(o2)
		if !o2 {
			bad("O2 (union of the pieces = old class ∪ the part of the new range up to its end)")
		}
		// O3: no piece straddles a boundary of the old class or of the new range
		o3 := true
		for _, v := range win {
			inOld := v.lo >= A && v.hi <= BT
			outOld := v.hi < A || v.lo > BT
			inNew := v.lo >= F && v.hi <= TO
			outNew := v.hi < F || v.lo > TO
			if !(inOld || outOld) || !(inNew || outNew) {
				o3 = false
			}
		}
		count(o3)
		if !o3 {
			bad("O3 (every piece lies wholly inside or outside the old class and the new range)")
		}
		// O4: i advances by the window length; rest of the new range is [max(F,BT+1), TO]
		wantI := "i"
		if len(win) > 0 {
			wantI = fmt.Sprintf("i+%d", len(win))
		}
		wantFrom := BT + 1
		if F > wantFrom {
			wantFrom = F
		}
		gotFrom, okf := w.intOf(parseSymTerm(out.NextPhi["from"]))
		o4 := out.NextPhi["i"] == wantI && okf && gotFrom == wantFrom
		for _, v := range win {
			if okf && !(v.hi < gotFrom) {
				o4 = false
			}
		}
		count(o4)
		if !o4 {
			bad(fmt.Sprintf("O4 (i' = i+%d, from' = max(from, class end+1) = %d)", len(win), wantFrom))
		}
	})
	for i, f := range undec {
		if i < 5 {
			c.Undecided(r18("1"), "AddRange iteration in world "+f.world, f.what, p.FnPos(fn))
		}
	}
	for i, f := range fails {
		if i < 8 {
			c.Ob(r18("1"), "AddRange iteration in world "+f.world, false, f.what, p.FnPos(fn))
		}
	}
	totalOb += len(undec)
	c.Ob(r18("1"), "AddRange: one iteration preserves the invariant", len(fails) == 0 && len(undec) == 0,
		fmt.Sprintf("%d worlds (orderings of from,to,class.From,class.To with gaps 1..%d,>%d); %d distinct effect signatures (leaf cases); %d failed obligations, %d undecided worlds", nWorlds, K, K, len(sigs), len(fails), len(undec)), p.FnPos(fn))
	if len(sigs) < 11 {
		c.Undecided(r18("1"), "vacuity", fmt.Sprintf("only %d distinct leaf cases exercised, the code has 11", len(sigs)))
	}
	sk := make([]string, 0, len(sigs))
	for s := range sigs {
		sk = append(sk, s)
	}
	sort.Strings(sk)
	for _, s := range sk {
		c.Sample(map[string]any{"rule": r18("1"), "leaf_case_effects": s, "worlds": sigs[s]})
	}

	// ---- initialisation and exit ----
	checkAddRangeEnds(c, p, fn, head, count)
	// ---- insertRange is "insert at" ----
	checkInsertRange(c, p, count)
	// ---- what is fed to AddRange ----
	checkAddLexTNode(c, p, count)
	// ---- R18.4 / R01.2: an item moves on a class iff the class lies inside its range ----
	checkItemMatch(c, p, r18("4"), K, count)

	return totalOb, totalOK, nWorlds
}

// parseSymTerm turns a rendered "NAME", "NAME+k" or "NAME-k" back into a value.
func parseSymTerm(s string) Val {
	m := regexp.MustCompile(`^([A-Za-z_][A-Za-z0-9_.()\[\]]*)([+-]\d+)?$`).FindStringSubmatch(s)
	if m == nil {
		if n, err := strconv.ParseInt(s, 10, 64); err == nil {
			return intConst(n)
		}
		return VOpq{s}
	}
	off := int64(0)
	if m[2] != "" {
		off, _ = strconv.ParseInt(m[2], 10, 64)
	}
	return VSym{m[1], off}
}

func findObj(reg *Region, out *Outcome, name string) *Obj {
	return reg.lastObjs[name]
}

func checkAddRangeEnds(c *Ctx, p *Prog, fn *ssa.Function, head *ssa.BasicBlock, count func(bool)) {
	// initialisation: from the entry the loop is reached with i = 0 and from = the parameter
	reg := &Region{Fn: fn, Cuts: cutSet(head), Params: map[string]Val{"from": VSym{Name: "F"}, "to": VSym{Name: "TO"}}}
	out := InterpretSafe(reg, &MapWorld{})
	ok := out.Term == "cut:"+head.Comment && out.NextPhi["i"] == "0" && out.NextPhi["from"] == "F" && len(out.Events) == 0
	count(ok)
	c.Ob(r18("1"), "AddRange: initialisation", ok, fmt.Sprintf("entry reaches the loop with i=%s from=%s, events %v (required: i=0, from unchanged, no effect)", out.NextPhi["i"], out.NextPhi["from"], out.Events), p.FnPos(fn))
	// exit
	for _, wd := range []struct {
		name       string
		i, n, f, t int64
		appendWant bool
	}{
		{"i=len, from<=to", 20, 20, 5, 9, true},
		{"i=len, from=to", 20, 20, 5, 5, true},
		{"i=len, from>to", 20, 20, 9, 5, false},
		{"i<len, from>to", 10, 20, 9, 5, false},
		{"i=len=0, from<=to", 0, 0, 5, 9, true},
	} {
		appended := ""
		reg := &Region{
			Fn: fn, Start: head, Cuts: cutSet(head),
			PhiInputs: map[string]Val{"from": VSym{Name: "F"}, "i": VSym{Name: "i"}},
			Params:    map[string]Val{"to": VSym{Name: "TO"}, "from": VSym{Name: "F0"}},
			Summaries: map[string]Summary{
				"builtin:append": func(r *Run, cc *ssa.CallCommon, args []Val) (Val, error) {
					appended = render(args[0]) + " ++ " + r.describeVarargs(args[1])
					r.Event("append %s", appended)
					return VOpq{"appended"}, nil
				},
			},
		}
		w := &MapWorld{Ints: map[string]int64{"i": wd.i, "len(this.set)": wd.n, "F": wd.f, "TO": wd.t}}
		out := InterpretSafe(reg, w)
		ok := out.Term == "return"
		if wd.appendWant {
			ok = ok && strings.Contains(appended, "From:F") && strings.Contains(appended, "To:TO") && out.Stores["this.set"] == "appended"
		} else {
			ok = ok && appended == "" && len(out.Stores) == 0
		}
		count(ok)
		c.Ob(r18("1"), "AddRange: exit, "+wd.name, ok, fmt.Sprintf("term=%s appended=%q stores=%v undecided=%q (required: the remainder [from,to] is appended iff from<=to; valid because by the invariant every class ends before from when i=len)", out.Term, appended, out.Stores, out.Undecided), p.FnPos(fn))
	}
}

// describeVarargs renders the elements of a variadic slice built in place.
func (r *Run) describeVarargs(v Val) string {
	o, ok := v.(VOpq)
	if !ok {
		return render(v)
	}
	// "&local:varargs[:]" -> find the object
	name := strings.TrimSuffix(strings.TrimPrefix(o.Name, "&"), "[:]")
	for _, ob := range r.objs {
		if ob.Name == name {
			keys := make([]string, 0, len(ob.cells))
			for k := range ob.cells {
				keys = append(keys, k)
			}
			sort.Strings(keys)
			parts := []string{}
			for _, k := range keys {
				parts = append(parts, strings.TrimPrefix(k, "[0].")+":"+render(ob.cells[k]))
			}
			return "{" + strings.Join(parts, ",") + "}"
		}
	}
	return o.Name
}

func checkInsertRange(c *Ctx, p *Prog, count func(bool)) {
	fn := p.Func(lexItemsPkg, "*DisjunctRangeSet.insertRange")
	if fn == nil {
		c.Undecided(r18("2"), "insertRange", "function not found")
		return
	}
	for _, wd := range []struct {
		name  string
		at, n int64
	}{{"at<len", 3, 8}, {"at=len", 8, 8}, {"at=0<len", 0, 8}, {"at=len=0", 0, 0}, {"at=len-1", 7, 8}} {
		var evs []string
		reg := &Region{
			Fn:     fn,
			Params: map[string]Val{"at": VSym{Name: "at"}, "from": VSym{Name: "lo"}, "to": VSym{Name: "hi"}},
			Summaries: map[string]Summary{
				"builtin:append": func(r *Run, cc *ssa.CallCommon, args []Val) (Val, error) {
					evs = append(evs, "append("+render(args[0])+","+r.describeVarargs(args[1])+")")
					return VOpq{"S1"}, nil
				},
				"builtin:copy": func(r *Run, cc *ssa.CallCommon, args []Val) (Val, error) {
					evs = append(evs, "copy("+render(args[0])+","+render(args[1])+")")
					return VSym{Name: "copied"}, nil
				},
			},
		}
		w := &MapWorld{Ints: map[string]int64{"at": wd.at, "len(this.set)": wd.n}}
		out := InterpretSafe(reg, w)
		want := []string{"append(this.set,{From:lo,To:hi})"}
		wantStores := map[string]string{"this.set": "S1"}
		if wd.at < wd.n {
			want = append(want, "copy(S1[at+1:],S1[at:len(this.set)])")
			wantStores["S1[at].From"] = "lo"
			wantStores["S1[at].To"] = "hi"
		}
		ok := out.Term == "return" && strings.Join(evs, ";") == strings.Join(want, ";") && fmt.Sprint(out.Stores) == fmt.Sprint(wantStores)
		count(ok)
		c.Ob(r18("2"), "insertRange: "+wd.name, ok, fmt.Sprintf("effects %v stores %v %s; required %v %v (grow by one, shift [at,len) up by one, write the new class at `at`)", evs, out.Stores, out.Undecided, want, wantStores), p.FnPos(fn))
	}
}

func astType(p *Prog, name string) types.Type {
	pk := p.Pkg("internal/ast")
	if pk == nil {
		return nil
	}
	o := pk.Types.Scope().Lookup(name)
	if o == nil {
		return nil
	}
	return o.Type()
}

func checkAddLexTNode(c *Ctx, p *Prog, count func(bool)) {
	fn := p.Func(lexItemsPkg, "*DisjunctRangeSet.AddLexTNode")
	if fn == nil {
		c.Undecided(r18("3"), "AddLexTNode", "function not found")
		return
	}
	for _, wd := range []struct {
		ty   string
		want string
	}{
		{"LexCharRange", "AddRange(*s.From.Val,*s.To.Val)"},
		{"LexCharLit", "AddRange(s.Val,s.Val)"},
		{"LexDot", "store this.MatchAny = true"},
		{"LexRegDefId", ""},
	} {
		T := astType(p, wd.ty)
		if T == nil {
			c.Undecided(r18("3"), "AddLexTNode: "+wd.ty, "type not found")
			continue
		}
		var evs []string
		reg := &Region{Fn: fn, Summaries: map[string]Summary{
			"*.AddRange": func(r *Run, cc *ssa.CallCommon, args []Val) (Val, error) {
				evs = append(evs, "AddRange("+render(args[1])+","+render(args[2])+")")
				return VTuple{}, nil
			},
			"fmt.Sprintf": pureSummary("Sprintf"),
		}}
		reg.Params = map[string]Val{}
		out := Interpret(withRun(reg, func(r *Run) {
			o := r.NewObj("s", false)
			reg.Params["sym"] = VIface{Dyn: types.NewPointer(T), V: VPtr{o, ""}}
		}), &MapWorld{})
		for _, e := range out.Events {
			evs = append(evs, e)
		}
		got := strings.Join(evs, ";")
		ok := out.Term == "return" && got == wd.want
		count(ok)
		c.Ob(r18("3"), "AddLexTNode: "+wd.ty, ok, fmt.Sprintf("term=%s effects=%q %s; required %q", out.Term, got, out.Undecided, wd.want), p.FnPos(fn))
	}
	// any other dynamic type must not be silently accepted
	// getSymbolClasses feeds the expected symbol of every non-reduce item
	gfn := p.Func(lexItemsPkg, "*ItemSet.getSymbolClasses")
	if gfn == nil {
		c.Undecided(r18("3"), "getSymbolClasses", "function not found")
		return
	}
	hs := loopHeaders(gfn)
	if len(hs) != 1 {
		c.Undecided(r18("3"), "getSymbolClasses", "expected one loop")
		return
	}
	for _, reduce := range []bool{false, true} {
		var evs []string
		reg := &Region{Fn: gfn, Start: hs[0], Cuts: cutSet(hs[0]),
			PhiInputs: map[string]Val{"rangeindex": VSym{Name: "i"}},
			Summaries: map[string]Summary{
				"*.Reduce": func(r *Run, cc *ssa.CallCommon, args []Val) (Val, error) {
					return VAtom{Key: "item.Reduce"}, nil
				},
				"*.ExpectedSymbol": func(r *Run, cc *ssa.CallCommon, args []Val) (Val, error) {
					return VOpq{"expected(" + render(args[0]) + ")"}, nil
				},
				"*.AddLexTNode": func(r *Run, cc *ssa.CallCommon, args []Val) (Val, error) {
					evs = append(evs, "AddLexTNode("+render(args[1])+")")
					return VTuple{}, nil
				},
				"*.NewDisjunctRangeSet": func(r *Run, cc *ssa.CallCommon, args []Val) (Val, error) {
					o := r.NewObj("classes", false)
					return VPtr{o, ""}, nil
				},
			},
		}
		w := &MapWorld{Ints: map[string]int64{"i": 2, "len(this.Items)": 9}, Atoms: map[string]bool{"item.Reduce": reduce}}
		out := InterpretSafe(reg, w)
		want := ""
		if !reduce {
			want = "AddLexTNode(expected(&*this.Items[i+1]))"
		}
		got := strings.Join(evs, ";")
		ok := strings.HasPrefix(out.Term, "cut:") && got == want
		count(ok)
		c.Ob(r18("3"), fmt.Sprintf("getSymbolClasses: item.Reduce=%v", reduce), ok, fmt.Sprintf("term=%s effects=%q %s; required %q", out.Term, got, out.Undecided, want), p.FnPos(gfn))
	}
}

func withRun(reg *Region, f func(r *Run)) *Region {
	reg.Prepare = f
	return reg
}

// checkItemMatch (R01.2 / R18.4): Item.match(rng) <=> class rng lies inside the
// expected terminal; dot and regdef ids never match a listed class.
func checkItemMatch(c *Ctx, p *Prog, rule string, K int, count func(bool)) {
	fn := p.Func(lexItemsPkg, "*Item.match")
	if fn == nil {
		c.Undecided(rule, "Item.match", "function not found")
		return
	}
	nW, nBad := 0, 0
	firstBad := ""
	run := func(ty string, vals map[string]int64, desc string) {
		var symV Val
		reg := &Region{Fn: fn, Summaries: map[string]Summary{
			"*.ExpectedSymbol": func(r *Run, cc *ssa.CallCommon, args []Val) (Val, error) {
				return symV, nil
			},
			"fmt.Sprintf": pureSummary("Sprintf"),
		}}
		reg.Params = map[string]Val{"rng": VStruct{Fields: map[string]Val{"From": VSym{Name: "RF"}, "To": VSym{Name: "RT"}}}}
		reg.Prepare = func(r *Run) {
			switch ty {
			case "nil":
				symV = VIface{}
			default:
				o := r.NewObj("t", false)
				symV = VIface{Dyn: types.NewPointer(astType(p, ty)), V: VPtr{o, ""}}
			}
		}
		reg.Lazy = func(o *Obj, path string, t types.Type) Val {
			switch o.Name + path {
			case "t.Val":
				return VSym{Name: "V"}
			case "*t.From.Val":
				return VSym{Name: "TF"}
			case "*t.To.Val":
				return VSym{Name: "TT"}
			}
			return nil
		}
		w := &MapWorld{Ints: vals}
		out := InterpretSafe(reg, w)
		nW++
		want := false
		switch ty {
		case "LexCharLit":
			want = vals["RF"] == vals["V"] && vals["RT"] == vals["V"]
		case "LexCharRange":
			want = vals["TF"] <= vals["RF"] && vals["RT"] <= vals["TT"]
		}
		ok := out.Term == "return" && len(out.Results) == 1 && out.Results[0] == fmt.Sprint(want) && len(out.Events) == 0
		count(ok)
		if !ok {
			nBad++
			if firstBad == "" {
				firstBad = fmt.Sprintf("%s in world %s: got %s %v %s, want %v", ty, desc, out.Term, out.Results, out.Undecided, want)
			}
		}
	}
	run("nil", map[string]int64{"RF": 1, "RT": 2}, "reduce item")
	run("LexDot", map[string]int64{"RF": 1, "RT": 2}, "-")
	run("LexRegDefId", map[string]int64{"RF": 1, "RT": 2}, "-")
	orderWorlds([]string{"RF", "RT", "V"}, []ordConstraint{{"RF", "RT", false}}, 1, func(vals map[string]int64, desc string) {
		run("LexCharLit", vals, desc)
	})
	orderWorlds([]string{"RF", "RT", "TF", "TT"}, []ordConstraint{{"RF", "RT", false}}, 1, func(vals map[string]int64, desc string) {
		run("LexCharRange", vals, desc)
	})
	c.Ob(rule, "Item.match = class ⊆ expected terminal", nBad == 0, fmt.Sprintf("%d worlds (terminal kind x ordering of class and terminal bounds); %d disagree with: dot/regdef/reduce item -> false, literal v -> class=[v,v], range [a,b] -> a<=class.From and class.To<=b. %s", nW, nBad, firstBad), p.FnPos(fn))
	if nW < 50 {
		c.Undecided(rule, "vacuity", "too few worlds")
	}
}
