package main

// R09.9: every loop of the generator (functions reachable from main.main, outside the generated model)
// is of a kind that terminates, by one of a small number of argument templates. A loop of no recognised
// kind is reported as undecided. This decides the "gocc terminates" clause of C09 for the code as it is
// structured today; it says nothing about generated code (Parse, Scan).

import (
	"fmt"
	"go/token"
	"go/types"
	"sort"
	"strings"

	"golang.org/x/tools/go/ssa"
)

type loopInfo struct {
	fn     *ssa.Function
	head   *ssa.BasicBlock
	blocks map[*ssa.BasicBlock]bool
	kind   string
	why    string
}

// rangeLoop: the header is the rangeindex / rangeiter header the compiler generates.
func isRangeHeader(b *ssa.BasicBlock) bool {
	return strings.HasPrefix(b.Comment, "rangeindex.loop") || strings.HasPrefix(b.Comment, "rangeiter.loop") || strings.HasPrefix(b.Comment, "rangeint.loop") || strings.HasPrefix(b.Comment, "rangechan.loop")
}

func listLoops(p *Prog) []*loopInfo {
	var out []*loopInfo
	for _, fn := range sortedFuncs(p.Reach) {
		if fn.Blocks == nil || !p.IsModFn(fn) || strings.Contains(fn.String(), "/internal/zz") {
			continue
		}
		for _, h := range loopHeaders(fn) {
			out = append(out, &loopInfo{fn: fn, head: h, blocks: naturalLoop(h)})
		}
	}
	return out
}

// ---- T1: counted loops ----------------------------------------------------------------------

func constIntOf(v ssa.Value) (int64, bool) {
	c, ok := v.(*ssa.Const)
	if !ok || c.Value == nil {
		return 0, false
	}
	return c.Int64(), true
}

// definedOutside: v does not change while the loop runs.
func definedOutside(l *loopInfo, v ssa.Value) bool {
	switch x := v.(type) {
	case *ssa.Const, *ssa.Parameter, *ssa.Global, *ssa.FreeVar:
		return true
	case *ssa.Call:
		// len(x), cap(x) of an invariant x
		if b, ok := x.Call.Value.(*ssa.Builtin); ok && (b.Name() == "len" || b.Name() == "cap") {
			if !l.blocks[x.Block()] {
				return true
			}
			return definedOutside(l, x.Call.Args[0]) && isValueType(x.Call.Args[0])
		}
	}
	if in, ok := v.(ssa.Instruction); ok {
		return !l.blocks[in.Block()]
	}
	return false
}

// a slice or string SSA value has a fixed length; a pointer to a slice does not
func isValueType(v ssa.Value) bool {
	switch v.Type().Underlying().(type) {
	case *types.Slice, *types.Basic, *types.Array:
		return true
	}
	return false
}

// counted reports whether the loop is "for i := a; i OP bound; i += c" with an invariant bound.
func counted(l *loopInfo) (bool, string) {
	h := l.head
	br, ok := h.Instrs[len(h.Instrs)-1].(*ssa.If)
	if !ok {
		return false, ""
	}
	exitOnFalse := !l.blocks[h.Succs[1]]
	exitOnTrue := !l.blocks[h.Succs[0]]
	if !exitOnFalse && !exitOnTrue {
		return false, ""
	}
	cmp, ok := br.Cond.(*ssa.BinOp)
	if !ok {
		return false, ""
	}
	for _, in := range h.Instrs {
		phi, ok := in.(*ssa.Phi)
		if !ok {
			break
		}
		if !isInt(phi.Type()) {
			continue
		}
		// step: every edge from inside the loop is phi + c with c of one sign
		step := int64(0)
		good := true
		for k, e := range phi.Edges {
			if !l.blocks[h.Preds[k]] {
				continue
			}
			bo, ok := e.(*ssa.BinOp)
			if !ok || (bo.Op != token.ADD && bo.Op != token.SUB) || bo.X != ssa.Value(phi) {
				good = false
				break
			}
			c, ok := constIntOf(bo.Y)
			if !ok || c == 0 {
				good = false
				break
			}
			if bo.Op == token.SUB {
				c = -c
			}
			if step != 0 && (step > 0) != (c > 0) {
				good = false
				break
			}
			step = c
		}
		if !good || step == 0 {
			continue
		}
		// condition: phi OP bound (or bound OP phi), exit when false
		var other ssa.Value
		op := cmp.Op
		switch {
		case cmp.X == ssa.Value(phi):
			other = cmp.Y
		case cmp.Y == ssa.Value(phi):
			other = cmp.X
			switch op {
			case token.LSS:
				op = token.GTR
			case token.LEQ:
				op = token.GEQ
			case token.GTR:
				op = token.LSS
			case token.GEQ:
				op = token.LEQ
			}
		default:
			continue
		}
		if !definedOutside(l, other) {
			continue
		}
		stays := op // the loop goes on while phi `stays` other
		if exitOnTrue && !exitOnFalse {
			switch op {
			case token.LSS:
				stays = token.GEQ
			case token.LEQ:
				stays = token.GTR
			case token.GTR:
				stays = token.LEQ
			case token.GEQ:
				stays = token.LSS
			default:
				continue
			}
		}
		if (step > 0 && (stays == token.LSS || stays == token.LEQ)) || (step < 0 && (stays == token.GTR || stays == token.GEQ)) {
			return true, fmt.Sprintf("counter %s moves by %+d towards the loop-invariant bound %s", phi.Comment, step, other.Name())
		}
	}
	return false, ""
}

// ---- T4: consuming loops ----------------------------------------------------------------------

// consuming: every cycle through the header passes a call to one of the named functions.
func everyCycleCalls(l *loopInfo, names map[string]bool) bool {
	blocked := map[*ssa.BasicBlock]bool{}
	for b := range l.blocks {
		for _, in := range b.Instrs {
			if ci, ok := in.(ssa.CallInstruction); ok {
				if f := ci.Common().StaticCallee(); f != nil && names[f.Name()] {
					blocked[b] = true
				}
			}
		}
	}
	if blocked[l.head] {
		return true
	}
	// can the header reach itself inside the loop avoiding blocked blocks?
	seen := map[*ssa.BasicBlock]bool{}
	var stack []*ssa.BasicBlock
	for _, s := range l.head.Succs {
		if l.blocks[s] {
			stack = append(stack, s)
		}
	}
	for len(stack) > 0 {
		b := stack[len(stack)-1]
		stack = stack[:len(stack)-1]
		if b == l.head {
			return false
		}
		if seen[b] || blocked[b] {
			continue
		}
		seen[b] = true
		for _, s := range b.Succs {
			if l.blocks[s] {
				stack = append(stack, s)
			}
		}
	}
	return true
}

// leavesAtEOF: started at the header with the scanner at end of input (ch = -1, next() changes nothing),
// one round of the loop ends outside it.
func leavesAtEOF(p *Prog, l *loopInfo) (bool, string) {
	fn := l.fn
	if len(fn.Params) == 0 {
		return false, "no receiver"
	}
	recv := fn.Params[0].Name()
	noop := func(r *Run, cc *ssa.CallCommon, args []Val) (Val, error) { return VTuple{}, nil }
	sm := map[string]Summary{"*.next": noop, "*.error": noop, "*.scanEscape": noop, "*.skipWhitespace": noop,
		"*.scanComment": noop, "*.expect": noop,
		"*.isLetter": func(r *Run, cc *ssa.CallCommon, args []Val) (Val, error) { return boolConst(false), nil },
		"*.isDigit":  func(r *Run, cc *ssa.CallCommon, args []Val) (Val, error) { return boolConst(false), nil },
		"*.Type":     func(r *Run, cc *ssa.CallCommon, args []Val) (Val, error) { return VSym{Name: "TOKTYPE"}, nil },
	}
	phis := map[string]Val{}
	for _, in := range l.head.Instrs {
		if phi, ok := in.(*ssa.Phi); ok {
			if isInt(phi.Type()) {
				phis[phi.Comment] = VSym{Name: "PHI_" + phi.Comment}
			} else if b, ok := phi.Type().Underlying().(*types.Basic); ok && b.Kind() == types.Bool {
				phis[phi.Comment] = boolConst(false)
			} else {
				phis[phi.Comment] = VOpq{"PHI_" + phi.Comment}
			}
		}
	}
	cuts := cutSet(l.head)
	for b := range l.blocks {
		for _, s := range b.Succs {
			if !l.blocks[s] {
				cuts[s] = true
			}
		}
	}
	reg := &Region{Fn: fn, Start: l.head, Cuts: cuts, Summaries: sm, PhiInputs: phis,
		PreWorld: &MapWorld{IntFn: func(s string) (int64, bool) { return 'x', true }, AtomFn: func(k string) (bool, bool) { return false, true }},
		AtStart:  func(r *Run, fr *frame) { r.SetCell(recv, ".ch", intConst(-1)) },
		Lazy: func(o *Obj, path string, t types.Type) Val {
			if o.Name == recv && path == ".ch" {
				return intConst(-1)
			}
			return nil
		}}
	out := InterpretSafe(reg, &MapWorld{IntFn: func(s string) (int64, bool) { return 1, strings.HasPrefix(s, "PHI_") }})
	switch {
	case out.Term == "undecided":
		return false, "undecided: " + out.Undecided
	case strings.HasPrefix(out.Term, "cut:") && out.CutBlock == l.head:
		return false, "at end of input the loop goes round again"
	}
	return true, ""
}

// ---- the table ------------------------------------------------------------------------------

// loops whose termination rests on an argument made elsewhere; one line of reason each.
var loopTable = map[string]struct{ kind, reason string }{
	"(*internal/lexer/items.Item).Emoves#for.loop":               {"visited", "R09.8: no item is processed twice; finitely many items per production"},
	"(internal/lexer/items.ItemList).Closure#for.loop":           {"growing", "index loop over a list that grows only through AddNoDuplicate (R01.6, R01.7); finitely many items per lexical part"},
	"(*internal/lexer/items.ItemSet).dependentsClosure#for.loop": {"growing", "index loop over a list that grows only through AddNoDuplicate (R01.6); finitely many items"},
	"(*internal/lexer/items.ItemSets).Closure#for.loop":          {"growing", "index loop over the sets, which grow only through Add = append-unless-Contain (R01.6); finitely many item sets"},
	"(*internal/parser/lr1/items.ItemSet).Closure#for.loop":      {"again", "repeats only if an item was added that the set did not contain (R02.7, R02.8); finitely many LR(1) items"},
	"internal/parser/lr1/items.GetItemSets#for.loop":             {"again", "repeats only if a set was appended that GetIndex did not find (R02.7, R02.8); finitely many item sets"},
	"internal/parser/first.GetFirstSets#for.loop":                {"again", "repeats only if AddToken/AddSet reported growth (R02.6, R02.8); FIRST sets are subsets of the terminals"},
	"(*internal/lexer/items.DisjunctRangeSet).AddRange#for.loop": {"ranking", "C18/R01.9 O4: each round moves i past every class it created or looked at, len(set)-i decreases"},
	"internal/config.currentModule#for.body":                     {"ranking", "parent is replaced by filepath.Dir(parent) and the loop returns unless that is strictly shorter"},
	"internal/parser/gen/golang.genEnc#for.loop":                 {"ranking", "b = b[n:] with n = min(16, len(b)) >= 1 while len(b) > 0"},
	"internal/util/md.loadMd#for.loop":                           {"ranking", "while i < len(input) every round adds 1 or 4 to i (R19.x decides the stores; the index arithmetic is i += 3 under i <= len-3, then i += 1 under i < len)"},
	"(*internal/frontend/parser.Parser).Parse#for.loop":          {"assumed", "LR driver over the hand-kept tables: ends for the canonical tables of a cycle-free grammar (C15 validates the tables) — not decided here"},
	"(*internal/frontend/parser.Parser).Error#for.loop":          {"consuming", "every round scans a token and the loop stops at EOF; the front end has no recovery states (C15 R15.3), so the loop is never entered"},
}

// shapeOK: a light structural check that the listed argument is about the loop that is there.
func shapeOK(l *loopInfo, kind string) (bool, string) {
	h := l.head
	br, _ := h.Instrs[len(h.Instrs)-1].(*ssa.If)
	switch kind {
	case "again":
		if br == nil {
			return false, "the header does not branch"
		}
		phi, ok := br.Cond.(*ssa.Phi)
		if !ok || phi.Block() != h {
			return false, "the loop condition is not a flag carried round the loop"
		}
		// the flag is reset at the start of every round: its only loop-carried inputs come from inside
		return true, ""
	case "growing":
		if br == nil {
			return false, "the header does not branch"
		}
		cmp, ok := br.Cond.(*ssa.BinOp)
		if !ok || cmp.Op != token.LSS {
			return false, "the loop condition is not i < len(list)"
		}
		idx, ok := cmp.X.(*ssa.Phi)
		if !ok || idx.Block() != h {
			return false, "the left side of the condition is not the loop counter"
		}
		for k, e := range idx.Edges {
			if !l.blocks[h.Preds[k]] {
				continue
			}
			bo, ok := e.(*ssa.BinOp)
			if c, okc := constIntOf(func() ssa.Value {
				if ok {
					return bo.Y
				}
				return nil
			}()); !ok || bo.Op != token.ADD || bo.X != ssa.Value(idx) || !okc || c != 1 {
				return false, "the counter is not advanced by exactly one per round"
			}
		}
		return true, ""
	}
	return true, ""
}

func loopKey(p *Prog, l *loopInfo) string {
	return relName(l.fn.String()) + "#" + l.head.Comment
}

func checkGeneratorLoops(c *Ctx, p *Prog, rule string) {
	loops := listLoops(p)
	nRange, nCounted, nCons, nTable := 0, 0, 0, 0
	consumers := map[string]bool{"next": true, "expect": true}
	seenKeys := map[string]int{}
	for _, l := range loops {
		if isRangeHeader(l.head) {
			nRange++
			continue
		}
		key := loopKey(p, l)
		seenKeys[key]++
		name := fmt.Sprintf("loop %s (block %d)", key, l.head.Index)
		if ok, why := counted(l); ok {
			nCounted++
			c.Ob(rule, name, true, "counted: "+why, p.FnPos(l.fn))
			continue
		}
		if t, ok := loopTable[key]; ok {
			nTable++
			if ok, why := shapeOK(l, t.kind); !ok {
				c.Undecided(rule, name, "listed as '"+t.kind+"' ("+t.reason+") but "+why, p.FnPos(l.fn))
				continue
			}
			c.Ob(rule, name, true, t.kind+": "+t.reason, p.FnPos(l.fn))
			continue
		}
		if everyCycleCalls(l, consumers) {
			if ok, why := leavesAtEOF(p, l); ok {
				nCons++
				c.Ob(rule, name, true, "consuming: every round calls next(), which moves the read offset forward until the end of the input, and at the end of the input the loop is left", p.FnPos(l.fn))
			} else {
				c.Undecided(rule, name, "every round consumes a character, but: "+why, p.FnPos(l.fn))
			}
			continue
		}
		c.Undecided(rule, name, "a loop of no recognised terminating kind (range, counted with an invariant bound, consuming with exit at end of input, or listed with its argument)", p.FnPos(l.fn))
	}
	for k := range loopTable {
		if seenKeys[k] == 0 {
			// the listed loop is gone (rewritten as a range loop, or the function was renamed): whatever
			// loops the function has now were classified above on their own
			c.Note("R09.9: listed loop %s no longer exists", k)
		}
	}
	c.Note("R09.9 loops of the generator: %d range loops, %d counted, %d consuming, %d by a listed argument", nRange, nCounted, nCons, nTable)
	if nRange+nCounted+nCons+nTable < 100 {
		c.Undecided(rule, "loop inventory", fmt.Sprintf("only %d loops found in code reachable from main (expected well over 100)", nRange+nCounted+nCons+nTable))
	}
	// recursion: the call graph restricted to the module, minus the listed structural recursions
	checkRecursion(c, p, rule)
}

func checkRecursion(c *Ctx, p *Prog, rule string) {
	// strongly connected components of size > 1 or self loops among reachable module functions
	idx := map[*ssa.Function]int{}
	var fns []*ssa.Function
	for _, fn := range sortedFuncs(p.Reach) {
		if fn.Blocks != nil && p.IsModFn(fn) && !strings.Contains(fn.String(), "/internal/zz") {
			idx[fn] = len(fns)
			fns = append(fns, fn)
		}
	}
	adj := make([][]int, len(fns))
	for i, fn := range fns {
		if n := p.CG.Nodes[fn]; n != nil {
			for _, e := range n.Out {
				if j, ok := idx[e.Callee.Func]; ok {
					adj[i] = append(adj[i], j)
				}
			}
		}
	}
	// Tarjan
	index, low := make([]int, len(fns)), make([]int, len(fns))
	on := make([]bool, len(fns))
	for i := range index {
		index[i] = -1
	}
	var st []int
	n := 0
	var comps [][]int
	var dfs func(v int)
	dfs = func(v int) {
		index[v], low[v] = n, n
		n++
		st = append(st, v)
		on[v] = true
		for _, w := range adj[v] {
			if index[w] < 0 {
				dfs(w)
				if low[w] < low[v] {
					low[v] = low[w]
				}
			} else if on[w] && index[w] < low[v] {
				low[v] = index[w]
			}
		}
		if low[v] == index[v] {
			var comp []int
			for {
				w := st[len(st)-1]
				st = st[:len(st)-1]
				on[w] = false
				comp = append(comp, w)
				if w == v {
					break
				}
			}
			self := false
			for _, w := range adj[v] {
				if w == v {
					self = true
				}
			}
			if len(comp) > 1 || self {
				comps = append(comps, comp)
			}
		}
	}
	for i := range fns {
		if index[i] < 0 {
			dfs(i)
		}
	}
	for _, comp := range comps {
		var names []string
		for _, v := range comp {
			names = append(names, relName(fns[v].String()))
		}
		sort.Strings(names)
		key := strings.Join(names, " <-> ")
		reason, ok := recursionTable[key]
		if ok {
			c.Ob(rule, "recursion "+key, true, reason)
		} else {
			c.Undecided(rule, "recursion "+key, "recursive functions without a listed termination argument")
		}
	}
}

// recursions among generator functions and why they end
var recursionTable = map[string]string{
	"(*internal/ast.LexAlt).String <-> (*internal/ast.LexGroupPattern).String <-> (*internal/ast.LexOptPattern).String <-> (*internal/ast.LexPattern).String <-> (*internal/ast.LexRepPattern).String":                                                            "structural recursion over the pattern tree built by the parser (a finite tree: every node is created by one reduction)",
	"(*internal/ast.LexAlt).Walk <-> (*internal/ast.LexGroupPattern).Walk <-> (*internal/ast.LexOptPattern).Walk <-> (*internal/ast.LexPattern).Walk <-> (*internal/ast.LexProductions).Walk <-> (*internal/ast.LexRepPattern).Walk <-> internal/ast.walkLexNode": "structural recursion over the pattern tree (visitor)",
	"internal/lexer/items.WriteStringNode <-> internal/lexer/items.writeStringPattern": "structural recursion over the pattern tree (rendering of an item)",
}
