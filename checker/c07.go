package main

import (
	"fmt"
	"go/ast"
	"go/constant"
	"go/types"
	"strings"

	"golang.org/x/tools/go/ssa"
)

func init() { register("C07", "other", runC07) }

// ---- R07.1 --------------------------------------------------------------------------

func checkCanRecover(c *Ctx, p *Prog, rule string) {
	fn := p.Func(lr1ItemsPkg, "*Item.canRecover")
	if fn == nil {
		c.Undecided(rule, "lr1 Item.canRecover", "function not found")
		return
	}
	n, bad := 0, 0
	first := ""
	bodies := [][]string{{"error", "x"}, {"x", "error"}, {"x", "y"}, {"error", "error"}, {}}
	for _, body := range bodies {
		for pos := 0; pos <= len(body); pos++ {
			exp := ""
			if pos < len(body) {
				exp = body[pos]
			}
			strs := map[string]string{"this.ExpectedSymbol": exp}
			ints := map[string]int64{"this.Pos": int64(pos), "this.Len": int64(len(body)), "len(this.Body)": int64(len(body))}
			for i, b := range body {
				strs[fmt.Sprintf("this.Body[%d]", i)] = b
			}
			if pos < len(body) {
				strs["this.Body[this.Pos]"] = body[pos]
			}
			reg := &Region{Fn: fn}
			out := InterpretSafe(reg, &MapWorld{Strs: strs, Ints: ints})
			n++
			want := fmt.Sprint(pos < len(body) && body[pos] == "error")
			got := out.Term
			if out.Term == "return" && len(out.Results) == 1 {
				got = out.Results[0]
			}
			if out.Term == "undecided" {
				got = "UNDECIDED " + out.Undecided
			}
			if got != want {
				bad++
				if first == "" {
					first = fmt.Sprintf("item with body %v, dot at %d: code says %s, required %s", body, pos, got, want)
				}
			}
		}
	}
	c.Ob(rule, "lr1 Item.canRecover", bad == 0, fmt.Sprintf("%d worlds (body x dot position); %d disagree with 'the item can shift the error symbol: its next symbol is error'. %s (witness for the old rule: L : St | L St ; St : error a b | x ; input \"x q a c a b x\" gave up instead of recovering)", n, bad, first), p.FnPos(fn))

	// ItemSet.CanRecover = exists item.canRecover()
	fs := p.Func(lr1ItemsPkg, "*ItemSet.CanRecover")
	if fs == nil {
		c.Undecided(rule, "lr1 ItemSet.CanRecover", "function not found")
		return
	}
	hs := loopHeaders(fs)
	if len(hs) != 1 {
		c.Undecided(rule, "lr1 ItemSet.CanRecover", "expected one loop")
		return
	}
	for _, cr := range []bool{true, false} {
		reg := &Region{Fn: fs, Start: hs[0], Cuts: cutSet(hs[0]), PhiInputs: map[string]Val{"rangeindex": VSym{Name: "i"}},
			Summaries: map[string]Summary{"*.canRecover": func(r *Run, cc *ssa.CallCommon, args []Val) (Val, error) { return boolConst(cr), nil }}}
		out := InterpretSafe(reg, &MapWorld{Ints: map[string]int64{"i": 1, "len(this.Items)": 5}})
		ok := (cr && out.Term == "return" && len(out.Results) == 1 && out.Results[0] == "true") || (!cr && strings.HasPrefix(out.Term, "cut:"))
		c.Ob(rule, fmt.Sprintf("lr1 ItemSet.CanRecover: item.canRecover=%v", cr), ok, fmt.Sprintf("term=%s results=%v %s; required: true as soon as one item can recover, otherwise go on", out.Term, out.Results, out.Undecided), p.FnPos(fs))
	}
	reg := &Region{Fn: fs, Start: hs[0], Cuts: cutSet(hs[0]), PhiInputs: map[string]Val{"rangeindex": VSym{Name: "i"}}}
	out := InterpretSafe(reg, &MapWorld{Ints: map[string]int64{"i": 4, "len(this.Items)": 5}})
	c.Ob(rule, "lr1 ItemSet.CanRecover: no item left", out.Term == "return" && len(out.Results) == 1 && out.Results[0] == "false", fmt.Sprintf("term=%s results=%v", out.Term, out.Results), p.FnPos(fs))
}

// the flag reaches the table: writer stores set.CanRecover(); template prints it into canRecover:
func checkCanRecoverEmission(c *Ctx, p *Prog, rule string) {
	fn := p.Func(parserGenPkg, "getActionRowData")
	if fn != nil {
		hs := loopHeaders(fn)
		reg := &Region{Fn: fn, Cuts: cutSet(hs...), Summaries: map[string]Summary{
			"*.CanRecover": pureSummary("CanRecover"),
		}}
		out := InterpretSafe(reg, &MapWorld{Ints: map[string]int64{"len(tokMap.TypeMap)": 3}})
		c.Ob(rule, "getActionRowData: CanRecover", out.Stores["new:complit.CanRecover"] == "CanRecover(&set)", fmt.Sprintf("row.CanRecover = %s; required set.CanRecover()", out.Stores["new:complit.CanRecover"]), p.FnPos(fn))
	} else {
		c.Undecided(rule, "getActionRowData", "not found")
	}
	// template: the model instantiates CanRecover=true only for row 1
	for _, d := range []string{"parser_plain", "parser_debug"} {
		pk := p.Pkg(gmRoot + "/" + d)
		if pk == nil {
			c.Undecided(rule, d, "model package missing")
			continue
		}
		var flags []string
		if cl, ok := unparen(findVarInit(pk, "actionTab")).(*ast.CompositeLit); ok {
			for _, e := range cl.Elts {
				if row, ok := unparen(e).(*ast.CompositeLit); ok {
					for _, f := range row.Elts {
						if kv, ok := f.(*ast.KeyValueExpr); ok {
							if id, ok := kv.Key.(*ast.Ident); ok && id.Name == "canRecover" {
								if tv, ok := pk.TypesInfo.Types[kv.Value]; ok && tv.Value != nil {
									flags = append(flags, fmt.Sprint(constant.BoolVal(tv.Value)))
								}
							}
						}
					}
				}
			}
		}
		c.Ob(rule, d+": template prints the row's CanRecover into canRecover", strings.Join(flags, ",") == "false,true,false", fmt.Sprintf("model rows have canRecover=%v for data CanRecover=[false true false]", flags))
	}
}

// ---- R07.3: the recovery procedure of the generated parser -----------------------------

type parserSumm struct {
	tops  int
	scans int
	cur   *Run
}

func (ps *parserSumm) summaries(w map[string]any) map[string]Summary {
	ev := func(r *Run, f string, a ...any) { r.Event(f, a...) }
	return map[string]Summary{
		"*.top": func(r *Run, cc *ssa.CallCommon, args []Val) (Val, error) {
			return VSym{Name: fmt.Sprintf("TOP@%d", ps.tops)}, nil
		},
		"*.topIndex": func(r *Run, cc *ssa.CallCommon, args []Val) (Val, error) {
			return VSym{Name: fmt.Sprintf("TOPINDEX@%d", ps.tops)}, nil
		},
		"*.peek": func(r *Run, cc *ssa.CallCommon, args []Val) (Val, error) {
			return VSym{Name: fmt.Sprintf("peek@%d(%s)", ps.tops, render(args[1]))}, nil
		},
		"*.push": func(r *Run, cc *ssa.CallCommon, args []Val) (Val, error) {
			ev(r, "push(%s,%s)", render(args[1]), render(args[2]))
			ps.tops++
			return VTuple{}, nil
		},
		"*.popN": func(r *Run, cc *ssa.CallCommon, args []Val) (Val, error) {
			ev(r, "popN(%s)", render(args[1]))
			ps.tops++
			return VOpq{"popped"}, nil
		},
		"invoke:Scan": func(r *Run, cc *ssa.CallCommon, args []Val) (Val, error) {
			ps.scans++
			ev(r, "Scan")
			o := r.NewObj(fmt.Sprintf("scanned%d", ps.scans), false)
			return VPtr{o, ""}, nil
		},
		"*.Id":   pureSummary("Id"),
		"*.Type": pureSummary("Type"),
		"fmt.Printf": func(r *Run, cc *ssa.CallCommon, args []Val) (Val, error) {
			return VTuple{VSym{Name: "n"}, VConst{}}, nil
		},
		"*.TokenString": pureSummary("TokenString"),
	}
}

func checkRecoveryProcedure(c *Ctx, p *Prog, rule, dir string) {
	pkg := gmRoot + "/" + dir
	errFn := p.Func(pkg, "*Parser.Error")
	frs := p.Func(pkg, "*Parser.firstRecoveryState")
	pop := p.Func(pkg, "*Parser.popNonRecoveryStates")
	if errFn == nil || frs == nil || pop == nil {
		c.Undecided(rule, dir, "Error / firstRecoveryState / popNonRecoveryStates not found")
		return
	}
	shiftT := pkgType(p, pkg, "shift")
	reduceT := pkgType(p, pkg, "reduce")

	// (e) firstRecoveryState
	{
		hs := loopHeaders(frs)
		if len(hs) != 1 {
			c.Undecided(rule, dir+" firstRecoveryState", "expected one loop")
		} else {
			ps := &parserSumm{}
			reg := &Region{Fn: frs, Cuts: cutSet(hs[0]), Summaries: ps.summaries(nil)}
			out := InterpretSafe(reg, &MapWorld{})
			ok := strings.HasPrefix(out.Term, "cut:") && out.NextPhi["recoveryState"] == "TOPINDEX@0" && out.NextPhi["canRecover"] == "actionTab[TOP@0].canRecover" && len(out.Events) == 0
			c.Ob(rule, dir+" firstRecoveryState: start", ok, fmt.Sprintf("term=%s next=%v %s; required: start at the top of the stack with that state's flag", out.Term, out.NextPhi, out.Undecided), p.FnPos(frs))
			for _, wd := range []struct {
				name string
				rs   int64
				cr   bool
			}{{"above the bottom, not a recovery state", 3, false}, {"index 2, not a recovery state", 2, false}, {"index 1, not a recovery state", 1, false}, {"recovery state found", 3, true}, {"recovery state found at index 1", 1, true}, {"bottom reached", 0, false}, {"bottom is a recovery state", 0, true}} {
				ps := &parserSumm{}
				reg := &Region{Fn: frs, Start: hs[0], Cuts: cutSet(hs[0]), StalePrologue: true, Summaries: ps.summaries(nil),
					PhiInputs: map[string]Val{"recoveryState": VSym{Name: "RS"}, "canRecover": VAtom{Key: "CR"}}}
				out := InterpretSafe(reg, &MapWorld{Ints: map[string]int64{"RS": wd.rs}, Atoms: map[string]bool{"CR": wd.cr}})
				var ok bool
				var want string
				if wd.rs > 0 && !wd.cr {
					want = "continue with recoveryState-1 and the flag of the state at that index"
					ok = strings.HasPrefix(out.Term, "cut:") && out.NextPhi["recoveryState"] == "RS-1" && out.NextPhi["canRecover"] == "actionTab[peek@0(RS-1)].canRecover"
				} else {
					want = "stop and report (recoveryState, flag)"
					ok = out.Term == "return" && len(out.Results) == 2 && out.Results[0] == "RS" && out.Results[1] == "CR"
				}
				c.Ob(rule, dir+" firstRecoveryState: "+wd.name, ok && len(out.Events) == 0, fmt.Sprintf("term=%s results=%v next=%v events=%v %s; required: %s", out.Term, out.Results, out.NextPhi, out.Events, out.Undecided, want), p.FnPos(frs))
			}
		}
	}
	// (f) popNonRecoveryStates
	for _, found := range []bool{true, false} {
		ps := &parserSumm{}
		sm := ps.summaries(nil)
		sm["*.firstRecoveryState"] = func(r *Run, cc *ssa.CallCommon, args []Val) (Val, error) {
			return VTuple{VSym{Name: "RS"}, boolConst(found)}, nil
		}
		reg := &Region{Fn: pop, Cuts: cutSet(loopHeaders(pop)...), Summaries: sm}
		// the recovery state lies on the stack: 0 <= rs <= topIndex (an assertion of that must not fire)
		out := InterpretSafe(reg, &MapWorld{Ints: map[string]int64{"len(popped)": 0, "RS": 2}, IntFn: func(n string) (int64, bool) { return 5, strings.HasPrefix(n, "TOPINDEX") }})
		evs := strings.Join(out.Events, "; ")
		var ok bool
		if found {
			ok = out.Term != "undecided" && evs == "popN((-RS+TOPINDEX@0))"
		} else {
			ok = out.Term == "return" && evs == ""
		}
		c.Ob(rule, fmt.Sprintf("%s popNonRecoveryStates: recovery state found=%v", dir, found), ok, fmt.Sprintf("term=%s events=[%s] %s; required: discard exactly the states above the recovery state (topIndex - rs), or nothing if there is none", out.Term, evs, out.Undecided), p.FnPos(pop))
	}

	// (a)-(d) Error
	hs := loopHeaders(errFn)
	if len(hs) != 2 {
		c.Undecided(rule, dir+" Error", fmt.Sprintf("expected two loops (expected-token list, skip loop), found %d", len(hs)))
		return
	}
	recv := errFn.Params[0].Name()
	mkLazy := func(errAct, tokAct *Val, count *int) func(o *Obj, path string, t types.Type) Val {
		return func(o *Obj, path string, t types.Type) Val {
			if o.Name == "actionTab" && strings.Contains(path, ".actions[") && strings.HasSuffix(path, "]") {
				if strings.Contains(path, `Type(`) { // the column of the error symbol
					return *errAct
				}
				*count++
				return *tokAct
			}
			return nil
		}
	}
	// (a) prologue
	{
		ps := &parserSumm{}
		sm := ps.summaries(nil)
		sm["*.popNonRecoveryStates"] = func(r *Run, cc *ssa.CallCommon, args []Val) (Val, error) {
			r.Event("popNonRecoveryStates")
			ps.tops++
			return VOpq{"discarded"}, nil
		}
		reg := &Region{Fn: errFn, Cuts: cutSet(hs...), Summaries: sm}
		out := InterpretSafe(reg, &MapWorld{})
		st := out.Stores
		ok := strings.HasPrefix(out.Term, "cut:") && st["new:complit.Err"] == "err" && st["new:complit.ErrorToken"] == "&*"+recv+".nextToken" && st["new:complit.ErrorSymbols"] == "discarded" && strings.Join(out.Events[:1], "") != ""
		// the offending token is read before anything is popped or scanned
		first := ""
		if len(out.Events) > 0 {
			first = out.Events[0]
		}
		c.Ob(rule, dir+" Error: error attribute", ok && first == "popNonRecoveryStates", fmt.Sprintf("term=%s stores=%v first event=%q %s; required: attribute = (given error, the current token, the discarded attributes), built before any token is skipped", out.Term, st, first, out.Undecided), p.FnPos(errFn))
	}
	// (c) after the expected-token loop: shift error if the row has an entry
	for _, wd := range []struct {
		name   string
		errAct string
		tokAct string
	}{{"no entry for error", "nil", "nil"}, {"shift on error, current token acceptable", "shift", "shift"}, {"shift on error, current token not acceptable", "shift", "nil"}, {"reduce on error", "reduce", "nil"}} {
		mk := func(k string) Val {
			switch k {
			case "shift":
				return VIface{Dyn: shiftT, V: VSym{Name: "S"}}
			case "reduce":
				return VIface{Dyn: reduceT, V: VSym{Name: "R"}}
			}
			return VIface{}
		}
		ea, ta := mk(wd.errAct), mk(wd.tokAct)
		cnt := 0
		ps := &parserSumm{}
		sm := ps.summaries(nil)
		sm["*.popNonRecoveryStates"] = func(r *Run, cc *ssa.CallCommon, args []Val) (Val, error) { return VOpq{"discarded"}, nil }
		reg := &Region{Fn: errFn, Start: hs[0], Cuts: cutSet(hs...), StalePrologue: true, Summaries: sm, Lazy: mkLazy(&ea, &ta, &cnt),
			PhiInputs: map[string]Val{"rangeindex": VSym{Name: "i"}},
			AtStart:   func(r *Run, fr *frame) { ps.tops = 0 }}
		out := InterpretSafe(reg, &MapWorld{Ints: map[string]int64{"i": 100}})
		evs := strings.Join(out.Events, "; ")
		var ok bool
		var want string
		switch wd.errAct {
		case "nil":
			want = "return (false, attribute) without touching the stack"
			ok = out.Term == "return" && evs == "" && len(out.Results) == 2 && out.Results[0] == "false"
		case "shift":
			want = "push (shift target, attribute), then enter the skip loop with recovered = current token acceptable"
			ok = strings.HasPrefix(out.Term, "cut:") && evs == "push(S,*errors.Error(&new:complit))" && out.NextPhi["recovered"] == fmt.Sprint(wd.tokAct != "nil")
		case "reduce":
			// no state on the stack can shift the error symbol (nothing was popped), and the row of the
			// state on top has a reduction in the error column (error is in the look-ahead of an empty alternative)
			want = "return (false, attribute) without touching the stack: no state can shift the error symbol, Parse returns the error (never panics)"
			ok = out.Term == "return" && evs == "" && len(out.Results) == 2 && out.Results[0] == "false"
		}
		c.Ob(rule, dir+" Error: "+wd.name, ok, fmt.Sprintf("term=%s results=%v next=%v events=[%s] %s; required: %s", out.Term, out.Results, out.NextPhi, evs, out.Undecided, want), p.FnPos(errFn))
	}
	// (d) skip loop
	for _, wd := range []struct {
		name      string
		recovered bool
		eof       bool
		tokAct    string
	}{{"recovered", true, false, "nil"}, {"input ended", false, true, "nil"}, {"skip one token, next acceptable", false, false, "shift"}, {"skip one token, next not acceptable", false, false, "nil"}} {
		var ta Val = VIface{}
		if wd.tokAct == "shift" {
			ta = VIface{Dyn: shiftT, V: VSym{Name: "S2"}}
		}
		var ea Val = VIface{Dyn: shiftT, V: VSym{Name: "S"}}
		cnt := 0
		ps := &parserSumm{}
		sm := ps.summaries(nil)
		sm["*.popNonRecoveryStates"] = func(r *Run, cc *ssa.CallCommon, args []Val) (Val, error) { return VOpq{"discarded"}, nil }
		reg := &Region{Fn: errFn, Start: hs[1], Cuts: cutSet(hs...), StalePrologue: true, Summaries: sm, Lazy: mkLazy(&ea, &ta, &cnt),
			PhiInputs: map[string]Val{"recovered": boolConst(wd.recovered)},
			PreWorld: &MapWorld{AtomFn: func(key string) (bool, bool) {
				return true, strings.HasSuffix(key, "== nil") // prologue: the expected-token loop finds no entries
			}},
			AtStart: func(r *Run, fr *frame) {
				ps.tops, ps.scans = 0, 0
			}}
		ty := int64(5)
		if wd.eof {
			ty = 1
		}
		out := InterpretSafe(reg, &MapWorld{Ints: map[string]int64{"*" + recv + ".nextToken.Type": ty}})
		evs := strings.Join(out.Events, "; ")
		var ok bool
		var want string
		switch {
		case wd.recovered:
			want = "return (true, attribute)"
			ok = out.Term == "return" && evs == "" && len(out.Results) == 2 && out.Results[0] == "true"
		case wd.eof:
			want = "return (false, attribute): the input ended first"
			ok = out.Term == "return" && evs == "" && len(out.Results) == 2 && out.Results[0] == "false"
		default:
			want = "discard the current token: scan the next one into nextToken; recovered iff the state after the error symbol has an action for it"
			ok = strings.HasPrefix(out.Term, "cut:") && evs == "Scan; store "+recv+".nextToken = &scanned1" && out.NextPhi["recovered"] == fmt.Sprint(wd.tokAct != "nil")
		}
		c.Ob(rule, dir+" Error skip loop: "+wd.name, ok, fmt.Sprintf("term=%s results=%v next=%v events=[%s] %s; required: %s", out.Term, out.Results, out.NextPhi, evs, out.Undecided, want), p.FnPos(errFn))
	}
	// R07.2: the spelling of the error symbol
	spell := ""
	for _, b := range errFn.Blocks {
		for _, in := range b.Instrs {
			if call, ok := in.(*ssa.Call); ok {
				if f := call.Call.StaticCallee(); f != nil && f.Name() == "Type" && len(call.Call.Args) == 2 {
					if k, ok := call.Call.Args[1].(*ssa.Const); ok && k.Value != nil && k.Value.Kind() == constant.String {
						spell = constant.StringVal(k.Value)
					}
				}
			}
		}
	}
	c.Ob("R07.2", dir+": error symbol spelling", spell == "error", fmt.Sprintf("the generated Error looks up the token named %q; lr1 canRecover (R07.1) tests the next symbol against \"error\"; a grammar's `error` reaches the symbol table under its own spelling", spell), p.FnPos(errFn))
}

func runC07(c *Ctx) {
	p := c.RepoProg()
	checkSymbolNamespace(c, p, "R07.5")
	if !gmHealth(c, p, "R07.0") {
		return
	}
	checkCanRecover(c, p, "R07.1")
	checkCanRecoverEmission(c, p, "R07.1")
	// with -zip the flag travels through the gob payload and the generated decoder
	checkZipAgreement(c, p, "R07.1z")
	for _, d := range gmParserDirs {
		checkRecoveryProcedure(c, p, "R07.3", d)
		checkLRDriver(c, p, "R07.4", gmRoot+"/"+d, "*Parser.Parse", false)
	}
	c.Assumptions = append(c.Assumptions, "the item sets are the canonical LR(1) sets (C02)",
		"NOT decided: that Parse never panics or loops (the template asserts `action.(shift)` for the error column and panics when recovery leads to an empty cell), inertness on valid input (needs C02), token conservation over several recoveries")
	c.Trusted = append(c.Trusted, "go/ssa of the instantiated parser template", "checker/sx.go")
	c.Explanation = "C07, partial: decided are (R07.1) a state is flagged as recovery state exactly when one of its items can shift the error symbol, the flag is what both writers emit and what the template prints; (R07.2) one spelling \"error\" on both sides; (R07.3) the generated recovery procedure, region by region in every world: firstRecoveryState walks down from the top until a flagged state or the bottom; popNonRecoveryStates discards exactly the states above it; Error builds the attribute from the current token and the discarded attributes before skipping anything, shifts the error symbol only if the row has an entry, then discards input tokens one by one (starting with the offending one) until one is acceptable or the input ends, and reports whether it recovered; (R07.4) Parse re-dispatches on the resume token. NOT decided: panic-freedom, termination, inertness on valid input."
}
