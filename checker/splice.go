package main

// E6 — splice contexts: for every template action, the Go lexical context it
// lands in and the class of strings it can insert there.

import (
	"fmt"
	"go/constant"
	"go/token"
	"go/types"
	"sort"
	"strings"
	"text/template/parse"

	"golang.org/x/tools/go/ssa"
)

// ---- lexical context machine ---------------------------------------------------------

const (
	cCode = iota
	cDQ
	cRaw
	cRune
	cLine
	cBlock
)

var ctxNames = []string{"code", `"string"`, "`raw string`", "'rune'", "// comment", "/* comment */"}

type lexState struct {
	ctx  int
	esc  bool
	prev rune
}

func (s lexState) String() string { return ctxNames[s.ctx] }

func (s lexState) feed(text string) lexState {
	for _, r := range text {
		switch s.ctx {
		case cCode:
			switch {
			case r == '"':
				s.ctx = cDQ
			case r == '`':
				s.ctx = cRaw
			case r == '\'':
				s.ctx = cRune
			case r == '/' && s.prev == '/':
				s.ctx = cLine
			case r == '*' && s.prev == '/':
				s.ctx = cBlock
				r = 0
			}
		case cDQ:
			switch {
			case s.esc:
				s.esc = false
			case r == '\\':
				s.esc = true
			case r == '"':
				s.ctx = cCode
			case r == '\n':
				s.ctx = cCode // broken literal; stays broken for the parser, but track on
			}
		case cRune:
			switch {
			case s.esc:
				s.esc = false
			case r == '\\':
				s.esc = true
			case r == '\'':
				s.ctx = cCode
			case r == '\n':
				s.ctx = cCode
			}
		case cRaw:
			if r == '`' {
				s.ctx = cCode
			}
		case cLine:
			if r == '\n' {
				s.ctx = cCode
			}
		case cBlock:
			if r == '/' && s.prev == '*' {
				s.ctx = cCode
				r = 0
			}
		}
		s.prev = r
	}
	return s
}

// after an inserted value the "previous rune" is unknown
func (s lexState) afterInsert() lexState {
	s.prev = 0
	s.esc = false
	return s
}

// ---- string classes ---------------------------------------------------------------------

type strClass string

const (
	clDigits     strClass = "Digits"      // decimal/hex numbers, booleans
	clSpace      strClass = "Spaces"      // padding
	clQuoted     strClass = "Quoted"      // %q of anything
	clBackQuoted strClass = "BackQuoted#" // %#q of anything
	clIdent      strClass = "Ident"       // identifiers scanned by the front end (letters, digits, _, !, and S')
	clRuneStr    strClass = "RuneStr"     // util.RuneToString / CharRange.String renderings
	clImportPath strClass = "ImportPath"  // path.Join(package, const)
	clUserGo     strClass = "UserGo"      // file header / action text (valid Go by the property's premise)
	clHostile    strClass = "Hostile"     // arbitrary terminal spellings
	clHostileNL  strClass = "HostileNoNewline"
	clHex        strClass = "HexBytes"
	clUnknown    strClass = "Unknown"
)

// safeIn: can a value of the class be inserted in the context without breaking
// the token structure of the output?
func safeIn(ctx int, c strClass) (bool, string) {
	switch c {
	case clDigits, clSpace:
		return true, ""
	case clUnknown:
		return false, "origin of the inserted text is not understood by the checker"
	}
	switch ctx {
	case cCode:
		switch c {
		case clQuoted, clBackQuoted, clUserGo, clHex:
			return true, ""
		case clIdent:
			return true, ""
		}
		return false, "bare text in code position"
	case cDQ:
		switch c {
		case clIdent, clImportPath:
			return true, ""
		}
		return false, `may contain " or \ or a newline`
	case cRaw:
		switch c {
		case clIdent, clImportPath:
			return true, ""
		}
		return false, "may contain a backquote"
	case cRune:
		return false, "text inside a rune literal"
	case cLine:
		switch c {
		case clHostile, clUserGo:
			return false, "may contain a line break, which ends the comment, or a byte order mark, which the Go scanner refuses anywhere but at the start of a file (also inside comments)"
		}
		return true, ""
	case cBlock:
		switch c {
		case clIdent, clImportPath, clRuneStr:
			// RuneStr: every '*' RuneToString prints is followed by a quote, so "*/" cannot arise
			return true, ""
		}
		return false, "may contain */"
	}
	return false, "?"
}

// ---- fragments --------------------------------------------------------------------------

// A piece is literal text or an inserted value of some class.
type piece struct {
	lit    string
	class  strClass
	origin string
	alts   [][]piece // alternatives (phi / several producers): each must be safe
}

type spliceAnalysis struct {
	p       *Prog
	fns     []*ssa.Function // functions whose stores are searched (generator packages + callers)
	memo    map[ssa.Value][]piece
	depth   int
	storeIx map[string][]ssa.Value // "Type.Field" -> values stored
}

func newSpliceAnalysis(p *Prog) *spliceAnalysis {
	a := &spliceAnalysis{p: p, memo: map[ssa.Value][]piece{}, storeIx: map[string][]ssa.Value{}}
	for _, f := range sortedFuncs(p.Reach) {
		if f.Blocks != nil && !strings.Contains(f.String(), "/internal/zz") {
			a.fns = append(a.fns, f)
		}
	}
	for _, fn := range a.fns {
		for _, b := range fn.Blocks {
			for _, in := range b.Instrs {
				if st, ok := in.(*ssa.Store); ok {
					if fa, ok := st.Addr.(*ssa.FieldAddr); ok {
						k := structKey(fa.X.Type()) + "." + fieldVar(fa).Name()
						a.storeIx[k] = append(a.storeIx[k], st.Val)
					}
				}
			}
		}
	}
	return a
}

func structKey(t types.Type) string {
	if pt, ok := t.Underlying().(*types.Pointer); ok {
		t = pt.Elem()
	}
	if n, ok := t.(*types.Named); ok {
		return n.Obj().Pkg().Path() + "." + n.Obj().Name()
	}
	return t.String()
}

func one(c strClass, origin string) []piece { return []piece{{class: c, origin: origin}} }

// elemPieces: what the elements of a []string value can be.
func (a *spliceAnalysis) elemPieces(v ssa.Value, depth int) []piece {
	if depth > 16 {
		return one(clUnknown, "too deep")
	}
	switch x := v.(type) {
	case *ssa.UnOp:
		if x.Op == token.MUL {
			if fa, ok := x.X.(*ssa.FieldAddr); ok {
				key := structKey(fa.X.Type()) + "." + fieldVar(fa).Name()
				switch {
				case strings.HasSuffix(key, "internal/token.TokenMap.TypeMap"):
					return one(clHostile, "a terminal of the grammar (token id or string literal) from TokenMap.TypeMap")
				}
				return a.elemsOfStores(key, depth)
			}
		}
	case *ssa.MakeSlice:
		return a.elemsStoredInto(x, depth)
	case *ssa.Call:
		if f := x.Call.StaticCallee(); f != nil {
			switch {
			case strings.HasSuffix(f.String(), "parser/symbols.Symbols).NTList"):
				return one(clIdent, "a nonterminal name (prodId token)")
			case strings.HasSuffix(f.String(), "lexer/symbols.Symbols).List"):
				return one(clRuneStr, "lexer symbol renderings (RuneToString / range strings / '.')")
			}
			if a.p.IsModFn(f) && f.Blocks != nil {
				var alts [][]piece
				for _, b := range f.Blocks {
					if ret, ok := b.Instrs[len(b.Instrs)-1].(*ssa.Return); ok && len(ret.Results) > 0 {
						alts = append(alts, a.elemPieces(ret.Results[0], depth+1))
					}
				}
				return altsOf(alts)
			}
		}
	case *ssa.Phi:
		var alts [][]piece
		for _, e := range x.Edges {
			if e != ssa.Value(x) {
				alts = append(alts, a.elemPieces(e, depth+1))
			}
		}
		return altsOf(alts)
	case *ssa.Slice:
		return a.elemPieces(x.X, depth+1)
	case *ssa.Parameter:
		return a.paramPieces(x, depth, true)
	}
	return one(clUnknown, "elements of "+v.Name()+" ("+fmt.Sprintf("%T", v)+")")
}

func altsOf(alts [][]piece) []piece {
	if len(alts) == 1 {
		return alts[0]
	}
	if len(alts) == 0 {
		return one(clUnknown, "no producer found")
	}
	return []piece{{alts: alts}}
}

// elemsStoredInto: values stored through IndexAddr into slice value s (or its aliases in the same function).
func (a *spliceAnalysis) elemsStoredInto(s ssa.Value, depth int) []piece {
	var alts [][]piece
	var visit func(v ssa.Value)
	seen := map[ssa.Value]bool{}
	visit = func(v ssa.Value) {
		if seen[v] || v.Referrers() == nil {
			return
		}
		seen[v] = true
		for _, r := range *v.Referrers() {
			switch u := r.(type) {
			case *ssa.IndexAddr:
				for _, rr := range *u.Referrers() {
					if st, ok := rr.(*ssa.Store); ok && st.Addr == ssa.Value(u) {
						alts = append(alts, a.pieces(st.Val, depth+1))
					}
				}
			case *ssa.Phi:
				visit(u)
			case *ssa.Call:
				if bi, ok := u.Call.Value.(*ssa.Builtin); ok && bi.Name() == "append" && u.Call.Args[0] == v {
					if len(u.Call.Args) > 1 {
						alts = append(alts, a.elemPieces(u.Call.Args[1], depth+1))
					}
					visit(u)
				}
			}
		}
	}
	visit(s)
	return altsOf(alts)
}

// elemsOfStores: elements of slices stored in a struct field.
func (a *spliceAnalysis) elemsOfStores(key string, depth int) []piece {
	var alts [][]piece
	for _, v := range a.storeIx[key] {
		alts = append(alts, a.elemPieces(v, depth+1))
	}
	// elements may also be written through loads of the field
	for _, fn := range a.fns {
		for _, b := range fn.Blocks {
			for _, in := range b.Instrs {
				st, ok := in.(*ssa.Store)
				if !ok {
					continue
				}
				ia, ok := st.Addr.(*ssa.IndexAddr)
				if !ok {
					continue
				}
				if ld, ok := ia.X.(*ssa.UnOp); ok && ld.Op == token.MUL {
					if fa, ok := ld.X.(*ssa.FieldAddr); ok && structKey(fa.X.Type())+"."+fieldVar(fa).Name() == key {
						alts = append(alts, a.pieces(st.Val, depth+1))
					}
				}
			}
		}
	}
	return altsOf(alts)
}

// elemsWrittenThroughField: values stored as elements through loads of the field.
func (a *spliceAnalysis) elemsWrittenThroughField(key string) []piece {
	var alts [][]piece
	for _, fn := range a.fns {
		for _, b := range fn.Blocks {
			for _, in := range b.Instrs {
				st, ok := in.(*ssa.Store)
				if !ok {
					continue
				}
				ia, ok := st.Addr.(*ssa.IndexAddr)
				if !ok {
					continue
				}
				if ld, ok := ia.X.(*ssa.UnOp); ok && ld.Op == token.MUL {
					if fa, ok := ld.X.(*ssa.FieldAddr); ok && structKey(fa.X.Type())+"."+fieldVar(fa).Name() == key {
						alts = append(alts, a.pieces(st.Val, 1))
					}
				}
			}
		}
	}
	if len(alts) == 0 {
		return nil
	}
	return altsOf(alts)
}

func (a *spliceAnalysis) paramPieces(x *ssa.Parameter, depth int, elems bool) []piece {
	fn := x.Parent()
	idx := -1
	for i, p := range fn.Params {
		if p == x {
			idx = i
		}
	}
	switch x.Name() {
	case "header":
		return one(clUserGo, "the file header given in the grammar (valid Go by the property's premise)")
	}
	n := a.p.CG.Nodes[fn]
	if n == nil || idx < 0 {
		return one(clUnknown, "parameter "+x.Name())
	}
	var alts [][]piece
	for _, e := range n.In {
		if !a.p.Reach[e.Caller.Func] {
			continue
		}
		args := e.Site.Common().Args
		if idx < len(args) {
			if elems {
				alts = append(alts, a.elemPieces(args[idx], depth+1))
			} else {
				alts = append(alts, a.pieces(args[idx], depth+1))
			}
		}
	}
	return altsOf(alts)
}

// pieces: what a string-typed (or printable) value can expand to.
func (a *spliceAnalysis) pieces(v ssa.Value, depth int) []piece {
	if depth > 16 {
		return one(clUnknown, "too deep")
	}
	if isInt(v.Type()) {
		return one(clDigits, "integer")
	}
	if b, ok := v.Type().Underlying().(*types.Basic); ok && b.Kind() == types.Bool {
		return one(clDigits, "boolean")
	}
	switch x := v.(type) {
	case *ssa.Const:
		if x.Value != nil && x.Value.Kind() == constant.String {
			return []piece{{lit: constant.StringVal(x.Value)}}
		}
		return one(clDigits, "constant")
	case *ssa.MakeInterface:
		return a.pieces(x.X, depth+1)
	case *ssa.ChangeType:
		if n, ok := x.X.Type().(*types.Named); ok && strings.HasSuffix(n.Obj().Pkg().Path(), "lexer/items") && (n.Obj().Name() == "Ignore" || n.Obj().Name() == "Accept") {
			return one(clIdent, "a token / ignored-token id (tokId, ignoredTokId token text)")
		}
		return a.pieces(x.X, depth+1)
	case *ssa.Convert:
		return a.pieces(x.X, depth+1)
	case *ssa.BinOp:
		if x.Op == token.ADD {
			return append(a.pieces(x.X, depth+1), a.pieces(x.Y, depth+1)...)
		}
	case *ssa.Phi:
		var alts [][]piece
		for _, e := range x.Edges {
			if e != ssa.Value(x) {
				alts = append(alts, a.pieces(e, depth+1))
			}
		}
		return altsOf(alts)
	case *ssa.Parameter:
		return a.paramPieces(x, depth, false)
	case *ssa.Extract:
		if c, ok := x.Tuple.(*ssa.Call); ok {
			return a.callPieces(c, depth, x.Index)
		}
	case *ssa.Call:
		return a.callPieces(x, depth, 0)
	case *ssa.UnOp:
		if x.Op != token.MUL {
			break
		}
		switch ad := x.X.(type) {
		case *ssa.FieldAddr:
			key := structKey(ad.X.Type()) + "." + fieldVar(ad).Name()
			switch {
			case strings.HasSuffix(key, "internal/ast.SyntaxProd.Id"):
				return one(clIdent, "a production name (prodId token text, or the augmented S')")
			case strings.HasSuffix(key, "internal/ast.SyntaxBody.SDT"), strings.HasSuffix(key, "internal/ast.FileHeader.SDTLit"):
				return one(clUserGo, "action / header text from the grammar (valid Go by the property's premise)")
			}
			var alts [][]piece
			for _, sv := range a.storeIx[key] {
				alts = append(alts, a.pieces(sv, depth+1))
			}
			if len(alts) > 0 {
				return altsOf(alts)
			}
			return one(clUnknown, "field "+key+" has no producer the checker can see")
		case *ssa.IndexAddr:
			return a.elemPieces(ad.X, depth+1)
		case *ssa.Global:
			return one(clUnknown, "global "+ad.Name())
		}
	case *ssa.Index:
		return a.elemPieces(x.X, depth+1)
	}
	return one(clUnknown, fmt.Sprintf("%s (%T)", v.Name(), v))
}

func (a *spliceAnalysis) callPieces(c *ssa.Call, depth, idx int) []piece {
	f := c.Call.StaticCallee()
	if f == nil {
		if c.Call.IsInvoke() && c.Call.Method.Name() == "SymbolString" {
			return one(clHostile, "a grammar symbol's spelling")
		}
		if c.Call.IsInvoke() && c.Call.Method.Name() == "Package" {
			return one(clImportPath, "the -p package path")
		}
		return one(clUnknown, "dynamic call")
	}
	name := f.String()
	switch {
	case name == "fmt.Sprintf":
		k, ok := c.Call.Args[0].(*ssa.Const)
		if !ok || k.Value == nil {
			return one(clUnknown, "Sprintf with a non-constant format")
		}
		ops := varargValues(c.Call.Args[1])
		return a.formatPieces(constant.StringVal(k.Value), ops, depth)
	case name == "path.Join":
		return one(clImportPath, "path.Join of the package path and a constant")
	case strings.HasSuffix(name, "internal/ast.SyntaxProd).String"), strings.HasSuffix(name, "internal/ast.SyntaxBody).String"):
		return one(clHostile, "a production rendered with its symbols and action text")
	case strings.HasSuffix(name, "internal/util.RuneToString"), strings.HasSuffix(name, "lexer/items.CharRange).String"):
		return one(clRuneStr, "canonical rune rendering")
	case strings.HasSuffix(name, "parser/gen/golang.genEnc"):
		return one(clHex, "byte-slice literal built from 0x%02x pieces")
	case name == "strings.ReplaceAll":
		inner := a.pieces(c.Call.Args[0], depth+1)
		if k, ok := c.Call.Args[1].(*ssa.Const); ok && k.Value != nil && constant.StringVal(k.Value) == "\n" {
			return dropNewlines(inner)
		}
		return inner
	case name == "(*strings.Replacer).Replace":
		inner := a.pieces(c.Call.Args[1], depth+1)
		if replacerHandlesNewline(c.Call.Args[0]) {
			return dropNewlines(inner)
		}
		return inner
	case name == "strconv.Quote":
		return one(clQuoted, "strconv.Quote")
	}
	if a.p.IsModFn(f) && f.Blocks != nil {
		var alts [][]piece
		for _, b := range f.Blocks {
			if ret, ok := b.Instrs[len(b.Instrs)-1].(*ssa.Return); ok && idx < len(ret.Results) {
				alts = append(alts, a.pieces(ret.Results[idx], depth+1))
			}
		}
		return altsOf(alts)
	}
	return one(clUnknown, "result of "+name)
}

// replacerHandlesNewline: the replacer rewrites everything that ends or breaks a // comment: the line feed,
// and the byte order mark, which the Go scanner refuses anywhere but at the start of a file, comments included.
func replacerHandlesNewline(v ssa.Value) bool {
	for {
		switch x := v.(type) {
		case *ssa.Call:
			if f := x.Call.StaticCallee(); f != nil && f.String() == "strings.NewReplacer" {
				keys := map[string]bool{}
				for i, o := range varargValues(x.Call.Args[0]) {
					if k, ok := o.(*ssa.Const); ok && i%2 == 0 && k.Value != nil && k.Value.Kind() == constant.String {
						keys[constant.StringVal(k.Value)] = true
					}
				}
				return keys["\n"] && keys["\ufeff"]
			}
			return false
		case *ssa.UnOp:
			if g, ok := x.X.(*ssa.Global); ok {
				// package-level replacer: find its initialiser
				for _, b := range g.Pkg.Func("init").Blocks {
					for _, in := range b.Instrs {
						if st, ok := in.(*ssa.Store); ok && st.Addr == ssa.Value(g) {
							return replacerHandlesNewline(st.Val)
						}
					}
				}
			}
			return false
		default:
			return false
		}
	}
}

func dropNewlines(ps []piece) []piece {
	out := make([]piece, len(ps))
	for i, p := range ps {
		if p.class == clHostile {
			p.class = clHostileNL
			p.origin += ", newlines replaced"
		}
		if p.alts != nil {
			na := make([][]piece, len(p.alts))
			for j, al := range p.alts {
				na[j] = dropNewlines(al)
			}
			p.alts = na
		}
		out[i] = p
	}
	return out
}

// varargValues: the operands stored into a variadic slice built in place.
func varargValues(arg ssa.Value) []ssa.Value {
	sl, ok := arg.(*ssa.Slice)
	if !ok {
		return nil
	}
	al, ok := sl.X.(*ssa.Alloc)
	if !ok {
		return nil
	}
	type iv struct {
		i int64
		v ssa.Value
	}
	var xs []iv
	for _, r := range *al.Referrers() {
		if ia, ok := r.(*ssa.IndexAddr); ok {
			k, ok := ia.Index.(*ssa.Const)
			if !ok {
				continue
			}
			for _, rr := range *ia.Referrers() {
				if st, ok := rr.(*ssa.Store); ok && st.Addr == ssa.Value(ia) {
					xs = append(xs, iv{k.Int64(), st.Val})
				}
			}
		}
	}
	sort.Slice(xs, func(i, j int) bool { return xs[i].i < xs[j].i })
	out := make([]ssa.Value, len(xs))
	for i, x := range xs {
		out[i] = x.v
	}
	return out
}

// formatPieces expands a printf format with SSA operands.
func (a *spliceAnalysis) formatPieces(format string, ops []ssa.Value, depth int) []piece {
	return expandFormat(format, len(ops), func(i int) []piece { return a.pieces(ops[i], depth+1) })
}

// expandFormat walks a printf format; operand(i) supplies the pieces of the i-th operand.
func expandFormat(format string, nops int, operand func(i int) []piece) []piece {
	var out []piece
	lit := ""
	flush := func() {
		if lit != "" {
			out = append(out, piece{lit: lit})
			lit = ""
		}
	}
	next := 0
	rs := []rune(format)
	for i := 0; i < len(rs); i++ {
		if rs[i] != '%' {
			lit += string(rs[i])
			continue
		}
		i++
		if i >= len(rs) {
			break
		}
		if rs[i] == '%' {
			lit += "%"
			continue
		}
		sharp := false
		for i < len(rs) && strings.ContainsRune("#+- 0123456789.*", rs[i]) {
			if rs[i] == '#' {
				sharp = true
			}
			if rs[i] == '*' {
				next++ // width operand
			}
			i++
		}
		if i >= len(rs) {
			break
		}
		verb := rs[i]
		flush()
		idx := next
		next++
		if idx >= nops {
			out = append(out, piece{class: clUnknown, origin: "missing operand for %" + string(verb)})
			continue
		}
		switch verb {
		case 'd', 't', 'x', 'X', 'o', 'b':
			out = append(out, piece{class: clDigits, origin: "%" + string(verb)})
		case 'c':
			out = append(out, piece{class: clSpace, origin: "%c padding"})
		case 'q':
			if sharp {
				out = append(out, piece{class: clBackQuoted, origin: "%#q"})
			} else {
				out = append(out, piece{class: clQuoted, origin: "%q"})
			}
		case 's', 'v':
			out = append(out, operand(idx)...)
		case 'T':
			out = append(out, piece{class: clIdent, origin: "%T"})
		default:
			out = append(out, piece{class: clUnknown, origin: "verb %" + string(verb)})
		}
	}
	flush()
	return out
}

// ---- walking a template ----------------------------------------------------------------------

type spliceFinding struct {
	Template string
	Action   string
	Context  string
	Class    string
	Origin   string
	Why      string
}

type tmplWalker struct {
	a        *spliceAnalysis
	spec     *tmplSpec
	findings []spliceFinding
	actions  int
	problems []string
	vars     map[string]func() []piece // template variables -> producer
	dot      func(path []string) []piece
	seenAct  map[*parse.ActionNode]bool
}

// feedPieces advances the context through pieces, checking every insertion.
func (w *tmplWalker) feedPieces(st lexState, ps []piece, action string) lexState {
	for _, p := range ps {
		switch {
		case p.alts != nil:
			var end *lexState
			for _, al := range p.alts {
				e := w.feedPieces(st, al, action)
				if end == nil {
					end = &e
				} else if end.ctx != e.ctx {
					w.problems = append(w.problems, fmt.Sprintf("%s: alternatives of %s leave the output in different lexical contexts", specKey(w.spec), action))
				}
			}
			if end != nil {
				st = *end
			}
		case p.class == "":
			st = st.feed(p.lit)
		default:
			ok, why := safeIn(st.ctx, p.class)
			if !ok {
				w.findings = append(w.findings, spliceFinding{specKey(w.spec), action, st.String(), string(p.class), p.origin, why})
			}
			st = st.afterInsert()
		}
	}
	return st
}

// walk advances a set of possible lexical states through a template node.
func (w *tmplWalker) walk(n parse.Node, sts []lexState, env *tmplEnv) []lexState {
	switch x := n.(type) {
	case *parse.ListNode:
		if x == nil {
			return sts
		}
		for _, c := range x.Nodes {
			sts = w.walk(c, sts, env)
		}
	case *parse.TextNode:
		var out []lexState
		for _, st := range sts {
			out = addState(out, st.feed(string(x.Text)))
		}
		sts = out
	case *parse.ActionNode:
		if len(x.Pipe.Decl) > 0 {
			return sts // variable assignment prints nothing
		}
		if !w.seenAct[x] {
			if w.seenAct == nil {
				w.seenAct = map[*parse.ActionNode]bool{}
			}
			w.seenAct[x] = true
			w.actions++
		}
		ps := w.pipePieces(x.Pipe, env)
		var out []lexState
		for _, st := range sts {
			out = addState(out, w.feedPieces(st, ps, x.String()))
		}
		sts = out
	case *parse.IfNode:
		out := w.walk(x.List, sts, env)
		if x.ElseList != nil {
			for _, st := range w.walk(x.ElseList, sts, env) {
				out = addState(out, st)
			}
		} else {
			for _, st := range sts {
				out = addState(out, st)
			}
		}
		sts = clearPrev(out)
	case *parse.RangeNode:
		ne := env.forRange(w, x.Pipe)
		// fixpoint over the states at the loop head (zero or more iterations)
		head := append([]lexState{}, sts...)
		for iter := 0; iter < 8; iter++ {
			n0 := len(head)
			for _, st := range w.walk(x.List, head, ne) {
				head = addState(head, st)
			}
			if len(head) == n0 {
				break
			}
		}
		if x.ElseList != nil {
			for _, st := range w.walk(x.ElseList, sts, env) {
				head = addState(head, st)
			}
		}
		sts = clearPrev(head)
	case *parse.WithNode:
		sts = w.walk(x.List, sts, env)
	case *parse.CommentNode:
	default:
		w.problems = append(w.problems, fmt.Sprintf("%s: template node %T is outside the checker's vocabulary", specKey(w.spec), n))
	}
	return sts
}

func addState(sts []lexState, st lexState) []lexState {
	for _, o := range sts {
		if o == st {
			return sts
		}
	}
	return append(sts, st)
}

func clearPrev(sts []lexState) []lexState {
	var out []lexState
	for _, st := range sts {
		st.prev = 0
		out = addState(out, st)
	}
	return out
}

// tmplEnv: what "." and the $variables stand for, as functions from a field
// path to the pieces the producers can put there.
type tmplEnv struct {
	dot  func(path []string, elems bool) []piece
	vars map[string]func(path []string, elems bool) []piece
}

func (e *tmplEnv) forRange(w *tmplWalker, pipe *parse.PipeNode) *tmplEnv {
	ne := &tmplEnv{vars: map[string]func(path []string, elems bool) []piece{}}
	for k, v := range e.vars {
		ne.vars[k] = v
	}
	// the ranged expression
	base, path := w.resolveArg(pipe.Cmds[0].Args[0], e)
	elem := func(p []string, elems bool) []piece {
		if base == nil {
			return one(clUnknown, "range over an expression the checker does not understand")
		}
		return base(append(append([]string{}, path...), append([]string{"[]"}, p...)...), elems)
	}
	ne.dot = elem
	switch len(pipe.Decl) {
	case 1:
		ne.vars[pipe.Decl[0].Ident[0]] = elem
	case 2:
		ne.vars[pipe.Decl[0].Ident[0]] = func(p []string, elems bool) []piece { return one(clDigits, "range index") }
		ne.vars[pipe.Decl[1].Ident[0]] = elem
	}
	return ne
}

// resolveArg maps a template argument to (base resolver, field path).
func (w *tmplWalker) resolveArg(n parse.Node, env *tmplEnv) (func(path []string, elems bool) []piece, []string) {
	switch x := n.(type) {
	case *parse.DotNode:
		return env.dot, nil
	case *parse.FieldNode:
		return env.dot, x.Ident
	case *parse.VariableNode:
		f, ok := env.vars[x.Ident[0]]
		if !ok {
			return nil, nil
		}
		return f, x.Ident[1:]
	}
	return nil, nil
}

func (w *tmplWalker) argPieces(n parse.Node, env *tmplEnv) []piece {
	switch x := n.(type) {
	case *parse.StringNode:
		return []piece{{lit: x.Text}}
	case *parse.NumberNode:
		if strings.HasPrefix(x.Text, "'") {
			if x.Text == "' '" {
				return one(clSpace, "space character constant")
			}
			return one(clUnknown, "character constant "+x.Text)
		}
		return one(clDigits, "template constant")
	case *parse.BoolNode:
		return one(clDigits, "template constant")
	}
	base, path := w.resolveArg(n, env)
	if base == nil {
		return one(clUnknown, "template expression "+n.String())
	}
	return base(path, false)
}

func (w *tmplWalker) pipePieces(p *parse.PipeNode, env *tmplEnv) []piece {
	if len(p.Cmds) != 1 {
		return one(clUnknown, "pipeline "+p.String())
	}
	cmd := p.Cmds[0]
	if id, ok := cmd.Args[0].(*parse.IdentifierNode); ok {
		if id.Ident == "printf" && len(cmd.Args) >= 2 {
			if s, ok := cmd.Args[1].(*parse.StringNode); ok {
				ops := cmd.Args[2:]
				return expandFormat(s.Text, len(ops), func(i int) []piece { return w.argPieces(ops[i], env) })
			}
		}
		return one(clUnknown, "template function "+id.Ident)
	}
	if len(cmd.Args) != 1 {
		return one(clUnknown, "command "+cmd.String())
	}
	return w.argPieces(cmd.Args[0], env)
}
