package main

import (
	"fmt"
	"go/constant"
	"go/token"
	"go/types"
	"sort"
	"strings"

	"golang.org/x/tools/go/ssa"
)

func constString(c *types.Const) (string, bool) {
	if c.Val().Kind() != constant.String {
		return "", false
	}
	return constant.StringVal(c.Val()), true
}

func constValString(tv types.TypeAndValue) (string, bool) {
	if tv.Value == nil || tv.Value.Kind() != constant.String {
		return "", false
	}
	return constant.StringVal(tv.Value), true
}

var repoProg *Prog

// Repo loads /repo once per process.
func (c *Ctx) RepoProg() *Prog {
	if repoProg != nil {
		return repoProg
	}
	overlay := map[string][]byte{}
	for name, src := range fixtureFiles {
		overlay[c.Repo+"/"+fixturePkg+"/"+name] = []byte(src)
	}
	gm := BuildGM(c.Repo)
	patterns := []string{".", "./" + fixturePkg}
	for k, v := range gm.Overlay(c.Repo) {
		overlay[k] = v
	}
	for _, d := range gm.Dirs() {
		patterns = append(patterns, "./"+gmRoot+"/"+d)
	}
	p, err := LoadProgOverlay(c.Repo, gomod, true, overlay, patterns...)
	if err != nil {
		c.Undecided("E0", "load "+c.Repo, err.Error())
		panic("cannot load repository: " + err.Error())
	}
	if len(p.Pkgs) < 25 {
		c.Undecided("E0", "package count", fmt.Sprintf("only %d module packages loaded (28 confirmed by hand)", len(p.Pkgs)))
	}
	if len(p.Reach) < 400 {
		c.Undecided("E0", "reachable functions", "fewer than 400 module functions reachable from main")
	}
	c.Note("E0: loaded %d module packages, %d reachable module functions", len(p.Pkgs), len(p.Reach))
	p.GM = gm
	repoProg = p
	oa := newOrderAnalysis(c, p)
	purityOracle = func(f *ssa.Function) bool { return f != nil && oa.isPure(f) }
	return p
}

// calleeOf returns the statically known callee of a call, or nil.
func calleeOf(cc *ssa.CallCommon) *ssa.Function {
	return cc.StaticCallee()
}

// fullName of a (possibly external) function: "pkgpath.Name" or "(pkgpath.T).Name".
func fullName(f *ssa.Function) string {
	if f == nil {
		return ""
	}
	return f.String()
}

func isNamed(t types.Type, pkg, name string) bool {
	if p, ok := t.(*types.Pointer); ok {
		t = p.Elem()
	}
	n, ok := t.(*types.Named)
	if !ok {
		return false
	}
	o := n.Obj()
	return o.Name() == name && o.Pkg() != nil && o.Pkg().Path() == pkg
}

func relName(s string) string {
	s = strings.ReplaceAll(s, gomod+"/", "")
	return s
}

func sortedFuncs(m map[*ssa.Function]bool) []*ssa.Function {
	fs := make([]*ssa.Function, 0, len(m))
	for f := range m {
		fs = append(fs, f)
	}
	sortFuncs(fs)
	return fs
}

func sortFuncs(fs []*ssa.Function) {
	sort.Slice(fs, func(i, j int) bool {
		a, b := fs[i].String(), fs[j].String()
		if a != b {
			return a < b
		}
		return fs[i].Pos() < fs[j].Pos()
	})
}

func errorType() types.Type { return types.Universe.Lookup("error").Type() }

// comparedConstants: every integer constant that fn compares something with
// (==, !=, <, <=, >, >=). Worlds take their representative values from this set
// and its neighbours, so that every distinction the code itself makes is explored.
func comparedConstants(fn *ssa.Function) []int64 {
	seen := map[int64]bool{}
	var visit func(f *ssa.Function)
	visit = func(f *ssa.Function) {
		for _, b := range f.Blocks {
			for _, in := range b.Instrs {
				bo, ok := in.(*ssa.BinOp)
				if !ok {
					continue
				}
				switch bo.Op {
				case token.EQL, token.NEQ, token.LSS, token.LEQ, token.GTR, token.GEQ:
				default:
					continue
				}
				for _, v := range []ssa.Value{bo.X, bo.Y} {
					if k, ok := v.(*ssa.Const); ok && k.Value != nil && k.Value.Kind() == constant.Int {
						if n, exact := constant.Int64Val(k.Value); exact {
							seen[n] = true
						}
					}
				}
			}
		}
	}
	visit(fn)
	out := make([]int64, 0, len(seen))
	for n := range seen {
		out = append(out, n)
	}
	sort.Slice(out, func(i, j int) bool { return out[i] < out[j] })
	return out
}
