package main

// Embedded positive/negative fixtures. They are type-checked together with
// /repo (as an overlay-only package) so that every zero-expected rule can be
// shown to fire on every run.

const fixturePkg = "internal/zzveriffixture"

var fixtureFiles = map[string]string{
	"c11.go": `package zzveriffixture

import (
	"fmt"
	"os"
	"sort"
	"strings"
)

// must be flagged: map order reaches a .go file
func C11UnsortedToGo(m map[string]int) {
	w := new(strings.Builder)
	for k := range m {
		fmt.Fprintf(w, "%s\n", k)
	}
	os.WriteFile("x.go", []byte(w.String()), 0644)
}

// must not be flagged: sorted before use
func C11Sorted(m map[string]int) {
	var ks []string
	for k := range m {
		ks = append(ks, k)
	}
	sort.Strings(ks)
	os.WriteFile("y.go", []byte(strings.Join(ks, ",")), 0644)
}

// must be flagged: collected without sort, then used positionally
func C11PermIndex(m map[string]int) {
	var ks []string
	for k := range m {
		ks = append(ks, k)
	}
	os.WriteFile("z.go", []byte(ks[0]), 0644)
}

// must not be flagged: order reaches only a .txt file
func C11Txt(m map[string]int) {
	w := new(strings.Builder)
	for k := range m {
		fmt.Fprintf(w, "%s\n", k)
	}
	os.WriteFile("x.txt", []byte(w.String()), 0644)
}

// must be flagged: numbering by iteration order
func C11Number(m map[string]bool) map[string]int {
	r := map[string]int{}
	for k := range m {
		r[k] = len(r)
	}
	os.WriteFile("n.go", []byte(fmt.Sprint(r["a"])), 0644)
	return r
}

// must not be flagged: set union and flag
func C11Union(a, b map[string]bool) bool {
	added := false
	for k := range b {
		if !a[k] {
			added = true
		}
		a[k] = true
	}
	os.WriteFile("u.go", []byte(fmt.Sprint(len(a), added)), 0644)
	return added
}
`,
}
