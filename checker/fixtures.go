package main

// Embedded positive/negative fixtures. They are type-checked together with
// /repo (as an overlay-only package) so that every zero-expected rule can be
// shown to fire on every run.

const fixturePkg = "internal/zzveriffixture"

var fixtureFiles = map[string]string{
	"c11.go": `package zzveriffixture

import (
	"fmt"
	"os"
	"sort"
	"strings"
)

// must be flagged: map order reaches a .go file
func C11UnsortedToGo(m map[string]int) {
	w := new(strings.Builder)
	for k := range m {
		fmt.Fprintf(w, "%s\n", k)
	}
	os.WriteFile("x.go", []byte(w.String()), 0644)
}

// must not be flagged: sorted before use
func C11Sorted(m map[string]int) {
	var ks []string
	for k := range m {
		ks = append(ks, k)
	}
	sort.Strings(ks)
	os.WriteFile("y.go", []byte(strings.Join(ks, ",")), 0644)
}

// must be flagged: collected without sort, then used positionally
func C11PermIndex(m map[string]int) {
	var ks []string
	for k := range m {
		ks = append(ks, k)
	}
	os.WriteFile("z.go", []byte(ks[0]), 0644)
}

// must not be flagged: order reaches only a .txt file
func C11Txt(m map[string]int) {
	w := new(strings.Builder)
	for k := range m {
		fmt.Fprintf(w, "%s\n", k)
	}
	os.WriteFile("x.txt", []byte(w.String()), 0644)
}

// must be flagged: numbering by iteration order
func C11Number(m map[string]bool) map[string]int {
	r := map[string]int{}
	for k := range m {
		r[k] = len(r)
	}
	os.WriteFile("n.go", []byte(fmt.Sprint(r["a"])), 0644)
	return r
}

// must not be flagged: set union and flag
func C11Union(a, b map[string]bool) bool {
	added := false
	for k := range b {
		if !a[k] {
			added = true
		}
		a[k] = true
	}
	os.WriteFile("u.go", []byte(fmt.Sprint(len(a), added)), 0644)
	return added
}
`,
	"c17.go": `package zzveriffixture

import "sort"

var c17cache = map[string]int{}
var c17tab = [4]int{}
var c17names = []string{"b", "a"}

// must be flagged: lazy cache in a package-level map
func C17Lazy(s string) int {
	if v, ok := c17cache[s]; ok {
		return v
	}
	c17cache[s] = len(s)
	return len(s)
}

// must be flagged (in c17bump): write through a pointer bound to a global
func C17Indirect(i int) { c17bump(&c17tab, i) }

func c17bump(p *[4]int, i int) { p[i]++ }

// must not be flagged
func C17ReadOnly(i int) int { return c17tab[i] }

// must be flagged: external function that writes through its argument
func C17Sort() { sort.Strings(c17names) }

// must not be flagged: local copy
func C17Local() []string {
	l := make([]string, len(c17names))
	copy(l, c17names)
	sort.Strings(l)
	return l
}
`,
}
