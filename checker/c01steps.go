package main

// R01.6–R01.8: the steps of the lexer-side subset construction (ItemSets.Closure,
// ItemSets.Add, ItemSet.Next*, the item-list operations, the ε-moves of an item).
// Every step is compared with the algorithm stated in internal/lexer/items/doc.go and
// in the comment of Item.Emoves; that the repetition of the steps terminates with the
// right automaton is not decided.

import (
	"fmt"
	"go/types"
	"strings"

	"golang.org/x/tools/go/ssa"
)

func callEvent(name string, ret func(r *Run, args []Val) Val) Summary {
	return func(r *Run, cc *ssa.CallCommon, args []Val) (Val, error) {
		parts := make([]string, len(args))
		for i, a := range args {
			parts[i] = render(a)
		}
		r.Event("%s(%s)", name, strings.Join(parts, ","))
		if ret == nil {
			return VTuple{}, nil
		}
		return ret(r, args), nil
	}
}

func opq(name string) func(r *Run, args []Val) Val {
	return func(r *Run, args []Val) Val { return VOpq{name} }
}

func lenWorld(n int64, ints map[string]int64) *MapWorld {
	if ints == nil {
		ints = map[string]int64{}
	}
	return &MapWorld{Ints: ints, IntFn: func(s string) (int64, bool) { return n, strings.HasPrefix(s, "len(") }}
}

func termOf(out *Outcome) string {
	t := out.Term
	if strings.HasPrefix(t, "cut:") {
		t = "cut"
	}
	if t == "return" {
		t += " " + strings.Join(out.Results, ",")
	}
	return t
}

func storesOf(out *Outcome) string {
	var ks []string
	for k, v := range out.Stores {
		ks = append(ks, k+"="+v)
	}
	sortStrings(ks)
	return strings.Join(ks, "; ")
}

func checkLexSubsetSteps(c *Ctx, p *Prog, rule string) {
	// ---- ItemSets.Closure: one (state, class) step, and the '.' step ----
	fn := p.Func(lexItemsPkg, "*ItemSets.Closure")
	if fn == nil {
		c.Undecided(rule, "lexer ItemSets.Closure", "function not found")
	} else {
		hs := loopHeaders(fn)
		if len(hs) != 3 {
			c.Undecided(rule, "lexer ItemSets.Closure", fmt.Sprintf("expected three loops (states, classes, imports), found %d", len(hs)), p.FnPos(fn))
		} else {
			sm := func(nitems int64) map[string]Summary {
				return map[string]Summary{
					"*.List": func(r *Run, cc *ssa.CallCommon, args []Val) (Val, error) {
						return VSlice{Name: "CLASSES(" + render(args[0]) + ")", Len: VSym{Name: "NCLASS"}}, nil
					},
					"*.Next":       callEvent("Next", func(r *Run, args []Val) Val { return VSlice{Name: "NEXT", Len: intConst(nitems)} }),
					"*.NextDot":    callEvent("NextDot", func(r *Run, args []Val) Val { return VSlice{Name: "NEXTDOT", Len: intConst(nitems)} }),
					"*.NextImport": callEvent("NextImport", func(r *Run, args []Val) Val { return VSlice{Name: "NEXTIMP", Len: intConst(nitems)} }),
					"*.Add":        callEvent("Add", func(r *Run, args []Val) Val { return VSym{Name: "SETNO"} }),
					"*.ImportType": func(r *Run, cc *ssa.CallCommon, args []Val) (Val, error) { return VSym{Name: "IMPTYPE"}, nil },
				}
			}
			classes := hs[1]
			for _, wd := range []struct {
				name       string
				nitems     int64
				old, setno int64
				want       string
			}{{"no item moves on the class", 0, -1, 5, "none"}, {"new transition", 2, -1, 5, "store"}, {"transition known and equal", 2, 5, 5, "store"}, {"transition known and different", 2, 4, 5, "panic"}} {
				reg := &Region{Fn: fn, Start: classes, Cuts: cutSet(hs...), Summaries: sm(wd.nitems), Inline: map[string]bool{},
					PhiInputs: map[string]Val{"rangeindex": VSym{Name: "c"}, "i": VSym{Name: "i"}},
					PreWorld:  lenWorld(2, map[string]int64{"NCLASS": 2})}
				w := &MapWorld{Ints: map[string]int64{"c": 0, "i": 0, "NCLASS": 3, "SETNO": wd.setno}, IntFn: func(s string) (int64, bool) {
					if strings.Contains(s, "Transitions") {
						return wd.old, true
					}
					return 3, strings.HasPrefix(s, "len(")
				}}
				out := InterpretSafe(reg, w)
				ev, st := evs(out, "Next", "Add"), storesOf(out)
				cls := "CLASSES(&**this.sets[0].SymbolClasses)[c+1]"
				rng := "items.CharRange{From:" + cls + ".From,To:" + cls + ".To}"
				var ok bool
				switch wd.want {
				case "none":
					ok = termOf(out) == "cut" && ev == "Next(&*this.sets[0],"+rng+")" && st == ""
				case "store":
					ok = termOf(out) == "cut" && ev == "Next(&*this.sets[0],"+rng+"); Add(&this,NEXT)" && st == "*this.sets[0].Transitions[c+1]=SETNO"
				case "panic":
					ok = out.Term == "panic"
				}
				stepOb(c, out, rule, "lexer ItemSets.Closure, class step: "+wd.name, ok, fmt.Sprintf("%s events=[%s] stores=[%s] %s; required: the successor of state i on class c is Add(Next(class c)) when that set is non-empty, recorded in Transitions[c]; a different earlier entry is a panic", termOf(out), ev, st, out.Undecided), p.FnPos(fn))
			}
		}
	}

	// ---- the '.' step ----
	if fn != nil {
		if hs := loopHeaders(fn); len(hs) == 3 {
			for _, n := range []int64{0, 2} {
				reg := &Region{Fn: fn, Start: hs[2], Cuts: cutSet(hs...), PhiInputs: map[string]Val{"rangeindex": VSym{Name: "m"}},
					PreWorld: lenWorld(2, map[string]int64{"NCLASS": 0}),
					Summaries: map[string]Summary{
						"*.List": func(r *Run, cc *ssa.CallCommon, args []Val) (Val, error) {
							return VSlice{Name: "CLASSES", Len: VSym{Name: "NCLASS"}}, nil
						},
						"*.NextDot":    callEvent("NextDot", func(r *Run, args []Val) Val { return VSlice{Name: "NEXTDOT", Len: intConst(n)} }),
						"*.NextImport": callEvent("NextImport", func(r *Run, args []Val) Val { return VSlice{Name: "NEXTIMP", Len: intConst(0)} }),
						"*.Add":        callEvent("Add", func(r *Run, args []Val) Val { return VSym{Name: "SETNO"} }),
						"*.ImportType": func(r *Run, cc *ssa.CallCommon, args []Val) (Val, error) { return VSym{Name: "IMPTYPE"}, nil },
					}}
				// the imports loop is over: the run continues with the '.' step and arrives at the states loop
				out := InterpretSafe(reg, lenWorld(2, map[string]int64{"m": 5, "NCLASS": 0}))
				ev, st := evs(out, "NextDot", "Add"), storesOf(out)
				ok := termOf(out) == "cut" && out.CutBlock == hs[0] && out.NextPhi["i"] == "1"
				if n == 0 {
					ok = ok && ev == "NextDot(&*this.sets[0])" && st == ""
				} else {
					ok = ok && ev == "NextDot(&*this.sets[0]); Add(&this,NEXTDOT)" && st == "*this.sets[0].DotTransition=SETNO"
				}
				stepOb(c, out, rule, fmt.Sprintf("lexer ItemSets.Closure, '.' step: %d items move", n), ok, fmt.Sprintf("%s next=%v events=[%s] stores=[%s] %s; required: DotTransition = Add(NextDot()) iff that set is non-empty, then the next state is processed", termOf(out), out.NextPhi, ev, st, out.Undecided), p.FnPos(fn))
			}
			// the states loop covers every state, including those added meanwhile
			reg := &Region{Fn: fn, Start: hs[0], Cuts: cutSet(hs...), PhiInputs: map[string]Val{"i": VSym{Name: "i"}},
				Summaries: map[string]Summary{"*.List": func(r *Run, cc *ssa.CallCommon, args []Val) (Val, error) {
					return VSlice{Name: "CLASSES", Len: VSym{Name: "NCLASS"}}, nil
				}}}
			for _, wd := range []struct{ i, n int64 }{{3, 4}, {4, 4}} {
				out := InterpretSafe(reg, &MapWorld{Ints: map[string]int64{"i": wd.i, "len(this.sets)": wd.n, "NCLASS": 0}})
				ok := (wd.i < wd.n && termOf(out) == "cut") || (wd.i >= wd.n && termOf(out) == "return &this")
				stepOb(c, out, rule, fmt.Sprintf("lexer ItemSets.Closure, states loop at i=%d of %d", wd.i, wd.n), ok, fmt.Sprintf("%s asked=%v %s; required: every index below the current number of sets is processed (the bound is re-read each round)", termOf(out), out.Asked, out.Undecided), p.FnPos(fn))
			}
		}
	}

	// ---- ItemSets.Add / Contain ----
	if fn := p.Func(lexItemsPkg, "*ItemSets.Add"); fn == nil {
		c.Undecided(rule, "lexer ItemSets.Add", "function not found")
	} else {
		for _, known := range []bool{true, false} {
			var apps []string
			reg := &Region{Fn: fn, Summaries: map[string]Summary{
				"*.Contain": func(r *Run, cc *ssa.CallCommon, args []Val) (Val, error) {
					return VTuple{boolConst(known), VSym{Name: "FOUND"}}, nil
				},
				"*.Size":       func(r *Run, cc *ssa.CallCommon, args []Val) (Val, error) { return VSym{Name: "SIZE"}, nil },
				"*.NewItemSet": callEvent("NewItemSet", opq("NEWSET")),
				"builtin:append": func(r *Run, cc *ssa.CallCommon, args []Val) (Val, error) {
					apps = append(apps, render(args[0])+" ++ ["+strings.Join(r.VarargElems(args[1]), ",")+"]")
					return VOpq{"SETS2"}, nil
				}}}
			out := InterpretSafe(reg, &MapWorld{})
			var ok bool
			if known {
				ok = termOf(out) == "return FOUND" && len(apps) == 0 && storesOf(out) == ""
			} else {
				ok = termOf(out) == "return SIZE" && evs(out, "NewItemSet") == "NewItemSet(SIZE,&*this.lexPart,&*this.symbols,items)" && len(apps) == 1 && apps[0] == "this.sets ++ [NEWSET]" && storesOf(out) == "this.sets=SETS2"
			}
			stepOb(c, out, rule, fmt.Sprintf("lexer ItemSets.Add: set already known=%v", known), ok, fmt.Sprintf("%s events=[%s] appends=%v stores=[%s] %s; required: a known set keeps its number; a new one is numbered Size(), built with NewItemSet and appended", termOf(out), evs(out), apps, storesOf(out), out.Undecided), p.FnPos(fn))
		}
	}
	if fn := p.Func(lexItemsPkg, "*ItemSets.Contain"); fn != nil {
		if hs := loopHeaders(fn); len(hs) == 1 {
			for _, wd := range []struct {
				i, n int64
				eq   bool
				want string
			}{{1, 4, true, "return true,k+1"}, {1, 4, false, "cut"}, {3, 4, false, "return false,-1"}} {
				var calls []string
				reg := &Region{Fn: fn, Start: hs[0], Cuts: cutSet(hs[0]), PhiInputs: map[string]Val{"rangeindex": VSym{Name: "k"}}, PreWorld: lenWorld(3, nil),
					Summaries: map[string]Summary{"*.Equal": func(r *Run, cc *ssa.CallCommon, args []Val) (Val, error) {
						calls = append(calls, "Equal("+render(args[0])+","+render(args[1])+")")
						return boolConst(wd.eq), nil
					}}}
				out := InterpretSafe(reg, lenWorld(wd.n, map[string]int64{"k": wd.i}))
				ok := termOf(out) == wd.want && (wd.i+1 >= wd.n || (len(calls) == 1 && calls[0] == "Equal(&*this.sets[k+1],items)"))
				stepOb(c, out, rule, fmt.Sprintf("lexer ItemSets.Contain at %d of %d, equal=%v", wd.i+1, wd.n, wd.eq), ok, fmt.Sprintf("%s calls=%v %s; required %s", termOf(out), calls, out.Undecided, wd.want), p.FnPos(fn))
			}
		}
	}

	// ---- NewItemSet ----
	if fn := p.Func(lexItemsPkg, "NewItemSet"); fn != nil {
		reg := &Region{Fn: fn, Summaries: map[string]Summary{
			"*.Closure":          callEvent("Closure", opq("CLOSED")),
			"*.getSymbolClasses": callEvent("getSymbolClasses", nil),
			"*.newTransitions":   callEvent("newTransitions", nil),
		}}
		out := InterpretSafe(reg, &MapWorld{})
		ev := evs(out, "Closure", "getSymbolClasses", "newTransitions")
		st := storesOf(out)
		ok := out.Term == "return" && ev == "Closure(items,&lexPart,&symbols); getSymbolClasses(&new:complit); newTransitions(&new:complit)" &&
			strings.Contains(st, "new:complit.Items=CLOSED") && strings.Contains(st, "new:complit.DotTransition=-1") && strings.Contains(st, "new:complit.setNo=setNo")
		stepOb(c, out, rule, "lexer NewItemSet", ok, fmt.Sprintf("%s events=[%s] stores=[%s] %s; required: Items = closure of the given items, no '.' transition yet (-1), classes computed before the transition slots", termOf(out), ev, st, out.Undecided), p.FnPos(fn))
	}
	if fn := p.Func(lexItemsPkg, "*ItemSet.newTransitions"); fn != nil {
		if hs := loopHeaders(fn); len(hs) == 2 {
			reg := &Region{Fn: fn, Start: hs[0], Cuts: cutSet(hs...), PhiInputs: map[string]Val{"rangeindex": VSym{Name: "k"}},
				Summaries: map[string]Summary{"*.Size": func(r *Run, cc *ssa.CallCommon, args []Val) (Val, error) { return VSym{Name: "NCLASS"}, nil }},
				PreWorld:  lenWorld(2, map[string]int64{"NCLASS": 2})}
			out := InterpretSafe(reg, lenWorld(5, map[string]int64{"k": 1, "NCLASS": 5}))
			st := storesOf(out)
			stepOb(c, out, rule, "lexer ItemSet.newTransitions: every slot starts as 'no transition'", termOf(out) == "cut" && strings.HasSuffix(st, "[k+1]=-1") && !strings.Contains(st, ";"), fmt.Sprintf("%s stores=[%s] %s; required: slot k = -1 (what the table writer renders as NoState)", termOf(out), st, out.Undecided), p.FnPos(fn))
			// the number of slots is the number of classes
			reg2 := &Region{Fn: fn, Cuts: cutSet(hs...), Summaries: map[string]Summary{"*.Size": func(r *Run, cc *ssa.CallCommon, args []Val) (Val, error) { return VSym{Name: "NCLASS"}, nil }}}
			out2 := InterpretSafe(reg2, lenWorld(2, map[string]int64{"NCLASS": 2}))
			stepOb(c, out2, rule, "lexer ItemSet.newTransitions: one slot per class", termOf(out2) == "cut" && strings.Contains(storesOf(out2), "this.Transitions=make([]int,NCLASS)"), fmt.Sprintf("%s stores=[%s] %s; required Transitions = make([]int, SymbolClasses.Size())", termOf(out2), storesOf(out2), out2.Undecided), p.FnPos(fn))
		}
	}
	if fn := p.Func(lexItemsPkg, "*ItemSet.getSymbolClasses"); fn != nil {
		if hs := loopHeaders(fn); len(hs) == 1 {
			for _, reduce := range []bool{true, false} {
				reg := &Region{Fn: fn, Start: hs[0], Cuts: cutSet(hs[0]), PhiInputs: map[string]Val{"rangeindex": VSym{Name: "k"}}, PreWorld: lenWorld(3, nil),
					Summaries: map[string]Summary{
						"*.NewDisjunctRangeSet": func(r *Run, cc *ssa.CallCommon, args []Val) (Val, error) {
							return VPtr{r.NewObj("DRS", false), ""}, nil
						},
						"*.Reduce": func(r *Run, cc *ssa.CallCommon, args []Val) (Val, error) { return boolConst(reduce), nil },
						"*.ExpectedSymbol": func(r *Run, cc *ssa.CallCommon, args []Val) (Val, error) {
							return VOpq{"EXP(" + render(args[0]) + ")"}, nil
						},
						"*.AddLexTNode": callEvent("AddLexTNode", nil),
					}}
				out := InterpretSafe(reg, lenWorld(3, map[string]int64{"k": 0}))
				ev := evs(out, "AddLexTNode")
				want := "AddLexTNode(&DRS,EXP(&*this.Items[k+1]))"
				if reduce {
					want = ""
				}
				stepOb(c, out, rule, fmt.Sprintf("lexer ItemSet.getSymbolClasses step: complete item=%v", reduce), termOf(out) == "cut" && ev == want, fmt.Sprintf("%s events=[%s] %s; required [%s] — the classes of a state come from the expected symbols of exactly its incomplete items", termOf(out), ev, out.Undecided, want), p.FnPos(fn))
			}
		}
	}

	// ---- ItemSet.Next / NextDot / NextImport: moved items, then dependents, then closure ----
	for _, nx := range []struct{ fn, mv, arg string }{{"*ItemSet.Next", "Move", ",rng"}, {"*ItemSet.NextDot", "MoveDot", ""}, {"*ItemSet.NextImport", "MoveRegDefId", ",imprt"}} {
		fn := p.Func(lexItemsPkg, nx.fn)
		if fn == nil {
			c.Undecided(rule, "lexer "+nx.fn, "function not found")
			continue
		}
		hs := loopHeaders(fn)
		if len(hs) != 1 {
			c.Undecided(rule, "lexer "+nx.fn, "expected one loop", p.FnPos(fn))
			continue
		}
		sm := map[string]Summary{
			"*.NewItemList": func(r *Run, cc *ssa.CallCommon, args []Val) (Val, error) { return VOpq{"EMPTY"}, nil },
			"*." + nx.mv: func(r *Run, cc *ssa.CallCommon, args []Val) (Val, error) {
				a := make([]string, len(args))
				for i := range args {
					a[i] = render(args[i])
				}
				return VOpq{nx.mv + "(" + strings.Join(a, ",") + ")"}, nil
			},
			"*.AddNoDuplicate": func(r *Run, cc *ssa.CallCommon, args []Val) (Val, error) {
				return VOpq{"(" + render(args[0]) + " + " + render(args[1]) + ")"}, nil
			},
			"*.dependentsClosure": func(r *Run, cc *ssa.CallCommon, args []Val) (Val, error) {
				return VOpq{"deps(" + render(args[0]) + "," + render(args[1]) + ")"}, nil
			},
			"*.Closure": func(r *Run, cc *ssa.CallCommon, args []Val) (Val, error) {
				return VOpq{"closure(" + render(args[0]) + ")"}, nil
			},
		}
		reg := &Region{Fn: fn, Start: hs[0], Cuts: cutSet(hs[0]), Summaries: sm, PreWorld: lenWorld(3, nil),
			PhiInputs: map[string]Val{"rangeindex": VSym{Name: "k"}, "nextItems": VOpq{"ACC"}}}
		out := InterpretSafe(reg, lenWorld(3, map[string]int64{"k": 0}))
		want := "(ACC + " + nx.mv + "(&*this.Items[k+1]" + nx.arg + "))"
		got := strings.ReplaceAll(out.NextPhi["nextItems"], "items.CharRange{From:rng.From,To:rng.To}", "rng")
		stepOb(c, out, rule, "lexer "+nx.fn+" step", termOf(out) == "cut" && got == want, fmt.Sprintf("%s next=%s %s; required %s (every item of the state contributes its moved items)", termOf(out), got, out.Undecided, want), p.FnPos(fn))
		out = InterpretSafe(reg, lenWorld(3, map[string]int64{"k": 2}))
		want = "return closure(deps(&this,ACC))"
		stepOb(c, out, rule, "lexer "+nx.fn+" result", termOf(out) == want, fmt.Sprintf("%s %s; required %s (dependents of the moved items, then the closure)", termOf(out), out.Undecided, want), p.FnPos(fn))
	}

	// ---- item lists ----
	if fn := p.Func(lexItemsPkg, "ItemList.AddNoDuplicate"); fn != nil {
		if hs := loopHeaders(fn); len(hs) == 1 {
			for _, has := range []bool{true, false} {
				var apps []string
				reg := &Region{Fn: fn, Start: hs[0], Cuts: cutSet(hs[0]), PreWorld: lenWorld(3, nil), PhiInputs: map[string]Val{"rangeindex": VSym{Name: "k"}, "newList": VOpq{"ACC"}},
					Summaries: map[string]Summary{
						"*.Contain": func(r *Run, cc *ssa.CallCommon, args []Val) (Val, error) {
							r.Event("Contain(%s,%s)", render(args[0]), render(args[1]))
							return boolConst(has), nil
						},
						"builtin:append": func(r *Run, cc *ssa.CallCommon, args []Val) (Val, error) {
							apps = append(apps, render(args[0])+" ++ ["+strings.Join(r.VarargElems(args[1]), ",")+"]")
							return VOpq{"ACC2"}, nil
						}}}
				out := InterpretSafe(reg, lenWorld(3, map[string]int64{"k": 0}))
				ok := termOf(out) == "cut" && evs(out, "Contain") == "Contain(ACC,&*items[k+1])"
				if has {
					ok = ok && len(apps) == 0 && out.NextPhi["newList"] == "ACC"
				} else {
					ok = ok && len(apps) == 1 && apps[0] == "ACC ++ [&*items[k+1]]" && out.NextPhi["newList"] == "ACC2"
				}
				stepOb(c, out, rule, fmt.Sprintf("lexer ItemList.AddNoDuplicate step: already contained=%v", has), ok, fmt.Sprintf("%s events=[%s] appends=%v next=%v %s; required: appended iff the list built so far does not contain it", termOf(out), evs(out), apps, out.NextPhi, out.Undecided), p.FnPos(fn))
			}
		}
	}
	if fn := p.Func(lexItemsPkg, "ItemList.Contain"); fn != nil {
		if hs := loopHeaders(fn); len(hs) == 1 {
			for _, wd := range []struct {
				i, n int64
				eq   bool
				want string
			}{{0, 3, true, "return true"}, {0, 3, false, "cut"}, {2, 3, false, "return false"}} {
				var calls []string
				reg := &Region{Fn: fn, Start: hs[0], Cuts: cutSet(hs[0]), PreWorld: lenWorld(3, nil), PhiInputs: map[string]Val{"rangeindex": VSym{Name: "k"}},
					Summaries: map[string]Summary{"*.Equal": func(r *Run, cc *ssa.CallCommon, args []Val) (Val, error) {
						calls = append(calls, render(args[0])+"=="+render(args[1]))
						return boolConst(wd.eq), nil
					}}}
				out := InterpretSafe(reg, lenWorld(wd.n, map[string]int64{"k": wd.i}))
				ok := termOf(out) == wd.want && (wd.i+1 >= wd.n || (len(calls) == 1 && (calls[0] == "&*this[k+1]==&that" || calls[0] == "&that==&*this[k+1]")))
				stepOb(c, out, rule, fmt.Sprintf("lexer ItemList.Contain at %d of %d, equal=%v", wd.i+1, wd.n, wd.eq), ok, fmt.Sprintf("%s calls=%v %s; required %s", termOf(out), calls, out.Undecided, wd.want), p.FnPos(fn))
			}
		}
	}
	if fn := p.Func(lexItemsPkg, "*Item.Equal"); fn != nil {
		for _, eq := range []bool{true, false} {
			reg := &Region{Fn: fn}
			out := InterpretSafe(reg, &MapWorld{Strs: map[string]string{"this.hashKey": "1:0", "that.hashKey": map[bool]string{true: "1:0", false: "1:1"}[eq]}})
			stepOb(c, out, rule, fmt.Sprintf("lexer Item.Equal: same production and dot position=%v", eq), termOf(out) == "return "+fmt.Sprint(eq), fmt.Sprintf("%s %s", termOf(out), out.Undecided), p.FnPos(fn))
		}
	}
	if fn := p.Func(lexItemsPkg, "ItemList.Equal"); fn != nil {
		if hs := loopHeaders(fn); len(hs) == 1 {
			out := InterpretSafe(&Region{Fn: fn, Cuts: cutSet(hs[0])}, &MapWorld{Ints: map[string]int64{"len(this)": 2, "len(that)": 3}})
			stepOb(c, out, rule, "lexer ItemList.Equal: different sizes", termOf(out) == "return false", termOf(out)+" "+out.Undecided, p.FnPos(fn))
			for _, wd := range []struct {
				i    int64
				has  bool
				want string
			}{{0, false, "return false"}, {0, true, "cut"}, {1, true, "return true"}} {
				reg := &Region{Fn: fn, Start: hs[0], Cuts: cutSet(hs[0]), PreWorld: &MapWorld{Ints: map[string]int64{"len(this)": 2, "len(that)": 2}}, PhiInputs: map[string]Val{"rangeindex": VSym{Name: "k"}},
					Summaries: map[string]Summary{"*.Contain": func(r *Run, cc *ssa.CallCommon, args []Val) (Val, error) {
						r.Event("Contain(%s,%s)", render(args[0]), render(args[1]))
						return boolConst(wd.has), nil
					}}}
				out := InterpretSafe(reg, &MapWorld{Ints: map[string]int64{"k": wd.i, "len(this)": 2, "len(that)": 2}})
				ok := termOf(out) == wd.want && (wd.i > 0 || evs(out) == "Contain(that,&*this[k+1])")
				stepOb(c, out, rule, fmt.Sprintf("lexer ItemList.Equal step %d: contained=%v", wd.i+1, wd.has), ok, fmt.Sprintf("%s events=[%s] %s; required %s (equal sizes and every item of this in that)", termOf(out), evs(out), out.Undecided, wd.want), p.FnPos(fn))
			}
		}
	}

}

// ItemList.Closure, one step: what an item that expects a regular definition R brings into the set.
// doc.go: "for item I : x •R y in set and R : •z in RegDefs: add R : •z to closure"; the property:
// regular definitions are expanded like macros.
func checkLexListClosure(c *Ctx, p *Prog, rule string) {
	fn := p.Func(lexItemsPkg, "ItemList.Closure")
	if fn == nil {
		c.Undecided(rule, "lexer ItemList.Closure", "function not found")
		return
	}
	hs := loopHeaders(fn)
	if len(hs) < 1 {
		c.Undecided(rule, "lexer ItemList.Closure", "no loop", p.FnPos(fn))
		return
	}
	head := hs[0]
	for _, wd := range []struct {
		name                                   string
		regdef, inProgress, imported, nullable bool
		want                                   []string // substrings of the next closure value, in addition to ACC
	}{
		{"expects a terminal", false, false, false, false, nil},
		{"expects an imported definition", true, false, true, false, nil},
		{"expects a regular definition R", true, false, false, false, []string{"Emoves(NewItem(ID))"}},
		{"expects R while another use of R is in progress", true, true, false, false, []string{"Emoves(NewItem(ID))"}},
		{"expects R, and R matches the empty string", true, false, false, true, []string{"Emoves(NewItem(ID))", "MoveRegDefId(&*ACC[i],ID)"}},
	} {
		sm := map[string]Summary{
			"*.ExpectedSymbol": func(r *Run, cc *ssa.CallCommon, args []Val) (Val, error) {
				if !wd.regdef {
					return VIface{Dyn: types.NewPointer(astType(p, "LexCharLit")), V: VPtr{r.NewObj("CL", false), ""}}, nil
				}
				return VIface{Dyn: types.NewPointer(astType(p, "LexRegDefId")), V: VPtr{r.NewObj("RD", false), ""}}, nil
			},
			"invoke:String":  func(r *Run, cc *ssa.CallCommon, args []Val) (Val, error) { return VOpq{"ID"}, nil },
			"*.ContainShift": func(r *Run, cc *ssa.CallCommon, args []Val) (Val, error) { return boolConst(wd.inProgress), nil },
			"*.IsImport":     func(r *Run, cc *ssa.CallCommon, args []Val) (Val, error) { return boolConst(wd.imported), nil },
			"*.NewItem": func(r *Run, cc *ssa.CallCommon, args []Val) (Val, error) {
				return VOpq{"NewItem(" + render(args[0]) + ")"}, nil
			},
			"*.Emoves": func(r *Run, cc *ssa.CallCommon, args []Val) (Val, error) {
				return VSlice{Name: "Emoves(" + render(args[0]) + ")", Len: intConst(2)}, nil
			},
			"*.Reduce": func(r *Run, cc *ssa.CallCommon, args []Val) (Val, error) {
				return boolConst(wd.nullable && strings.Contains(render(args[0]), "[0]")), nil
			},
			"*.MoveRegDefId": func(r *Run, cc *ssa.CallCommon, args []Val) (Val, error) {
				return VOpq{"MoveRegDefId(" + render(args[0]) + "," + render(args[1]) + ")"}, nil
			},
			"*.AddNoDuplicate": func(r *Run, cc *ssa.CallCommon, args []Val) (Val, error) {
				return VOpq{"(" + render(args[0]) + " + " + render(args[1]) + ")"}, nil
			},
		}
		reg := &Region{Fn: fn, Start: head, Cuts: cutSet(hs...), Summaries: sm, PhiInputs: map[string]Val{"closure": VOpq{"ACC"}, "i": VSym{Name: "i"}},
			Lazy: func(o *Obj, path string, t types.Type) Val {
				if o.Name == "RD" && path == ".Id" {
					return VOpq{"ID"}
				}
				return nil
			}}
		out := InterpretSafe(reg, &MapWorld{Ints: map[string]int64{"i": 1, "len(ACC)": 4}})
		got := out.NextPhi["closure"]
		ok := termOf(out) == "cut" && out.NextPhi["i"] == "i+1"
		if len(wd.want) == 0 {
			ok = ok && got == "ACC"
		}
		for _, w := range wd.want {
			ok = ok && strings.Contains(got, w)
		}
		stepOb(c, out, rule, "lexer ItemList.Closure step: item "+wd.name, ok, fmt.Sprintf("%s next closure = %s %s; required: ACC%s", termOf(out), got, out.Undecided, func() string {
			if len(wd.want) == 0 {
				return " unchanged"
			}
			return " plus " + strings.Join(wd.want, " and ") + " — the start items of R are added wherever R is expected (doc.go), and when R can match the empty string the item with the dot behind R as well (macro expansion)"
		}()), p.FnPos(fn))
	}
}

// dependentsClosure, inner step: how a moved item of a regular definition R calls on the items of the
// state that wait for R (doc.go, set.Next: "for R : •z in nextSet and I : x •R y in set: add I : x •R y";
// "for R : z• in nextSet and I : x •R y in set: add I : x R• y").
func checkLexDependents(c *Ctx, p *Prog, rule string) {
	fn := p.Func(lexItemsPkg, "*ItemSet.dependentsClosure")
	if fn == nil {
		c.Undecided(rule, "lexer ItemSet.dependentsClosure", "function not found")
		return
	}
	hs := loopHeaders(fn)
	if len(hs) != 2 {
		c.Undecided(rule, "lexer ItemSet.dependentsClosure", fmt.Sprintf("expected two loops (moved items, items of the state), found %d", len(hs)), p.FnPos(fn))
		return
	}
	for _, wd := range []struct {
		name                  string
		waiting, same, reduce bool
		want                  string
	}{
		{"state item is complete", false, false, false, "ACC"},
		{"state item waits for something else", true, false, false, "ACC"},
		{"state item waits for R, R still in progress", true, true, false, "(ACC + [&*this.Items[k+1]])"},
		{"state item waits for R, R complete", true, true, true, "(ACC + [MoveRegDefId(&*this.Items[k+1],RID)])"},
		{"state item expects a character literal that is printed like the name of the moved item's production", true, true, false, "ACC"},
	} {
		charlit := strings.Contains(wd.name, "character literal")
		sm := map[string]Summary{
			"*.ExpectedSymbol": func(r *Run, cc *ssa.CallCommon, args []Val) (Val, error) {
				if !wd.waiting {
					return VIface{}, nil
				}
				if charlit {
					// 'a' is printed "'a'", which is also the id of the implicit production of the string literal "'a'"
					return VIface{Dyn: types.NewPointer(astType(p, "LexCharLit")), V: VPtr{r.NewObj("RD", false), ""}}, nil
				}
				return VIface{Dyn: types.NewPointer(astType(p, "LexRegDefId")), V: VPtr{r.NewObj("RD", false), ""}}, nil
			},
			"invoke:String": func(r *Run, cc *ssa.CallCommon, args []Val) (Val, error) { return VOpq{"EXPNAME"}, nil },
			"*.String":      func(r *Run, cc *ssa.CallCommon, args []Val) (Val, error) { return VOpq{"EXPNAME"}, nil },
			"*.Reduce":      func(r *Run, cc *ssa.CallCommon, args []Val) (Val, error) { return boolConst(wd.reduce), nil },
			"*.MoveRegDefId": func(r *Run, cc *ssa.CallCommon, args []Val) (Val, error) {
				return VOpq{"MoveRegDefId(" + render(args[0]) + "," + render(args[1]) + ")"}, nil
			},
			"*.AddNoDuplicate": func(r *Run, cc *ssa.CallCommon, args []Val) (Val, error) {
				b := render(args[1])
				if el := r.VarargElems(args[1]); len(el) > 0 {
					b = "[" + strings.Join(el, ",") + "]"
				}
				return VOpq{"(" + render(args[0]) + " + " + b + ")"}, nil
			},
		}
		other := "q"
		if wd.same {
			other = "r"
		}
		reg := &Region{Fn: fn, Start: hs[1], Cuts: cutSet(hs...), Summaries: sm, PreWorld: lenWorld(2, nil),
			PhiInputs: map[string]Val{"items": VSlice{Name: "ACC", Len: VSym{Name: "NACC"}}, "rangeindex": VSym{Name: "k"}},
			Lazy: func(o *Obj, path string, t types.Type) Val {
				if strings.HasSuffix(path, ".Id") && !strings.Contains(o.Name, "RD") {
					return VOpq{"RID"}
				}
				if strings.HasSuffix(path, ".Id") {
					return VOpq{"EXPNAME"} // the name the waiting item refers to
				}
				return nil
			}}
		out := InterpretSafe(reg, &MapWorld{Ints: map[string]int64{"k": 0, "NACC": 3}, Strs: map[string]string{"EXPNAME": "r", "RID": other}, IntFn: func(s string) (int64, bool) { return 3, strings.HasPrefix(s, "len(") }})
		got := out.NextPhi["items"]
		stepOb(c, out, rule, "lexer dependentsClosure step: "+wd.name, termOf(out) == "cut" && out.CutBlock == hs[1] && got == wd.want, fmt.Sprintf("%s next items = %s %s; required %s", termOf(out), got, out.Undecided, wd.want), p.FnPos(fn))
	}
}

// R01.8: the ε-moves of an item, helper by helper, against the table in the comment of Item.Emoves.
func checkLexEmoves(c *Ctx, p *Prog, rule string) {
	posOps := func(level int64) map[string]Summary {
		return map[string]Summary{
			"*.Clone": func(r *Run, cc *ssa.CallCommon, args []Val) (Val, error) {
				r.Event("clone")
				return VPtr{r.NewObj("POST", false), ""}, nil
			},
			"*.pop":        callEvent("pop", func(r *Run, args []Val) Val { return VTuple{VOpq{"popped"}, VSym{Name: "poppedpos"}} }),
			"*.inc":        callEvent("inc", nil),
			"*.push":       callEvent("push", nil),
			"*.setPos":     callEvent("setPos", nil),
			"*.setToEnd":   callEvent("setToEnd", nil),
			"*.getHashKey": callEvent("hash", nil),
			"*.level":      func(r *Run, cc *ssa.CallCommon, args []Val) (Val, error) { return intConst(level), nil },
			"*.Len": func(r *Run, cc *ssa.CallCommon, args []Val) (Val, error) {
				return VSym{Name: "LEN(" + render(args[0]) + ")"}, nil
			},
			"invoke:Len": func(r *Run, cc *ssa.CallCommon, args []Val) (Val, error) { return VSym{Name: "LEN"}, nil },
			"*.newLexPatternBasicItems": func(r *Run, cc *ssa.CallCommon, args []Val) (Val, error) {
				return VOpq{"basic(" + render(args[1]) + "," + render(args[2]) + ")"}, nil
			},
			"builtin:append": func(r *Run, cc *ssa.CallCommon, args []Val) (Val, error) {
				b := render(args[1])
				if el := r.VarargElems(args[1]); len(el) > 0 {
					b = "[" + strings.Join(el, ",") + "]"
				}
				return VOpq{"(" + render(args[0]) + " ++ " + b + ")"}, nil
			},
		}
	}
	type tc struct {
		fn, name   string
		pos, level int64
		want       string
	}
	post := "clone; pop(&*POST.pos); inc(&*POST.pos); hash(&POST)"
	for _, t := range []tc{
		{"*Item.eMovesGroupPattern", "dot in front of the group", 0, 1, "|return basic(&*nt.LexPattern,0)"},
		{"*Item.eMovesGroupPattern", "an alternative of the group is complete", 1, 1, post + "|return &new:slicelit[:]|new:slicelit[0]=*items.Item(&POST)"},
		{"*Item.eMovesOptPattern", "dot in front of the option", 0, 1, post + "|return ((nil ++ [basic(&*nt.LexPattern,0)]) ++ [*items.Item(&POST)])"},
		{"*Item.eMovesOptPattern", "the option's body is complete", 1, 1, post + "|return (nil ++ [*items.Item(&POST)])"},
		{"*Item.eMovesRepPattern", "dot in front of the repetition", 0, 1, post + "|return ((nil ++ [basic(&*nt.LexPattern,0)]) ++ [*items.Item(&POST)])"},
		{"*Item.eMovesRepPattern", "the repetition's body is complete", 1, 1, post + "|return ((nil ++ [basic(&*nt.LexPattern,1)]) ++ [*items.Item(&POST)])"},
		{"*Item.eMovesLexPattern", "dot in front of the pattern", 0, 0, "|return basic(&nt,0)"},
		{"*Item.eMovesLexPattern", "an alternative of the whole pattern is complete", 1, 0, "clone; hash(&POST)|return &new:slicelit[:]|*POST.pos.stack[0].pos=LEN(&nt); new:slicelit[0]=*items.Item(&POST)"},
		{"*Item.eMovesLexPattern", "an alternative of a nested pattern is complete", 1, 2, post + "|return &new:slicelit[:]|new:slicelit[0]=*items.Item(&POST)"},
	} {
		fn := p.Func(lexItemsPkg, t.fn)
		if fn == nil {
			c.Undecided(rule, "lexer "+t.fn, "function not found")
			continue
		}
		reg := &Region{Fn: fn, Summaries: posOps(t.level), Params: map[string]Val{"pos": intConst(t.pos)}}
		out := InterpretSafe(reg, &MapWorld{})
		got := evs(out) + "|" + termOf(out)
		got = strings.ReplaceAll(got, "; store ", "; ")
		// events also list stores; keep the position operations only
		var ops []string
		for _, e := range out.Events {
			if !strings.HasPrefix(e, "store ") {
				ops = append(ops, e)
			}
		}
		got = strings.Join(ops, "; ") + "|" + termOf(out)
		if st := storesOf(out); st != "" {
			got += "|" + st
		}
		stepOb(c, out, rule, "lexer "+t.fn+": "+t.name, got == t.want, fmt.Sprintf("got %s %s; required %s", got, out.Undecided, t.want), p.FnPos(fn))
	}

	// eMovesLexAlt: end of the alternative / next term is a terminal / next term is a bracketed pattern
	if fn := p.Func(lexItemsPkg, "*Item.eMovesLexAlt"); fn == nil {
		c.Undecided(rule, "lexer Item.eMovesLexAlt", "function not found")
	} else {
		for _, wd := range []struct {
			name     string
			pos, n   int64
			terminal bool
			want     string
		}{
			{"all terms of the alternative are behind the dot", 2, 2, false, "clone; pop(&*POST.pos); setToEnd(&*POST.pos); hash(&POST)|return &POST"},
			{"next term is a terminal", 1, 2, true, "|return &this"},
			{"next term is a bracketed pattern", 1, 2, false, "clone; push(&*POST.pos,TERM,0); hash(&POST)|return &POST"},
		} {
			sm := posOps(1)
			sm["invoke:LexTerminal"] = func(r *Run, cc *ssa.CallCommon, args []Val) (Val, error) { return boolConst(wd.terminal), nil }
			sm["*.LexTerminal"] = sm["invoke:LexTerminal"]
			reg := &Region{Fn: fn, Summaries: sm, Params: map[string]Val{"pos": intConst(wd.pos)},
				Lazy: func(o *Obj, path string, t types.Type) Val {
					if strings.HasSuffix(o.Name, ".Terms") {
						return VIface{Dyn: types.NewPointer(astType(p, "LexGroupPattern")), V: VOpq{"TERM"}}
					}
					return nil
				}}
			out := InterpretSafe(reg, &MapWorld{IntFn: func(s string) (int64, bool) { return wd.n, strings.HasPrefix(s, "len(") }})
			var ops []string
			for _, e := range out.Events {
				if !strings.HasPrefix(e, "store ") {
					ops = append(ops, e)
				}
			}
			got := strings.Join(ops, "; ") + "|" + termOf(out)
			got = strings.ReplaceAll(got, "*ast.LexGroupPattern(TERM)", "TERM")
			stepOb(c, out, rule, "lexer Item.eMovesLexAlt: "+wd.name, got == wd.want, fmt.Sprintf("got %s %s; required %s", got, out.Undecided, wd.want), p.FnPos(fn))
		}
	}
	// newLexPatternBasicItems: one item per alternative, dot at its start
	if fn := p.Func(lexItemsPkg, "*Item.newLexPatternBasicItems"); fn != nil {
		if hs := loopHeaders(fn); len(hs) == 1 {
			reg := &Region{Fn: fn, Start: hs[0], Cuts: cutSet(hs[0]), Summaries: posOps(1), PreWorld: lenWorld(3, nil), PhiInputs: map[string]Val{"rangeindex": VSym{Name: "k"}}}
			out := InterpretSafe(reg, lenWorld(3, map[string]int64{"k": 0}))
			var ops []string
			for _, e := range out.Events {
				if !strings.HasPrefix(e, "store ") {
					ops = append(ops, e)
				}
			}
			got := strings.Join(ops, "; ") + "|" + storesOf(out)
			got = strings.ReplaceAll(strings.ReplaceAll(got, "*ast.LexAlt(&*nt.Alternatives[k+1])", "ALT"), "[]interface{}", "[]any")
			want := "clone; setPos(&*POST.pos,k+1); push(&*POST.pos,ALT,0); hash(&POST)|make([]any,len(nt.Alternatives))[k+1]=*items.Item(&POST)"
			stepOb(c, out, rule, "lexer Item.newLexPatternBasicItems step", termOf(out) == "cut" && got == want, fmt.Sprintf("%s got %s %s; required %s", termOf(out), got, out.Undecided, want), p.FnPos(fn))
		}
	}
	// Item.Move: nothing unless the class lies inside the expected symbol; else the ε-moves of the item with the dot one further
	if fn := p.Func(lexItemsPkg, "*Item.Move"); fn != nil {
		for _, match := range []bool{true, false} {
			sm := posOps(1)
			sm["*.match"] = func(r *Run, cc *ssa.CallCommon, args []Val) (Val, error) { return boolConst(match), nil }
			sm["*.Emoves"] = func(r *Run, cc *ssa.CallCommon, args []Val) (Val, error) {
				return VOpq{"Emoves(" + render(args[0]) + ")"}, nil
			}
			out := InterpretSafe(&Region{Fn: fn, Summaries: sm}, &MapWorld{})
			got := evs(out) + "|" + termOf(out)
			want := "|return nil"
			if match {
				want = "clone; inc(&*POST.pos); hash(&POST)|return Emoves(&POST)"
			}
			stepOb(c, out, rule, fmt.Sprintf("lexer Item.Move: class matches=%v", match), got == want, fmt.Sprintf("got %s %s; required %s", got, out.Undecided, want), p.FnPos(fn))
		}
	}

	// Item.Emoves, one round of the worklist: a basic item (complete, or in front of a terminal) is a result;
	// any other item is replaced by what the helper for the node under the dot returns.
	if fn := p.Func(lexItemsPkg, "*Item.Emoves"); fn == nil {
		c.Undecided(rule, "lexer Item.Emoves", "function not found")
	} else if hs := loopHeaders(fn); len(hs) != 1 {
		c.Undecided(rule, "lexer Item.Emoves", "expected one loop (the worklist)", p.FnPos(fn))
	} else {
		itemT := types.NewPointer(pkgType(p, lexItemsPkg, "Item"))
		for _, wd := range []struct {
			name, node        string
			reduce, terminal  bool
			altSame           bool
			wantPush, wantRes string
		}{
			{"complete item", "", true, false, false, "", "(RES ++ [&IT])"},
			{"item in front of a terminal", "", false, true, false, "", "(RES ++ [&IT])"},
			{"dot at a pattern", "LexPattern", false, false, false, "Push([eMovesLexPattern(&IT,&NODE,POS)])", "RES"},
			{"dot at a group", "LexGroupPattern", false, false, false, "Push([eMovesGroupPattern(&IT,&NODE,POS)])", "RES"},
			{"dot at an option", "LexOptPattern", false, false, false, "Push([eMovesOptPattern(&IT,&NODE,POS)])", "RES"},
			{"dot at a repetition", "LexRepPattern", false, false, false, "Push([eMovesRepPattern(&IT,&NODE,POS)])", "RES"},
			{"dot inside an alternative, helper gives a new item", "LexAlt", false, false, false, "Push([*items.Item(&NEW)])", "RES"},
			{"dot inside an alternative, helper gives the item back", "LexAlt", false, false, true, "", "(RES ++ [&IT])"},
		} {
			var pushes []string
			helper := func(name string) Summary {
				return func(r *Run, cc *ssa.CallCommon, args []Val) (Val, error) {
					a := make([]string, len(args))
					for i := range args {
						a[i] = render(args[i])
					}
					return VOpq{name + "(" + strings.Join(a, ",") + ")"}, nil
				}
			}
			var it *Obj
			sm := map[string]Summary{
				"*.NewStack": func(r *Run, cc *ssa.CallCommon, args []Val) (Val, error) { return VOpq{"STACK"}, nil },
				"*.Push": func(r *Run, cc *ssa.CallCommon, args []Val) (Val, error) {
					b := render(args[1])
					if el := r.VarargElems(args[1]); len(el) > 0 {
						b = "[" + strings.Join(el, ",") + "]"
					}
					pushes = append(pushes, "Push("+b+")")
					return VOpq{"STACK"}, nil
				},
				"*.Len": func(r *Run, cc *ssa.CallCommon, args []Val) (Val, error) { return VSym{Name: "NSTACK"}, nil },
				"*.Pop": func(r *Run, cc *ssa.CallCommon, args []Val) (Val, error) {
					it = r.NewObj("IT", false)
					return VIface{Dyn: itemT, V: VPtr{it, ""}}, nil
				},
				"*.Reduce":         func(r *Run, cc *ssa.CallCommon, args []Val) (Val, error) { return boolConst(wd.reduce), nil },
				"*.nextIsTerminal": func(r *Run, cc *ssa.CallCommon, args []Val) (Val, error) { return boolConst(wd.terminal), nil },
				"*.top": func(r *Run, cc *ssa.CallCommon, args []Val) (Val, error) {
					return VTuple{VIface{Dyn: types.NewPointer(astType(p, wd.node)), V: VPtr{r.NewObj("NODE", false), ""}}, VSym{Name: "POS"}}, nil
				},
				"*.eMovesLexPattern":   helper("eMovesLexPattern"),
				"*.eMovesGroupPattern": helper("eMovesGroupPattern"),
				"*.eMovesOptPattern":   helper("eMovesOptPattern"),
				"*.eMovesRepPattern":   helper("eMovesRepPattern"),
				"*.eMovesLexAlt": func(r *Run, cc *ssa.CallCommon, args []Val) (Val, error) {
					if wd.altSame {
						return args[0], nil
					}
					return VPtr{r.NewObj("NEW", false), ""}, nil
				},
				"builtin:append": func(r *Run, cc *ssa.CallCommon, args []Val) (Val, error) {
					return VOpq{"(" + render(args[0]) + " ++ [" + strings.Join(r.VarargElems(args[1]), ",") + "])"}, nil
				},
			}
			for _, other := range []bool{false, true} {
				reg := &Region{Fn: fn, Start: hs[0], Cuts: cutSet(hs[0]), Summaries: sm, PhiInputs: map[string]Val{"items": VOpq{"RES"}},
					LookupVal: func(r *Run, m, k Val, t types.Type) (Val, Val) {
						if ks := render(k); strings.Contains(ks, "IT") && strings.Contains(strings.ToLower(ks), "key") {
							// the item of this round was not processed before (R09.8 decides the other case)
							return boolConst(false), boolConst(false)
						}
						// any other memo the code keeps may answer either way: the round must be right in both
						if b, ok := t.Underlying().(*types.Basic); ok && b.Kind() == types.Bool {
							return boolConst(other), boolConst(other)
						}
						return VOpq{"memo"}, boolConst(other)
					}}
				pushes = nil
				out := InterpretSafe(reg, &MapWorld{Ints: map[string]int64{"NSTACK": 2}})
				got := strings.Join(pushes, "; ")
				// the prologue's initial push is not part of the round
				ok := termOf(out) == "cut" && out.NextPhi["items"] == wd.wantRes && strings.TrimPrefix(got, "Push([*items.Item(&this)]); ") == wd.wantPush || (termOf(out) == "cut" && out.NextPhi["items"] == wd.wantRes && got == "Push([*items.Item(&this)])" && wd.wantPush == "")
				name := "lexer Item.Emoves round: " + wd.name
				if other {
					if len(out.Asked) == 0 && ok {
						continue // no other memo was consulted: same run as before
					}
					name += " (any other memo answering yes)"
				}
				stepOb(c, out, rule, name, ok, fmt.Sprintf("%s pushes=[%s] results=%s %s; required push [%s], results %s", termOf(out), got, out.NextPhi["items"], out.Undecided, wd.wantPush, wd.wantRes), p.FnPos(fn))
			}
		}
		out := InterpretSafe(&Region{Fn: fn, Start: hs[0], Cuts: cutSet(hs[0]), PhiInputs: map[string]Val{"items": VOpq{"RES"}},
			LookupVal: func(r *Run, m, k Val, t types.Type) (Val, Val) { return boolConst(false), boolConst(false) },
			Summaries: map[string]Summary{
				"*.NewStack": func(r *Run, cc *ssa.CallCommon, args []Val) (Val, error) { return VOpq{"STACK"}, nil },
				"*.Push":     func(r *Run, cc *ssa.CallCommon, args []Val) (Val, error) { return VOpq{"STACK"}, nil },
				"*.Len":      func(r *Run, cc *ssa.CallCommon, args []Val) (Val, error) { return VSym{Name: "NSTACK"}, nil },
			}}, &MapWorld{Ints: map[string]int64{"NSTACK": 0}})
		stepOb(c, out, rule, "lexer Item.Emoves: worklist empty", termOf(out) == "return RES", termOf(out)+" "+out.Undecided, p.FnPos(fn))
	}
}

// R09.8: the ε-move worklist of an item cannot cycle. The items of one production are finitely many
// (a bounded stack of positions), so it is enough that no item is processed twice: every round must
// consult and extend a set of processed items keyed by the item's identity before it pushes anything.
func checkEmovesTerminates(c *Ctx, p *Prog, rule string) {
	fn := p.Func(lexItemsPkg, "*Item.Emoves")
	if fn == nil {
		c.Undecided(rule, "lexer Item.Emoves terminates", "function not found")
		return
	}
	hs := loopHeaders(fn)
	if len(hs) != 1 {
		c.Undecided(rule, "lexer Item.Emoves terminates", "expected one loop (the worklist)", p.FnPos(fn))
		return
	}
	itemT := types.NewPointer(pkgType(p, lexItemsPkg, "Item"))
	for _, seen := range []bool{true, false} {
		var pushes, lookups []string
		sm := map[string]Summary{
			"*.NewStack": func(r *Run, cc *ssa.CallCommon, args []Val) (Val, error) { return VOpq{"STACK"}, nil },
			"*.Push": func(r *Run, cc *ssa.CallCommon, args []Val) (Val, error) {
				pushes = append(pushes, render(args[1]))
				return VOpq{"STACK"}, nil
			},
			"*.Len": func(r *Run, cc *ssa.CallCommon, args []Val) (Val, error) { return VSym{Name: "NSTACK"}, nil },
			"*.Pop": func(r *Run, cc *ssa.CallCommon, args []Val) (Val, error) {
				return VIface{Dyn: itemT, V: VPtr{r.NewObj("IT", false), ""}}, nil
			},
			"*.HashKey": func(r *Run, cc *ssa.CallCommon, args []Val) (Val, error) {
				return VOpq{"key(" + render(args[0]) + ")"}, nil
			},
			"*.Reduce":         func(r *Run, cc *ssa.CallCommon, args []Val) (Val, error) { return boolConst(false), nil },
			"*.nextIsTerminal": func(r *Run, cc *ssa.CallCommon, args []Val) (Val, error) { return boolConst(false), nil },
			"*.top": func(r *Run, cc *ssa.CallCommon, args []Val) (Val, error) {
				return VTuple{VIface{Dyn: types.NewPointer(astType(p, "LexRepPattern")), V: VPtr{r.NewObj("NODE", false), ""}}, VSym{Name: "POS"}}, nil
			},
			"*.eMovesRepPattern": func(r *Run, cc *ssa.CallCommon, args []Val) (Val, error) { return VOpq{"MOVES"}, nil },
		}
		reg := &Region{Fn: fn, Start: hs[0], Cuts: cutSet(hs[0]), Summaries: sm, PhiInputs: map[string]Val{"items": VOpq{"RES"}},
			AtStart: func(r *Run, fr *frame) { pushes, lookups = nil, nil },
			LookupVal: func(r *Run, m, k Val, t types.Type) (Val, Val) {
				lookups = append(lookups, render(m)+"["+render(k)+"]")
				return boolConst(seen), boolConst(seen)
			}}
		out := InterpretSafe(reg, &MapWorld{Ints: map[string]int64{"NSTACK": 2}})
		npush := len(pushes)
		up := evs(out, "mapupdate")
		keyed := len(lookups) == 1 && strings.Contains(lookups[0], "IT")
		var ok bool
		var want string
		if seen {
			want = "an item that was processed before is dropped: nothing pushed, results unchanged"
			ok = termOf(out) == "cut" && keyed && npush == 0 && out.NextPhi["items"] == "RES"
		} else {
			want = "a new item is entered into the set of processed items (under the key it was looked up with) before its successors are pushed"
			ok = termOf(out) == "cut" && keyed && npush == 1 && strings.HasPrefix(up, "mapupdate "+lookups[0]+" = ")
		}
		stepOb(c, out, rule, fmt.Sprintf("lexer Item.Emoves round: item processed before=%v", seen), ok, fmt.Sprintf("%s lookups=%v updates=[%s] pushes=%d results=%s %s; required: %s — otherwise a bracket whose body can match the empty string (%s) makes the worklist cycle for ever", termOf(out), lookups, up, npush, out.NextPhi["items"], out.Undecided, want, "'x' { [ 'a' ] } 'y'"), p.FnPos(fn))
	}
}
