package main

import (
	"fmt"
	"go/types"
	"sort"
	"strings"

	"golang.org/x/tools/go/ssa"
)

func init() {
	register("C08", "other", runC08)
}

// ---- the Scan transfer table (shared by C01 R01.5 and C08) -------------------------

type scanWorld struct {
	name   string
	atEOF  bool
	rune1  int64 // '\n', '\r', '\t', 'A'
	live   bool  // next state != -1
	acc    int64 // ActTab[next].Accept: -1 ignore, 0 non-accepting (INVALID), 7 a token
	ignore bool  // ActTab[next].Ignore != ""
	exh    bool  // input exhausted after this rune
	v      int64 // verdict so far: 0 INVALID, 1 EOF, 7 a token
}

func lin(names ...string) Val {
	l := VLin{Terms: map[string]int64{}}
	for _, n := range names {
		l.Terms[n]++
	}
	return linNorm(l)
}

func symOff(name string, off int64) Val { return VSym{name, off} }

func scanSummaries(debugPrints *int) map[string]Summary {
	return map[string]Summary{
		"unicode/utf8.DecodeRune": func(r *Run, cc *ssa.CallCommon, args []Val) (Val, error) {
			r.Event("DecodeRune(%s)", render(args[0]))
			return VTuple{VSym{Name: "R"}, VSym{Name: "SIZE"}}, nil
		},
		"dyn": func(r *Run, cc *ssa.CallCommon, args []Val) (Val, error) {
			r.Event("call %s(%s)", render(args[0]), render(args[1]))
			return VSym{Name: "NEXT"}, nil
		},
		"fmt.Printf": func(r *Run, cc *ssa.CallCommon, args []Val) (Val, error) {
			*debugPrints++
			return VTuple{VSym{Name: "n"}, VConst{}}, nil
		},
		"*.Id":           pureSummary("Id"),
		"*.RuneToString": pureSummary("RuneToString"),
		"*.String":       pureSummary("String"),
	}
}

// scanRegion builds the region for one loop iteration of a generated Scan.
func scanRegion(fn *ssa.Function, head *ssa.BasicBlock, prints *int) *Region {
	reg := &Region{
		Fn:            fn,
		Start:         head,
		Cuts:          cutSet(head),
		StalePrologue: true,
		PhiInputs: map[string]Val{
			"start": VSym{Name: "START"}, "startLine": VSym{Name: "SL"}, "startColumn": VSym{Name: "SC"},
			"end": VSym{Name: "END"}, "state": VSym{Name: "STATE"},
			"rune1": VSym{Name: "R0"}, "size": VSym{Name: "SIZE0"},
		},
		Summaries: scanSummaries(prints),
		PreWorld:  &MapWorld{Ints: map[string]int64{"l.pos": 0, "len(l.src)": 5}},
		Lazy: func(o *Obj, path string, t types.Type) Val {
			switch {
			case o.Name == "ActTab" && strings.HasSuffix(path, ".Accept"):
				return VSym{Name: "ACC" + strings.TrimSuffix(strings.TrimPrefix(path, "["), "].Accept")}
			case o.Name == "ActTab" && strings.HasSuffix(path, ".Ignore"):
				return VOpq{"IGN" + strings.TrimSuffix(strings.TrimPrefix(path, "["), "].Ignore")}
			}
			return nil
		},
		AtStart: func(r *Run, fr *frame) {
			r.SetCell("l", ".pos", VSym{Name: "POS"})
			r.SetCell("l", ".line", VSym{Name: "L"})
			r.SetCell("l", ".column", VSym{Name: "C"})
			r.SetCell("new:complit", ".Type", VSym{Name: "V"})
		},
	}
	return reg
}

func (w scanWorld) mapWorld() *MapWorld {
	ints := map[string]int64{"STATE": 3, "POS": 100, "L": 7, "C": 20, "START": 90, "SL": 7, "SC": 10, "END": 95, "V": w.v, "SIZE": 2, "R": w.rune1, "len(l.src)": 200}
	if w.atEOF {
		ints["len(l.src)"] = 100
	}
	if w.exh {
		ints["len(l.src)"] = 102
	}
	if w.live {
		ints["NEXT"] = 5
	} else {
		ints["NEXT"] = -1
	}
	ints["ACCNEXT"] = w.acc
	if w.v != 0 && w.v != 1 {
		ints["END"] = 100 // loop-head invariant J: a verdict implies end = pos
	}
	return &MapWorld{Ints: ints, AtomFn: func(key string) (bool, bool) {
		if strings.Contains(key, "IGNNEXT") && strings.Contains(key, `""`) {
			return !w.ignore, true // key is `"" == IGNNEXT`
		}
		return false, false
	}}
}

// scanRuneClasses: newline, carriage return, tab, an ordinary letter, plus every
// other value the generated Scan compares a rune with.
var scanExtraRunes []int64

func scanWorlds() []scanWorld {
	var ws []scanWorld
	for _, v := range []int64{0, 7, 1} {
		ws = append(ws, scanWorld{name: fmt.Sprintf("at end of input, verdict=%s", verdictName(v)), atEOF: true, v: v})
	}
	for _, rc := range []struct {
		n string
		r int64
	}{{"newline", 10}, {"carriage return", 13}, {"tab", 9}, {"other", 65}} {
		_ = rc
	}
	classes := []struct {
		n string
		r int64
	}{{"newline", 10}, {"carriage return", 13}, {"tab", 9}, {"other", 65}}
	for _, k := range scanExtraRunes {
		classes = append(classes, struct {
			n string
			r int64
		}{fmt.Sprintf("U+%04X", k), k})
	}
	for _, rc := range classes {
		for _, v := range []int64{0, 7} {
			ws = append(ws, scanWorld{name: fmt.Sprintf("rune %s, automaton dead, verdict=%s", rc.n, verdictName(v)), rune1: rc.r, v: v})
			for _, acc := range []int64{7, 0} {
				ws = append(ws, scanWorld{name: fmt.Sprintf("rune %s, live state with Accept=%s, verdict=%s", rc.n, verdictName(acc), verdictName(v)), rune1: rc.r, live: true, acc: acc, v: v})
			}
			for _, exh := range []bool{false, true} {
				ws = append(ws, scanWorld{name: fmt.Sprintf("rune %s, ignore state, input exhausted=%v, verdict=%s", rc.n, exh, verdictName(v)), rune1: rc.r, live: true, acc: -1, ignore: true, exh: exh, v: v})
			}
		}
	}
	return ws
}

func verdictName(v int64) string {
	switch v {
	case 0:
		return "INVALID"
	case 1:
		return "EOF"
	case -1:
		return "-1"
	}
	return "token"
}

// expectScanRow: Appendix A.1 of DESIGN.md, written from the statements of C01/C08.
func expectScanRow(w scanWorld) (stores map[string]string, next map[string]string) {
	stores = map[string]string{}
	next = map[string]string{"start": "START", "startLine": "SL", "startColumn": "SC", "end": "END", "state": "-1"}
	if w.atEOF {
		if w.v == 0 {
			next["end"] = "POS"
		}
		return
	}
	pos1 := render(lin("POS", "SIZE"))
	stores["l.pos"] = pos1
	adv := func() (line, col string) {
		line, col = "L", "C"
		switch w.rune1 {
		case 10:
			stores["l.line"] = "L+1"
			stores["l.column"] = "1"
			return "L+1", "1"
		case 13:
			stores["l.column"] = "1"
			return "L", "1"
		case 9:
			stores["l.column"] = "C+4"
			return "L", "C+4"
		}
		stores["l.column"] = "C+1"
		return "L", "C+1"
	}
	switch {
	case !w.live && w.v == 0:
		// the rune that makes the text unmatchable belongs to the INVALID token:
		// it is consumed, so it must be counted
		adv()
		next["end"] = pos1
	case !w.live:
		// verdict set: nothing kept beyond end; the rune is un-consumed by the epilogue
	case w.acc != -1:
		adv()
		stores["new:complit.Type"] = "ACCNEXT"
		next["end"] = pos1
		next["state"] = "NEXT"
	default: // ignore state
		line, col := adv()
		next["start"], next["startLine"], next["startColumn"] = pos1, line, col
		next["state"] = "0"
		if w.exh {
			stores["new:complit.Type"] = "1"
		} else {
			stores["new:complit.Type"] = "0" // the verdict starts afresh with the new lexeme
		}
	}
	return
}

// sameIn: two rendered values denote the same thing in world w (numerically
// when both are terms over the world's integers, textually otherwise).
func sameIn(w *MapWorld, a, b string) bool {
	if a == b {
		return true
	}
	if w == nil {
		return false
	}
	x, ok1 := w.intOf(parseSymTerm(a))
	y, ok2 := w.intOf(parseSymTerm(b))
	return ok1 && ok2 && x == y
}

func mapDiffW(w *MapWorld, got, want map[string]string) string {
	g2 := map[string]string{}
	for k, v := range got {
		if wv, ok := want[k]; ok && sameIn(w, v, wv) {
			g2[k] = wv
		} else {
			g2[k] = v
		}
	}
	return mapDiff(g2, want)
}

func mapDiff(got, want map[string]string) string {
	keys := map[string]bool{}
	for k := range got {
		keys[k] = true
	}
	for k := range want {
		keys[k] = true
	}
	ks := make([]string, 0, len(keys))
	for k := range keys {
		ks = append(ks, k)
	}
	sort.Strings(ks)
	var d []string
	for _, k := range ks {
		if got[k] != want[k] {
			g, w := got[k], want[k]
			if g == "" {
				g = "(unchanged)"
			}
			if w == "" {
				w = "(unchanged)"
			}
			d = append(d, fmt.Sprintf("%s: code %s, required %s", k, g, w))
		}
	}
	return strings.Join(d, "; ")
}

// dropIdempotent removes stores that write back the value the cell had.
func dropSame(stores map[string]string, initial map[string]string) map[string]string {
	out := map[string]string{}
	for k, v := range stores {
		if initial[k] == v {
			continue
		}
		out[k] = v
	}
	return out
}

var scanInitial = map[string]string{"l.pos": "POS", "l.line": "L", "l.column": "C", "new:complit.Type": "V"}

// checkScanTable decides rule (R01.5 / R08.2) on one generated lexer variant.
// which selects the clauses: "verdict" (token decisions) and/or "cursor" (positions).
func checkScanTable(c *Ctx, p *Prog, dir, rule string) {
	fn := p.Func(gmRoot+"/"+dir, "*Lexer.Scan")
	if fn == nil {
		c.Undecided(rule, dir+" Scan", "generated Scan not found")
		return
	}
	hs := loopHeaders(fn)
	if len(hs) != 1 {
		c.Undecided(rule, dir+" Scan", fmt.Sprintf("expected one loop in Scan, found %d", len(hs)))
		return
	}
	head := hs[0]
	pos := p.FnPos(fn)
	n := 0
	scanExtraRunes = nil
	for _, k := range comparedConstants(fn) {
		if k > 1 && k != 10 && k != 13 && k != 9 && k != 65 && k < 0x110000 {
			scanExtraRunes = append(scanExtraRunes, k)
		}
	}
	for _, w := range scanWorlds() {
		prints := 0
		reg := scanRegion(fn, head, &prints)
		mw := w.mapWorld()
		out := InterpretSafe(reg, mw)
		n++
		name := fmt.Sprintf("%s Scan loop body: %s", dir, w.name)
		if out.Term == "undecided" {
			c.Undecided(rule, name, out.Undecided, pos)
			continue
		}
		wantStores, wantNext := expectScanRow(w)
		gotStores := dropSame(out.Stores, scanInitial)
		gotNext := map[string]string{}
		for k, v := range out.NextPhi {
			if _, ok := wantNext[k]; ok {
				gotNext[k] = v
			}
		}
		// compare final cell values: a missing store of the value the cell already has is no difference
		gf, wf := map[string]string{}, map[string]string{}
		for k, init := range scanInitial {
			gf[k], wf[k] = init, init
		}
		for k, v := range out.Stores {
			gf[k] = v
		}
		for k, v := range wantStores {
			wf[k] = v
		}
		d1 := mapDiffW(mw, gf, wf)
		d2 := mapDiffW(mw, gotNext, wantNext)
		ok := out.Term == "cut:"+head.Comment && d1 == "" && d2 == ""
		detail := "row agrees with the transfer table"
		if !ok {
			detail = fmt.Sprintf("term=%s; stores: %s; loop variables: %s", out.Term, d1, d2)
		}
		c.Ob(rule, name, ok, detail, pos)
		if n%7 == 1 {
			c.Sample(map[string]any{"rule": rule, "variant": dir, "world": w.name, "stores": gotStores, "next": gotNext})
		}
	}
	c.Note("%s: %s: %d worlds of the Scan loop body", rule, dir, n)

	// epilogue: state = -1 at the loop head
	for _, keep := range []bool{true, false} {
		prints := 0
		reg := scanRegion(fn, head, &prints)
		ints := map[string]int64{"STATE": -1, "START": 90, "END": 95, "POS": 100}
		if !keep {
			ints["END"] = 90
		}
		out := InterpretSafe(reg, &MapWorld{Ints: ints})
		name := fmt.Sprintf("%s Scan epilogue: end>start=%v", dir, keep)
		if out.Term == "undecided" {
			c.Undecided(rule, name, out.Undecided, pos)
			continue
		}
		want := map[string]string{"new:complit.Pos.Offset": "START", "new:complit.Pos.Line": "SL", "new:complit.Pos.Column": "SC", "new:complit.Pos.Context": "l.Context"}
		if keep {
			want["l.pos"] = "END"
			want["new:complit.Lit"] = "l.src[START:END]"
		} else {
			want["new:complit.Lit"] = "make([]byte,0)"
		}
		if !keep && strings.HasPrefix(out.Stores["new:complit.Lit"], "&new:slicelit") {
			want["new:complit.Lit"] = out.Stores["new:complit.Lit"] // an empty slice literal
		}
		d := mapDiff(out.Stores, want)
		ok := out.Term == "return" && d == "" && len(out.Results) == 1 && out.Results[0] == "&new:complit"
		c.Ob(rule, name, ok, fmt.Sprintf("term=%s result=%v; %s (required: cursor back to end iff a lexeme was kept; Lit = src[start:end]; Pos = the recorded start triple)", out.Term, out.Results, d), pos)
	}
	// prologue
	for _, eof := range []bool{true, false} {
		prints := 0
		reg := &Region{Fn: fn, Cuts: cutSet(head), Summaries: scanSummaries(&prints)}
		ints := map[string]int64{"l.pos": 100, "len(l.src)": 200}
		if eof {
			ints["len(l.src)"] = 100
		}
		out := InterpretSafe(reg, &MapWorld{Ints: ints})
		name := fmt.Sprintf("%s Scan prologue: input exhausted=%v", dir, eof)
		if out.Term == "undecided" {
			c.Undecided(rule, name, out.Undecided, pos)
			continue
		}
		var ok bool
		var detail string
		if eof {
			want := map[string]string{"new:complit.Type": "1", "new:complit.Pos.Offset": "l.pos", "new:complit.Pos.Line": "l.line", "new:complit.Pos.Column": "l.column", "new:complit.Pos.Context": "l.Context"}
			d := mapDiff(out.Stores, want)
			ok = out.Term == "return" && d == ""
			detail = fmt.Sprintf("term=%s; %s (required: EOF token at the cursor, no store to the lexer: end of input is sticky)", out.Term, d)
		} else {
			wantNext := map[string]string{"start": "l.pos", "startLine": "l.line", "startColumn": "l.column", "end": "0", "state": "0"}
			gotNext := map[string]string{}
			for k := range wantNext {
				gotNext[k] = out.NextPhi[k]
			}
			d := mapDiff(gotNext, wantNext)
			d2 := mapDiff(out.Stores, map[string]string{"new:complit.Type": "0"})
			ok = strings.HasPrefix(out.Term, "cut:") && d == "" && d2 == ""
			detail = fmt.Sprintf("term=%s; %s %s (required: start triple = cursor, verdict INVALID, state 0)", out.Term, d, d2)
		}
		c.Ob(rule, name, ok, detail, pos)
	}
}

func runC08(c *Ctx) {
	p := c.RepoProg()
	if !gmHealth(c, p, "R08.0") {
		return
	}
	for _, d := range gmLexerDirs {
		checkScanTable(c, p, d, "R08.2")
	}
	// the table-shape fact the tiling argument rests on (F3): every live state that is not an
	// ignore state records `end`, because the writer leaves Accept = 0 (INVALID) there, never -1
	checkActTabWriter(c, p, "R08.3")
	c.Assumptions = append(c.Assumptions,
		"utf8.DecodeRune returns a rune other than -1 and a size >= 1 whenever input is left",
		"the emitted tables satisfy R01.3/R01.4 (every live non-ignore state has Accept != -1; Accept = -1 implies Ignore != \"\") — decided under C01",
		"loop-head invariant J (a token verdict implies end = cursor) — re-established by every row of the table")
	c.Trusted = append(c.Trusted, "go/ssa of the instantiated lexer template", "checker/sx.go")
	c.Explanation = "C08 decided on the generated Scan for all grammars and inputs at once: the lexer template is instantiated (plain and debug) and its loop body, prologue and epilogue are interpreted abstractly in every world (end of input / rune class newline, CR, tab, other x automaton verdict dead, accepting, non-accepting, ignore x input exhausted x verdict so far). Each row must equal the transfer table written from the statement: a consumed rune advances (line, column) by the stated rule exactly when it is kept (including the rune an INVALID token swallows), the start triple is captured from the cursor at scan start and at each ignore restart, the epilogue returns the cursor to `end`, slices Lit = src[start:end] and reports the recorded start triple; at end of input nothing is stored to the lexer. By induction over rows the cursor triple stays in sync with the byte offset and successive lexemes tile the input. Not decided: the contract of utf8.DecodeRune; shape of the emitted tables (C01)."
}
