package main

func init() { register("C02", "other", runC02) }

func runC02(c *Ctx) {
	p := c.RepoProg()
	if !gmHealth(c, p, "R02.0") {
		return
	}
	for _, d := range gmParserDirs {
		checkLRDriver(c, p, "R02.4", gmRoot+"/"+d, "*Parser.Parse", false)
	}
	c.Explanation = "under construction"
}
