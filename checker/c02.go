package main

import (
	"fmt"
	"go/types"
	"strings"

	"golang.org/x/tools/go/ssa"
)

func init() { register("C02", "other", runC02) }

const parserGenPkg = "internal/parser/gen/golang"

// ---- R02.1: the LR(1) action of one item on one symbol -----------------------------

func checkItemAction(c *Ctx, p *Prog, rule string) {
	fn := p.Func(lr1ItemsPkg, "*Item.action")
	if fn == nil {
		c.Undecided(rule, "lr1 Item.action", "function not found")
		return
	}
	inl := map[string]bool{}
	for _, n := range []string{"*Item.accept", "*Item.reduce"} {
		if f := p.Func(lr1ItemsPkg, n); f != nil {
			inl[f.String()] = true
		}
	}
	n, bad := 0, 0
	first := ""
	for _, sym := range []string{"INVALID", "␚", "a", "b"} {
		for _, fol := range []string{"␚", "a", "b"} {
			for _, prodIdx := range []int64{0, 3} {
				for _, shape := range []string{"incomplete", "complete", "empty"} {
					exps := []string{""}
					pos, ln := int64(2), int64(2)
					switch shape {
					case "incomplete":
						pos, ln = 1, 3
						exps = []string{"a", "b", "␚"}
					case "empty":
						pos, ln = 0, 0
					}
					for _, exp := range exps {
						reg := &Region{Fn: fn, Inline: inl, Params: map[string]Val{"sym": VOpq{"sym"}, "nextState": VSym{Name: "nextState"}}}
						w := &MapWorld{
							Ints: map[string]int64{"this.ProdIdx": prodIdx, "this.Pos": pos, "this.Len": ln},
							Strs: map[string]string{"sym": sym, "this.FollowingSymbol": fol, "this.ExpectedSymbol": exp},
						}
						out := InterpretSafe(reg, w)
						n++
						complete := pos >= ln
						want := "action.Error(true)"
						switch {
						case sym == "INVALID":
						case complete && prodIdx == 0 && fol == "␚" && sym == "␚":
							want = "action.Accept(true)"
						case complete && sym == fol:
							want = "action.Reduce(this.ProdIdx)"
						case !complete && sym == exp:
							want = "action.Shift(nextState)"
						}
						got := out.Term
						if out.Term == "return" && len(out.Results) == 1 {
							got = out.Results[0]
						}
						if out.Term == "undecided" {
							got = "UNDECIDED: " + out.Undecided
						}
						if got != want || len(out.Events) != 0 {
							bad++
							if first == "" {
								first = fmt.Sprintf("item(prod %d, %s, following %q, expected %q) on %q: code gives %s, canonical LR(1) requires %s", prodIdx, shape, fol, exp, sym, got, want)
							}
						}
					}
				}
			}
		}
	}
	c.Ob(rule, "lr1 Item.action", bad == 0, fmt.Sprintf("%d worlds (symbol x follow x production 0/other x dot position x expected symbol); %d disagree with: INVALID -> error; [S'->S., $] on $ -> accept; complete item on exactly its follow symbol -> reduce by its production; incomplete item on its expected symbol -> shift; otherwise error. %s", n, bad, first), p.FnPos(fn))
	if n < 100 {
		c.Undecided(rule, "vacuity", "too few worlds")
	}
	c.Sample(map[string]any{"rule": rule, "worlds": n})
}

// ---- R02.2: the body length the automaton assumes is the one the parser pops ----------

func normProd(s string, names ...string) string {
	for _, n := range names {
		s = strings.ReplaceAll(s, n, "PROD")
	}
	return s
}

func symbolStringSummary(r *Run, cc *ssa.CallCommon, args []Val) (Val, error) {
	return VOpq{"SYM0"}, nil
}

func checkBodyLength(c *Ctx, p *Prog, rule string) (prodsTabStores map[string]map[string]string) {
	prodsTabStores = map[string]map[string]string{}
	ni := p.Func(lr1ItemsPkg, "NewItem")
	gp := p.Func(parserGenPkg, "getProdsTab")
	if ni == nil || gp == nil {
		c.Undecided(rule, "NewItem / getProdsTab", "function not found")
		return
	}
	gph := loopHeaders(gp)
	if len(gph) != 1 {
		c.Undecided(rule, "getProdsTab", "expected one loop")
		return
	}
	for _, empty := range []bool{true, false} {
		s0 := "x"
		if empty {
			s0 = "empty"
		}
		// NewItem: entry to the first loop or return
		reg := &Region{Fn: ni, Cuts: cutSet(loopHeaders(ni)...), Summaries: map[string]Summary{
			"invoke:SymbolString": symbolStringSummary,
			"*.getString":         pureSummary("getString"),
			"fmt.Sprintf":         SprintfSummary,
		}}
		w := &MapWorld{Strs: map[string]string{"SYM0": s0}, Ints: map[string]int64{"pos": 0, "len(*prod.Body.Symbols)": 3}}
		out := InterpretSafe(reg, w)
		lenItem := normProd(out.Stores["new:complit.Len"], "*prod.Body", "prod.Body")
		// getProdsTab loop body
		for _, sdt := range []bool{true, false} {
			reg2 := &Region{Fn: gp, Start: gph[0], Cuts: cutSet(gph[0]), PhiInputs: map[string]Val{"rangeindex": VSym{Name: "i"}},
				Summaries: map[string]Summary{
					"invoke:SymbolString": symbolStringSummary,
					"fmt.Sprintf":         SprintfSummary,
					"*.String":            pureSummary("String"),
					"*.NTType":            pureSummary("NTType"),
				},
				PreWorld: &MapWorld{Ints: map[string]int64{"len(prods)": 5}},
			}
			sl := int64(0)
			if sdt {
				sl = 7
			}
			w2 := &MapWorld{Strs: map[string]string{"SYM0": s0}, Ints: map[string]int64{"i": 1, "len(prods)": 5, "len(**prods[i+1].Body.SDT)": sl}}
			out2 := InterpretSafe(reg2, w2)
			name := fmt.Sprintf("getProdsTab loop body: first symbol %q, action given=%v", s0, sdt)
			if out2.Term == "undecided" {
				c.Undecided(rule, name, out2.Undecided, p.FnPos(gp))
				continue
			}
			st := map[string]string{}
			for k, v := range out2.Stores {
				if i := strings.LastIndex(k, "]."); i >= 0 {
					st[k[i+2:]] = normProd(v, "**prods[i+1].Body", "*prods[i+1]")
				}
			}
			prodsTabStores[fmt.Sprintf("%v/%v", empty, sdt)] = st
			wantLen := "len(PROD.Symbols)"
			if empty {
				wantLen = "0"
			}
			ok := out.Term != "undecided" && lenItem == wantLen && st["NumSymbols"] == wantLen
			c.Ob(rule, name, ok, fmt.Sprintf("lr1 NewItem sets Len=%s (%s %s); getProdsTab sets NumSymbols=%s; both must be %s (0 for an alternative whose first symbol is 'empty', else the number of body symbols) — what the automaton assumes is what the parser pops", lenItem, out.Term, out.Undecided, st["NumSymbols"], wantLen), p.FnPos(gp))
		}
	}
	return
}

// ---- R03.1: default actions ---------------------------------------------------------

func checkDefaultActions(c *Ctx, p *Prog, rule string, stores map[string]map[string]string) {
	for _, empty := range []bool{true, false} {
		for _, sdt := range []bool{true, false} {
			st, ok := stores[fmt.Sprintf("%v/%v", empty, sdt)]
			name := fmt.Sprintf("getProdsTab ReduceFunc: empty alternative=%v, action given=%v", empty, sdt)
			if !ok {
				c.Undecided(rule, name, "loop body not interpreted")
				continue
			}
			want := `"return X[0], nil"`
			switch {
			case sdt:
				want = `Sprintf("return %s"|string(PROD.SDT))`
			case empty:
				want = `"return nil, nil"`
			}
			c.Ob(rule, name, st["ReduceFunc"] == want, fmt.Sprintf("code emits %s, required %s (the user's action text if given; else nil for an empty alternative; else the first symbol's attribute)", st["ReduceFunc"], want))
		}
	}
}

// ---- R02.3: cell writers -------------------------------------------------------------

type cellWorld struct {
	kind      string
	conflicts bool
}

func checkCellWriters(c *Ctx, p *Prog, rule, ruleConf string) {
	fn := p.Func(parserGenPkg, "getActionRowData")
	if fn == nil {
		c.Undecided(rule, "getActionRowData", "function not found")
		return
	}
	hs := loopHeaders(fn)
	if len(hs) < 1 || len(hs) > 2 {
		c.Undecided(rule, "getActionRowData", fmt.Sprintf("expected the loop over the cells (and possibly one that measures their width before it), found %d loops", len(hs)))
		return
	}
	head := hs[len(hs)-1] // the cells are written by the last loop
	for _, kind := range actionKinds {
		for _, conf := range []bool{false, true} {
			var act Val
			T := actionType(p, kind)
			if kind == "Shift" || kind == "Reduce" {
				act = VIface{Dyn: T, V: VSym{Name: "a"}}
			} else {
				act = VIface{Dyn: T, V: VOpq{"true"}}
			}
			reg := &Region{Fn: fn, Start: head, Cuts: cutSet(hs...),
				PhiInputs: map[string]Val{"rangeindex": VSym{Name: "i"}},
				Summaries: map[string]Summary{
					"*.Action": func(r *Run, cc *ssa.CallCommon, args []Val) (Val, error) {
						r.Event("set.Action(%s)", render(args[1]))
						return VTuple{act, VOpq{"symConflicts"}}, nil
					},
					"*.CanRecover": pureSummary("CanRecover"),
					"*.nbytes":     func(r *Run, cc *ssa.CallCommon, args []Val) (Val, error) { return VSym{Name: "nbytes"}, nil },
					"fmt.Sprintf":  SprintfSummary,
				},
				PreWorld: &MapWorld{Ints: map[string]int64{"len(tokMap.TypeMap)": 0}},
			}
			nc := int64(0)
			if conf {
				nc = 2
			}
			w := &MapWorld{Ints: map[string]int64{"i": 1, "len(tokMap.TypeMap)": 9, "len(symConflicts)": nc, "max": 20, "nbytes": 1}}
			out := InterpretSafe(reg, w)
			name := fmt.Sprintf("getActionRowData cell: action %s, conflicts=%v", kind, conf)
			if out.Term == "undecided" {
				c.Undecided(rule, name, out.Undecided, p.FnPos(fn))
				continue
			}
			cell, cellKey := "", ""
			var maps []string
			asked := ""
			for _, e := range out.Events {
				switch {
				case strings.HasPrefix(e, "store ") && strings.Contains(e, "] = "):
					kv := strings.SplitN(strings.TrimPrefix(e, "store "), " = ", 2)
					cellKey, cell = kv[0], kv[1]
				case strings.HasPrefix(e, "mapupdate "):
					maps = append(maps, e)
				case strings.HasPrefix(e, "set.Action("):
					asked = e
				}
			}
			head0 := map[string]string{"Accept": `Sprintf("accept(true),%*c// %s"|`, "Error": `Sprintf("nil,%*c// %s"|`, "Reduce": `Sprintf("reduce(%d),%*c// %s, reduce: %s"|int(a)|`, "Shift": `Sprintf("shift(%d),%*c// %s"|int(a)|`}[kind]
			okCell := strings.HasPrefix(cell, head0) && strings.HasSuffix(cellKey, "[i+1]") && asked == "set.Action(tokMap.TypeMap[i+1])"
			c.Ob(rule, name, okCell, fmt.Sprintf("cell %s = %s for %s; required: column i+1 (the index of the symbol in the token map) receives a cell beginning %q for the action of that same symbol", cellKey, cell, asked, head0), p.FnPos(fn))
			wantMaps := ""
			if conf {
				wantMaps = "mapupdate map#1[tokMap.TypeMap[i+1]] = symConflicts"
			}
			c.Ob(ruleConf, name, strings.Join(maps, ";") == wantMaps, fmt.Sprintf("conflict map updates %v; required %q (a symbol is recorded as conflicting iff Action returned a non-empty conflict list)", maps, wantMaps), p.FnPos(fn))
		}
	}
}

func runC02(c *Ctx) {
	p := c.RepoProg()
	if !gmHealth(c, p, "R02.0") {
		return
	}
	checkItemAction(c, p, "R02.1")
	checkBodyLength(c, p, "R02.2")
	checkCellWriters(c, p, "R02.3", "R02.3c")
	checkGotoWriters(c, p, "R02.3")
	for _, d := range gmParserDirs {
		checkLRDriver(c, p, "R02.4", gmRoot+"/"+d, "*Parser.Parse", false)
		checkStackADT(c, p, "R02.4s", d)
	}
	checkAugment(c, p, "R02.5")
	checkFirstSteps(c, p, "R02.6")
	checkLR1Steps(c, p, "R02.7")
	checkItemSetOps(c, p, "R02.8")
	checkSymbolNamespace(c, p, "R02.9")
	checkItemIdentity(c, p, "R02.8")
	checkItemKeyInjective(c, p, "R02.8")
	c.Assumptions = append(c.Assumptions, "FIRST sets, LR(1) closure and goto (GetFirstSets, FirstS, Closure, Goto, GetItemSets) compute the canonical collection — NOT decided: they are worklist algorithms over unbounded item sets",
		"Parse terminates — NOT decided")
	c.Trusted = append(c.Trusted, "go/ssa", "checker/sx.go", "the generated model's placeholder tables")
	c.Explanation = "C02, partial: decided are the loop-free decisions between the item sets and the running parser. R02.1: Item.action implements Dragon-book Algorithm 4.56 plus gocc's INVALID column, in every world of (symbol, follow, production 0?, dot position, expected symbol). R02.2: the body length NewItem gives the automaton equals the NumSymbols the parser pops (0 for 'empty'). R02.3: each table writer renders Accept/Error/Reduce/Shift as accept(true)/nil/reduce(n)/shift(n) in the column of the symbol asked about; goto cells come from NextSetIndex over the nonterminal list whose index is NTType. R02.4: the generated Parse loop (all four debug/zip variants) is the LR driver: row = actionTab[top], column = look-ahead type; shift pushes and scans; reduce pops NumSymbols, calls the action, pushes goto[top-after-pop][NTType]; accept returns the remaining attribute; an empty cell goes to Error and returns a non-nil error unless recovered. R02.5: the grammar is augmented with S' : <first production> at index 0 and the initial item is [S' -> .S, end]. NOT decided: that the item sets are the canonical LR(1) collection for every grammar, and termination."
}

// ---- goto writers ------------------------------------------------------------------

func checkGotoWriters(c *Ctx, p *Prog, rule string) {
	fn := p.Func(parserGenPkg, "getGotoRowData")
	if fn == nil {
		c.Undecided(rule, "getGotoRowData", "function not found")
		return
	}
	hs := loopHeaders(fn)
	if len(hs) < 1 {
		c.Undecided(rule, "getGotoRowData", "no loop")
		return
	}
	reg := &Region{Fn: fn, Start: hs[0], Cuts: cutSet(hs...),
		PhiInputs: map[string]Val{"rangeindex": VSym{Name: "i"}, "max": VSym{Name: "max"}},
		Summaries: map[string]Summary{
			"*.NumNTSymbols": func(r *Run, cc *ssa.CallCommon, args []Val) (Val, error) { return VSym{Name: "NNT"}, nil },
			"*.NTList":       func(r *Run, cc *ssa.CallCommon, args []Val) (Val, error) { return VOpq{"NTList"}, nil },
			"*.NextSetIndex": func(r *Run, cc *ssa.CallCommon, args []Val) (Val, error) {
				return VSym{Name: "NextSetIndex(" + render(args[1]) + ")"}, nil
			},
			"*.nbytes": func(r *Run, cc *ssa.CallCommon, args []Val) (Val, error) { return VSym{Name: "nbytes"}, nil },
		},
	}
	w := &MapWorld{Ints: map[string]int64{"i": 1, "len(NTList)": 6, "nbytes": 2, "max": 1}}
	out := InterpretSafe(reg, w)
	st := map[string]string{}
	for k, v := range out.Stores {
		if i := strings.LastIndex(k, "["); i >= 0 {
			st[k[i:]] = v
		}
	}
	ok := out.Term != "undecided" && st["[i+1].State"] == "NextSetIndex(NTList[i+1])" && st["[i+1].NT"] == "NTList[i+1]"
	c.Ob(rule, "getGotoRowData cell", ok, fmt.Sprintf("stores %v %s; required: column i+1 = NextSetIndex of the (i+1)-th nonterminal of NTList (the list whose index NTType returns)", st, out.Undecided), p.FnPos(fn))
	// NTType indexes the same list NTList returns
	sy := p.Pkg("internal/parser/symbols")
	okIdx := false
	detail := ""
	if sy != nil {
		nt := p.Func("internal/parser/symbols", "*Symbols.NTType")
		nl := p.Func("internal/parser/symbols", "*Symbols.NTList")
		if nt != nil && nl != nil {
			f1 := fieldsLoaded(nt)
			f2 := fieldsLoaded(nl)
			okIdx = f1["ntIdMap"] && f2["ntTypeMap"]
			detail = fmt.Sprintf("NTType reads %v, NTList reads %v", keysOf(f1), keysOf(f2))
		}
	}
	// and NewSymbols fills both in one step
	ns := p.Func("internal/parser/symbols", "NewSymbols")
	okFill := false
	if ns != nil {
		okFill = ntMapsFilledTogether(ns)
	}
	c.Ob(rule, "NTType is the index in NTList", okIdx && okFill, detail+fmt.Sprintf("; NewSymbols appends to ntTypeMap and records len-1 in ntIdMap in the same block: %v", okFill))
}

func fieldsLoaded(fn *ssa.Function) map[string]bool {
	out := map[string]bool{}
	for _, b := range fn.Blocks {
		for _, in := range b.Instrs {
			if fa, ok := in.(*ssa.FieldAddr); ok {
				out[fieldVar(fa).Name()] = true
			}
		}
	}
	return out
}

func keysOf(m map[string]bool) []string {
	var out []string
	for k := range m {
		out = append(out, k)
	}
	sortStrings(out)
	return out
}

func sortStrings(s []string) {
	for i := 1; i < len(s); i++ {
		for j := i; j > 0 && s[j] < s[j-1]; j-- {
			s[j], s[j-1] = s[j-1], s[j]
		}
	}
}

// ntMapsFilledTogether: some block appends to field ntTypeMap and does a map
// update on ntIdMap whose value is len(ntTypeMap)-1.
func ntMapsFilledTogether(fn *ssa.Function) bool {
	for _, b := range fn.Blocks {
		app, upd := false, false
		for _, in := range b.Instrs {
			switch x := in.(type) {
			case *ssa.Call:
				if bi, ok := x.Call.Value.(*ssa.Builtin); ok && bi.Name() == "append" {
					if f := fieldOfLoad(x.Call.Args[0]); f != nil && f.Name() == "ntTypeMap" {
						app = true
					}
				}
			case *ssa.MapUpdate:
				if f := fieldOfLoad(x.Map); f != nil && f.Name() == "ntIdMap" {
					if bo, ok := x.Value.(*ssa.BinOp); ok && bo.Op.String() == "-" {
						if call, ok := bo.X.(*ssa.Call); ok {
							if bi, ok := call.Call.Value.(*ssa.Builtin); ok && bi.Name() == "len" {
								if f2 := fieldOfLoad(call.Call.Args[0]); f2 != nil && f2.Name() == "ntTypeMap" {
									upd = true
								}
							}
						}
					}
				}
			}
		}
		if app && upd {
			return true
		}
	}
	return false
}

// ---- R02.5: augmentation ---------------------------------------------------------------

func checkAugment(c *Ctx, p *Prog, rule string) {
	fn := p.Func("internal/ast", "*SyntaxPart.augment")
	if fn == nil {
		c.Undecided(rule, "SyntaxPart.augment", "function not found")
		return
	}
	// lists are followed by content: a literal or made slice is its elements, anything else is "...name"
	lists := map[string][]string{}
	contents := func(r *Run, v Val) []string {
		switch x := v.(type) {
		case VSlice:
			if c, ok := x.Len.(VConst); ok && c.V != nil && c.V.ExactString() == "0" {
				return nil
			}
		case VOpq:
			if l, ok := lists[x.Name]; ok {
				return l
			}
			if strings.HasPrefix(x.Name, "&") && strings.HasSuffix(x.Name, "[:]") {
				nm := x.Name[1 : len(x.Name)-3]
				for _, o := range r.objs {
					if o.Name != nm {
						continue
					}
					var l []string
					for i := 0; ; i++ {
						cv, ok := o.cells[fmt.Sprintf("[%d]", i)]
						if !ok {
							break
						}
						l = append(l, render(cv))
					}
					return l
				}
			}
		}
		return []string{"..." + render(v)}
	}
	var final []string
	reg := &Region{Fn: fn, Summaries: map[string]Summary{
		"builtin:append": func(r *Run, cc *ssa.CallCommon, args []Val) (Val, error) {
			l := append(append([]string{}, contents(r, args[0])...), contents(r, args[1])...)
			nm := fmt.Sprintf("LIST#%d", len(lists))
			lists[nm] = l
			final = l
			return VOpq{nm}, nil
		},
	}}
	out := InterpretSafe(reg, &MapWorld{})
	stores := out.Stores
	// the new production: Id "S'", body = [SyntaxProdId(first production's Id)]
	idOK, bodyOK, listOK := false, false, false
	newProd := ""
	for k, v := range stores {
		if strings.HasSuffix(k, ".Id") && v == `"S'"` {
			idOK = true
			newProd = "&" + strings.TrimSuffix(k, ".Id")
		}
		if strings.HasSuffix(k, "[0]") && strings.Contains(v, "SyntaxProdId") && strings.Contains(v, "this.ProdList[0]") {
			bodyOK = true
		}
		if strings.HasSuffix(k, ".ProdList") && strings.HasPrefix(v, "LIST#") && fmt.Sprint(lists[v]) == fmt.Sprint(final) {
			listOK = true
		}
	}
	appOK := len(final) == 2 && final[0] == newProd && (final[1] == "...this.ProdList" || final[1] == "...*this.ProdList")
	c.Ob(rule, "SyntaxPart.augment", out.Term == "return" && idOK && bodyOK && listOK && appOK,
		fmt.Sprintf("term=%s %s stores=%v list=%v; required: a production S' whose body is the id of the first production, placed in front of the unchanged production list", out.Term, out.Undecided, stores, final), p.FnPos(fn))
	// InitialItemSet: item of production 0 at position 0 with follow = end marker
	is := p.Func(lr1ItemsPkg, "InitialItemSet")
	if is == nil {
		c.Undecided(rule, "InitialItemSet", "function not found")
		return
	}
	var items []string
	reg = &Region{Fn: is, Summaries: map[string]Summary{
		"*.NewItemSet": func(r *Run, cc *ssa.CallCommon, args []Val) (Val, error) {
			o := r.NewObj("set", false)
			return VPtr{o, ""}, nil
		},
		"*.NewItem": func(r *Run, cc *ssa.CallCommon, args []Val) (Val, error) {
			items = append(items, fmt.Sprintf("NewItem(%s,%s,%s,%s)", render(args[0]), render(args[1]), render(args[2]), render(args[3])))
			return VOpq{"item0"}, nil
		},
		"*.AddItem": func(r *Run, cc *ssa.CallCommon, args []Val) (Val, error) {
			items = append(items, "AddItem("+strings.Join(r.VarargElems(args[1]), ",")+")")
			return VTuple{}, nil
		},
	}}
	out = InterpretSafe(reg, &MapWorld{})
	got := strings.Join(items, "; ")
	want := `NewItem(0,&**g.SyntaxPart.ProdList[0],0,"␚"); AddItem(item0)`
	c.Ob(rule, "InitialItemSet", out.Term == "return" && got == want, fmt.Sprintf("got [%s] %s; required [%s]", got, out.Undecided, want), p.FnPos(is))
	_ = types.Typ
}
