package main

import (
	"fmt"
	"go/token"
	"go/types"
	"strings"
	"unicode"

	"golang.org/x/tools/go/ssa"
)

func init() { register("C14", "other", runC14) }

// generatorCalls: calls in fn to functions of the */gen* packages (the points
// after which gocc has started to produce output).
func generatorCalls(fn *ssa.Function) []*ssa.Call {
	var out []*ssa.Call
	for _, b := range fn.Blocks {
		for _, in := range b.Instrs {
			if call, ok := in.(*ssa.Call); ok {
				if f := call.Call.StaticCallee(); f != nil && f.Pkg != nil && strings.Contains(f.Pkg.Pkg.Path(), "/gen") {
					out = append(out, call)
				}
			}
		}
	}
	return out
}

// exitGuard describes `if <cond derived from v> { ...; os.Exit(nonzero) }`.
// It returns the guarding branch if one exists whose controlled region holds a
// call to os.Exit with a non-zero constant.
func exitGuardOn(fn *ssa.Function, derives func(cond ssa.Value) bool) *ssa.If {
	pd := postDominators(fn)
	for _, b := range fn.Blocks {
		iff, ok := b.Instrs[len(b.Instrs)-1].(*ssa.If)
		if !ok || !derives(iff.Cond) {
			continue
		}
		for _, x := range fn.Blocks {
			dep := false
			for _, s := range b.Succs {
				if pd[s.Index][x.Index] && !pd[b.Index][x.Index] {
					dep = true
				}
			}
			if !dep {
				continue
			}
			for _, in := range x.Instrs {
				if call, ok := in.(*ssa.Call); ok {
					if f := call.Call.StaticCallee(); f != nil && f.String() == "os.Exit" {
						if k, ok := call.Call.Args[0].(*ssa.Const); ok && k.Value != nil && k.Int64() != 0 {
							return iff
						}
					}
				}
			}
		}
	}
	return nil
}

// sliceOf: v's backward slice within its function (through arithmetic,
// comparisons, extracts, loads) contains a value satisfying pred.
func sliceHas(v ssa.Value, pred func(ssa.Value) bool, depth int, seen map[ssa.Value]bool) bool {
	if v == nil || seen[v] || depth > 8 {
		return false
	}
	seen[v] = true
	if pred(v) {
		return true
	}
	switch x := v.(type) {
	case *ssa.BinOp:
		return sliceHas(x.X, pred, depth+1, seen) || sliceHas(x.Y, pred, depth+1, seen)
	case *ssa.UnOp:
		return sliceHas(x.X, pred, depth+1, seen)
	case *ssa.Extract:
		return sliceHas(x.Tuple, pred, depth+1, seen)
	case *ssa.Phi:
		for _, e := range x.Edges {
			if sliceHas(e, pred, depth+1, seen) {
				return true
			}
		}
	case *ssa.ChangeType:
		return sliceHas(x.X, pred, depth+1, seen)
	case *ssa.Convert:
		return sliceHas(x.X, pred, depth+1, seen)
	case *ssa.MakeInterface:
		return sliceHas(x.X, pred, depth+1, seen)
	}
	return false
}

func dominatesAll(iff *ssa.If, calls []*ssa.Call) bool {
	for _, c := range calls {
		if !iff.Block().Dominates(c.Block()) {
			return false
		}
	}
	return true
}

func checkMainRejects(c *Ctx, p *Prog) {
	mainFn := p.Func("", "main")
	if mainFn == nil {
		c.Undecided("R14.3", "main.main", "function not found")
		return
	}
	if mainTableDecided(p) {
		// main as a transfer table (cmain.go): every failing stage ends in a non-zero exit before any generator
		checkMainTable(c, p, "R14.3", "errors")
		if ef := p.Func("internal/frontend/scanner", "*Scanner.error"); ef != nil {
			st := recvFieldStores(ef)
			_, ok := st["ErrorCount"]
			c.Ob("R14.2", "Scanner.error counts", ok, "Scanner.error must increment ErrorCount", p.FnPos(ef))
		}
		crd := p.Func("internal/ast", "*LexPart.CheckRegDefs")
		c.Ob("R14.5", "the check main runs before generating looks at every reference to a regular definition", crd != nil && inspectsRegDefIds(p, crd, 0, map[*ssa.Function]bool{}), "LexPart.CheckRegDefs (the stage whose error ends main in the table) must visit every *ast.LexRegDefId and test it against the definitions (witness for the old code: `_x : _y ; a : 'a' ;` exited 0)")
		return
	}
	gens := generatorCalls(mainFn)
	if len(gens) < 4 {
		c.Undecided("R14.3", "main.main: generator calls", fmt.Sprintf("only %d calls into */gen* packages found (4 confirmed by hand)", len(gens)))
	}
	// the Parse call
	var parse *ssa.Call
	for _, b := range mainFn.Blocks {
		for _, in := range b.Instrs {
			if call, ok := in.(*ssa.Call); ok {
				if f := call.Call.StaticCallee(); f != nil && f.Name() == "Parse" && strings.HasSuffix(f.Pkg.Pkg.Path(), "frontend/parser") {
					parse = call
				}
			}
		}
	}
	if parse == nil {
		c.Undecided("R14.3", "main.main: parser.Parse", "call not found")
		return
	}
	// R14.3: parse error -> exit before any generator
	g1 := exitGuardOn(mainFn, func(cond ssa.Value) bool {
		return sliceHas(cond, func(v ssa.Value) bool {
			e, ok := v.(*ssa.Extract)
			return ok && e.Tuple == ssa.Value(parse) && e.Index == 1
		}, 0, map[ssa.Value]bool{})
	})
	c.Ob("R14.3", "main: a parse error ends in a non-zero exit before anything is generated", g1 != nil && dominatesAll(g1, gens), "the error returned by the front-end Parse must lead to os.Exit(non-zero) on a branch that dominates every generator call", p.Pos(parse.Pos()))
	// R14.2: scanner errors are consumed
	g2 := exitGuardOn(mainFn, func(cond ssa.Value) bool {
		return sliceHas(cond, func(v ssa.Value) bool {
			u, ok := v.(*ssa.UnOp)
			if !ok || u.Op != token.MUL {
				return false
			}
			fa, ok := u.X.(*ssa.FieldAddr)
			return ok && fieldVar(fa).Name() == "ErrorCount"
		}, 0, map[ssa.Value]bool{})
	})
	okOrder := g2 != nil && dominatesAll(g2, gens) && parse.Block().Dominates(g2.Block())
	c.Ob("R14.2", "main: lexical errors counted by the scanner end in a non-zero exit", okOrder, "Scanner.ErrorCount (unterminated comment/literal, bad escape, illegal character, malformed UTF-8) must be read after Parse, on a branch that leads to os.Exit(non-zero) and dominates every generator call (witness for the old code: `a : 'a' ; /* unterminated` exited 0)", p.Pos(parse.Pos()))
	// the scanner does count
	if ef := p.Func("internal/frontend/scanner", "*Scanner.error"); ef != nil {
		st := recvFieldStores(ef)
		_, ok := st["ErrorCount"]
		c.Ob("R14.2", "Scanner.error counts", ok, "Scanner.error must increment ErrorCount", p.FnPos(ef))
	}
	// R14.5: undefined regular definitions
	g3 := exitGuardOn(mainFn, func(cond ssa.Value) bool {
		return sliceHas(cond, func(v ssa.Value) bool {
			call, ok := v.(*ssa.Call)
			if !ok {
				return false
			}
			f := call.Call.StaticCallee()
			return f != nil && p.IsModFn(f) && inspectsRegDefIds(p, f, 0, map[*ssa.Function]bool{})
		}, 0, map[ssa.Value]bool{})
	})
	c.Ob("R14.5", "main: undefined regular definitions are rejected before generation", g3 != nil && dominatesAll(g3, gens), "some call whose error leads to os.Exit(non-zero) before every generator must look at every *ast.LexRegDefId and test it against the definitions (witness for the old code: `_x : _y ; a : 'a' ;` exited 0)")
}

// inspectsRegDefIds: f (or what it calls inside package ast, three levels deep)
// asserts *ast.LexRegDefId and looks the id up in a map of definitions.
func inspectsRegDefIds(p *Prog, f *ssa.Function, depth int, seen map[*ssa.Function]bool) bool {
	if f == nil || seen[f] || depth > 3 || f.Blocks == nil {
		return false
	}
	seen[f] = true
	asserts, looks := false, false
	var callees []*ssa.Function
	for _, b := range f.Blocks {
		for _, in := range b.Instrs {
			switch x := in.(type) {
			case *ssa.TypeAssert:
				if isNamed(x.AssertedType, gomod+"/internal/ast", "LexRegDefId") {
					asserts = true
				}
			case *ssa.Lookup:
				if _, ok := x.X.Type().Underlying().(*types.Map); ok {
					if fld := fieldOfLoad(x.X); fld != nil && (fld.Name() == "RegDefs" || fld.Name() == "idMap") {
						looks = true
					}
				}
			case *ssa.Call:
				if g := x.Call.StaticCallee(); g != nil && p.IsModFn(g) {
					callees = append(callees, g)
				}
				{
					// visitor dispatch inside package ast: the Visit methods of visitors handed over
					for _, a := range append([]ssa.Value{x.Call.Value}, x.Call.Args...) {
						if mi, ok := a.(*ssa.MakeInterface); ok {
							ms := p.SSA.MethodSets.MethodSet(mi.X.Type())
							for i := 0; i < ms.Len(); i++ {
								if ms.At(i).Obj().Name() == "Visit" {
									if g := p.SSA.MethodValue(ms.At(i)); g != nil {
										callees = append(callees, g)
									}
								}
							}
						}
					}
				}
			}
		}
	}
	if asserts && looks {
		return true
	}
	for _, g := range callees {
		if inspectsRegDefIds(p, g, depth+1, seen) {
			return true
		}
	}
	return false
}

func checkSemanticRejections(c *Ctx, p *Prog) {
	// NewGrammar returns consistent(g)'s verdict
	if ng := p.Func("internal/ast", "NewGrammar"); ng != nil {
		for _, lex := range []bool{true, false} {
			reg := &Region{Fn: ng, Summaries: map[string]Summary{
				"*.consistent": func(r *Run, cc *ssa.CallCommon, args []Val) (Val, error) {
					return VIface{Dyn: errorType(), V: VOpq{"VERDICT"}}, nil
				},
				"*.NewLexPart": func(r *Run, cc *ssa.CallCommon, args []Val) (Val, error) {
					o := r.NewObj("emptylex", false)
					return VTuple{VPtr{o, ""}, VIface{}}, nil
				},
				"*.augment": func(r *Run, cc *ssa.CallCommon, args []Val) (Val, error) {
					o := r.NewObj("augmented", false)
					return VPtr{o, ""}, nil
				},
			}}
			reg.Prepare = func(r *Run) {
				reg.Params = map[string]Val{"lexPart": VIface{}, "syntaxPart": VIface{Dyn: typesPointerTo(p, "internal/ast", "SyntaxPart"), V: VPtr{r.NewObj("sp", false), ""}}}
				if lex {
					reg.Params["lexPart"] = VIface{Dyn: typesPointerTo(p, "internal/ast", "LexPart"), V: VPtr{r.NewObj("lp", false), ""}}
				}
			}
			out := InterpretSafe(reg, &MapWorld{})
			ok := out.Term == "return" && len(out.Results) == 2 && out.Results[1] == "error(VERDICT)"
			c.Ob("R14.4", fmt.Sprintf("NewGrammar returns the consistency verdict (lexical part given=%v)", lex), ok, fmt.Sprintf("results %v %s", out.Results, out.Undecided), p.FnPos(ng))
		}
	}
	// consistent: an alternative with no symbols is an error
	cf := p.Func("internal/ast", "consistent")
	if cf == nil {
		c.Undecided("R14.4", "ast.consistent", "function not found")
	} else {
		hs := loopHeaders(cf)
		if len(hs) != 5 {
			c.Undecided("R14.4", "ast.consistent", fmt.Sprintf("expected 5 loops (token defs, productions, symbols, defined, used), found %d", len(hs)))
		} else {
			// loop over productions is the second
			for _, empty := range []bool{true, false} {
				reg := &Region{Fn: cf, Start: hs[1], Cuts: cutSet(hs...), PhiInputs: map[string]Val{"rangeindex": VSym{Name: "i"}},
					PreWorld: &MapWorld{IntFn: func(n string) (int64, bool) { return 0, strings.HasPrefix(n, "len(") }},
					Summaries: map[string]Summary{
						"fmt.Errorf": func(r *Run, cc *ssa.CallCommon, args []Val) (Val, error) {
							return VIface{Dyn: errorType(), V: VOpq{"EMPTYALT"}}, nil
						},
						"invoke:String": pureSummary("String"),
						"*.String":      pureSummary("String"),
					}}
				n := int64(2)
				if empty {
					n = 0
				}
				w := &MapWorld{Ints: map[string]int64{"i": 0}, IntFn: func(name string) (int64, bool) {
					if strings.Contains(name, "Body.Symbols") {
						return n, true
					}
					return 3, strings.HasPrefix(name, "len(")
				}}
				out := InterpretSafe(reg, w)
				var ok bool
				if empty {
					ok = out.Term == "return" && len(out.Results) == 1 && out.Results[0] == "error(EMPTYALT)"
				} else {
					ok = strings.HasPrefix(out.Term, "cut:")
				}
				c.Ob("R14.4", fmt.Sprintf("consistent: alternative with no symbols=%v", empty), ok, fmt.Sprintf("term=%s results=%v %s; required: an alternative left empty without the keyword is an error", out.Term, out.Results, out.Undecided), p.FnPos(cf))
			}
			// loop over the symbols of one alternative (the third): the reserved words in the wrong place
			for _, wd := range []struct {
				name      string
				spelling  string
				idx, nsym int64
				wantErr   bool
			}{
				{"empty as the whole alternative", "empty", 0, 1, false},
				{"empty in front of other symbols", "empty", 0, 3, true},
				{"empty after other symbols", "empty", 1, 2, true},
				{"error as the first symbol", "error", 0, 2, false},
				{"error after another symbol", "error", 1, 3, true},
				{"an ordinary symbol", "num", 1, 3, false},
				{"a string literal spelled empty", "\"empty\"", 1, 3, false},
			} {
				reg := &Region{Fn: cf, Start: hs[2], Cuts: cutSet(hs...), PhiInputs: map[string]Val{"rangeindex": VSym{Name: "k"}},
					PreWorld: &MapWorld{IntFn: func(n string) (int64, bool) { return 2, strings.HasPrefix(n, "len(") }, AtomFn: func(k string) (bool, bool) { return false, true },
						Strs: map[string]string{"SYMSTR": "zz"}, Ints: map[string]int64{"SYMSTR[0]": 'z'}},
					Summaries: map[string]Summary{
						"fmt.Errorf": func(r *Run, cc *ssa.CallCommon, args []Val) (Val, error) {
							return VIface{Dyn: errorType(), V: VOpq{"MISPLACED"}}, nil
						},
						"invoke:String":  func(r *Run, cc *ssa.CallCommon, args []Val) (Val, error) { return VOpq{"SYMSTR"}, nil },
						"*.String":       func(r *Run, cc *ssa.CallCommon, args []Val) (Val, error) { return VOpq{"SYMSTR"}, nil },
						"builtin:append": func(r *Run, cc *ssa.CallCommon, args []Val) (Val, error) { return VOpq{"appended"}, nil },
					},
					LookupVal: func(r *Run, m, k Val, t types.Type) (Val, Val) { return VOpq{"lookup"}, boolConst(false) },
				}
				w := &MapWorld{Ints: map[string]int64{"k": wd.idx - 1, "SYMSTR[0]": int64(wd.spelling[0])}, Strs: map[string]string{"SYMSTR": wd.spelling},
					IntFn: func(name string) (int64, bool) {
						if strings.Contains(name, "Body.Symbols") {
							return wd.nsym, true
						}
						return 3, strings.HasPrefix(name, "len(")
					}}
				out := InterpretSafe(reg, w)
				var ok bool
				if wd.wantErr {
					ok = out.Term == "return" && len(out.Results) == 1 && out.Results[0] == "error(MISPLACED)"
				} else {
					ok = strings.HasPrefix(out.Term, "cut:")
				}
				stepOb(c, out, "R14.6", "consistent: "+wd.name, ok, fmt.Sprintf("term=%s results=%v %s; required: spec/gocc2.ebnf allows empty only as a whole alternative and error only as its first symbol; elsewhere the rest of the alternative would be dropped (empty) or a terminal nobody produces would be created", out.Term, out.Results, out.Undecided), p.FnPos(cf))
			}
			// loop over used symbols (the fourth)
			for _, wd := range []struct {
				name    string
				defined bool
				sym     string
				first   int64
				wantErr bool
			}{{"undefined production name", false, "Expr", 'E', true}, {"undefined production name beginning with a non-ASCII capital", false, "Éxpr", 0xc3, true}, {"undefined lower-case symbol", false, "tok", 't', false}, {"defined symbol", true, "Expr", 'E', false}, {"keyword empty", false, "empty", 'e', false}, {"keyword error", false, "error", 'e', false}} {
				reg := &Region{Fn: cf, Start: hs[4], Cuts: cutSet(hs...), PhiInputs: map[string]Val{"err": VIface{}},
					PreWorld: &MapWorld{IntFn: func(n string) (int64, bool) { return 0, strings.HasPrefix(n, "len(") }, AtomFn: func(k string) (bool, bool) { return false, strings.HasPrefix(k, "more ") }},
					Summaries: map[string]Summary{
						"fmt.Fprintf": func(r *Run, cc *ssa.CallCommon, args []Val) (Val, error) {
							return VTuple{VSym{Name: "n"}, VConst{}}, nil
						},
						"*.DecodeRuneInString": func(r *Run, cc *ssa.CallCommon, args []Val) (Val, error) {
							return VTuple{VSym{Name: "FIRSTRUNE"}, intConst(1)}, nil
						},
						// the scanner classifies a name as a production name with unicode.IsUpper of its first character
						"*.IsUpper": func(r *Run, cc *ssa.CallCommon, args []Val) (Val, error) {
							return boolConst(unicode.IsUpper([]rune(wd.sym)[0])), nil
						},
					},
					LookupVal: func(r *Run, m, k Val, t types.Type) (Val, Val) {
						return VOpq{"lookup"}, boolConst(wd.defined)
					},
				}
				w := &MapWorld{AtomFn: func(k string) (bool, bool) { return true, strings.HasPrefix(k, "more ") },
					IntFn: func(name string) (int64, bool) { return wd.first, strings.HasSuffix(name, "[0]") },
				}
				w.Strs = map[string]string{}
				// the range key of the used-map
				w.AtomFn = func(k string) (bool, bool) {
					if strings.HasPrefix(k, "more ") {
						return true, true
					}
					if strings.Contains(k, `"empty" ==`) || strings.Contains(k, `== "empty"`) {
						return wd.sym == "empty", true
					}
					if strings.Contains(k, `"error" ==`) || strings.Contains(k, `== "error"`) {
						return wd.sym == "error", true
					}
					return false, false
				}
				out := InterpretSafe(reg, w)
				gotErr := out.NextPhi["err"]
				ok := strings.HasPrefix(out.Term, "cut:") && ((wd.wantErr && strings.Contains(gotErr, "errUndefined")) || (!wd.wantErr && gotErr == "nil"))
				c.Ob("R14.4", "consistent: "+wd.name, ok, fmt.Sprintf("term=%s err=%q %s; required: an undefined symbol spelled like a production name makes the grammar inconsistent", out.Term, gotErr, out.Undecided), p.FnPos(cf))
			}
		}
	}
	// duplicates: the production map panics, the lexical part returns an error
	if add := p.Func("internal/ast", "*LexProdMap.Add"); add != nil {
		hs := loopHeaders(add)
		if len(hs) == 1 {
			for _, dup := range []bool{true, false} {
				reg := &Region{Fn: add, Start: hs[0], Cuts: cutSet(hs[0]), PhiInputs: map[string]Val{"rangeindex": VSym{Name: "i"}},
					Summaries: map[string]Summary{"invoke:Id": pureSummary("Id"), "fmt.Sprintf": SprintfSummary},
					LookupVal: func(r *Run, m, k Val, t types.Type) (Val, Val) { return VSym{Name: "idx"}, boolConst(dup) }}
				out := InterpretSafe(reg, &MapWorld{Ints: map[string]int64{"i": 0, "len(prods)": 3, "len(this.idxMap)": 4}})
				ok := (dup && out.Term == "panic") || (!dup && strings.HasPrefix(out.Term, "cut:"))
				c.Ob("R14.4", fmt.Sprintf("LexProdMap.Add: id already defined=%v", dup), ok, fmt.Sprintf("term=%s %s; required: defining a token, ignored token or regular definition twice is refused", out.Term, out.Undecided), p.FnPos(add))
			}
		}
	}
	if nl := p.Func("internal/ast", "NewLexPart"); nl != nil {
		hs := loopHeaders(nl)
		if len(hs) >= 1 {
			for _, ty := range []string{"LexTokDef", "LexRegDef", "LexIgnoredTokDef"} {
				for _, dup := range []bool{true, false} {
					reg := &Region{Fn: nl, Start: hs[0], Cuts: cutSet(hs...), PhiInputs: map[string]Val{"rangeindex": VSym{Name: "i"}},
						PreWorld: &MapWorld{IntFn: func(n string) (int64, bool) { return 1, strings.HasPrefix(n, "len(") }},
						Summaries: map[string]Summary{
							"invoke:Id": pureSummary("Id"),
							"*.Id":      pureSummary("Id"),
							"fmt.Errorf": func(r *Run, cc *ssa.CallCommon, args []Val) (Val, error) {
								return VIface{Dyn: errorType(), V: VOpq{"DUP"}}, nil
							},
							"*.NewLexProdMap": func(r *Run, cc *ssa.CallCommon, args []Val) (Val, error) { return VPtr{r.NewObj("pm", false), ""}, nil },
							"*.newLexImports": func(r *Run, cc *ssa.CallCommon, args []Val) (Val, error) {
								return VPtr{r.NewObj("imps", false), ""}, nil
							},
							"builtin:append": func(r *Run, cc *ssa.CallCommon, args []Val) (Val, error) { return VOpq{"APP"}, nil },
						},
						LookupVal: func(r *Run, m, k Val, t types.Type) (Val, Val) { return VOpq{"old"}, boolConst(dup) },
						Lazy: func(o *Obj, path string, t types.Type) Val {
							if strings.HasSuffix(path, "[i+1]") && strings.Contains(o.Name, "Productions") {
								return VIface{Dyn: typesPointerTo(p, "internal/ast", ty), V: VPtr{newObj("prod", false), ""}}
							}
							return nil
						},
					}
					reg.Prepare = func(r *Run) {
						reg.Params = map[string]Val{"header": VIface{}, "imports": VIface{}, "prodList": VIface{Dyn: typesPointerTo(p, "internal/ast", "LexProductions"), V: VPtr{r.NewObj("pl", false), ""}}}
					}
					out := InterpretSafe(reg, &MapWorld{Ints: map[string]int64{"i": 0}, IntFn: func(n string) (int64, bool) { return 3, strings.HasPrefix(n, "len(") }})
					var ok bool
					if dup {
						ok = out.Term == "return" && len(out.Results) == 2 && out.Results[1] == "error(DUP)"
					} else {
						ok = strings.HasPrefix(out.Term, "cut:")
					}
					c.Ob("R14.4", fmt.Sprintf("NewLexPart: %s defined twice=%v", ty, dup), ok, fmt.Sprintf("term=%s results=%v %s; required: a duplicate definition is an error", out.Term, out.Results, out.Undecided), p.FnPos(nl))
				}
			}
		}
	}
	// LexPart.Production / ProdIndex on an unknown id
	for _, m := range []string{"*LexPart.Production", "*LexPart.ProdIndex"} {
		if f := p.Func("internal/ast", m); f != nil {
			reg := &Region{Fn: f, Summaries: map[string]Summary{"fmt.Sprintf": SprintfSummary},
				LookupVal: func(r *Run, mm, k Val, t types.Type) (Val, Val) { return VSym{Name: "idx"}, boolConst(false) }}
			out := InterpretSafe(reg, &MapWorld{})
			c.Ob("R14.4", strings.TrimPrefix(m, "*")+": unknown id", out.Term == "panic", fmt.Sprintf("term=%s %s; required: an unknown production id is refused", out.Term, out.Undecided), p.FnPos(f))
		}
	}
}

func runC14(c *Ctx) {
	p := c.RepoProg()
	T, err := readFrontEndTables(p)
	if err != nil {
		c.Undecided("R14.1", "tables.go", err.Error())
	} else {
		checkFrontEndRecoveryInert(c, p, T, "R14.1")
	}
	checkMainRejects(c, p)
	checkSemanticRejections(c, p)
	checkLRDriver(c, p, "R14.3d", "internal/frontend/parser", "*Parser.Parse", true)
	checkScanIdentifier(c, p, "R14.7")
	c.Assumptions = append(c.Assumptions, "that the front-end tables reject every token-level mutation is C15's language equality plus R14.1",
		"NOT decided: the hand-written scanner's classification of every byte sequence (only that the errors it counts are consumed)")
	c.Trusted = append(c.Trusted, "go/ssa", "checker/sx.go", "post-dominator based control dependence")
	c.Explanation = "C14, partial: decided is that no detected problem is swallowed. R14.1: the front end's error recovery is inert (the error token is shifted only in recovery states, of which the gocc grammar has none), so nothing is skipped to make the rest parse. R14.2: the scanner's error count is read in main after Parse on a branch to a non-zero exit that dominates every generator call. R14.3: the error of the front-end Parse leads to a non-zero exit before any generator; the driver returns a non-nil error when an AST constructor does. R14.4: NewGrammar returns consistent()'s verdict; an alternative without symbols, an undefined production name, a duplicate token / ignored token / regular definition and an unknown production id are errors or panics. R14.5: a call that inspects every regular-definition reference against the definitions guards generation. NOT decided: that the token-level language is exactly the documented one (C15)."
}

// R14.7: identifiers (user guide: _id_char is a letter, a digit or '_'; an ignored token id is '!' followed by a
// token id). '!' is not an identifier character: it may only come first, and a letter must follow.
func checkScanIdentifier(c *Ctx, p *Prog, rule string) {
	fn := p.Func("internal/frontend/scanner", "*Scanner.scanIdentifier")
	if fn == nil {
		c.Undecided(rule, "scanner scanIdentifier", "function not found")
		return
	}
	hs := loopHeaders(fn)
	if len(hs) != 1 {
		c.Undecided(rule, "scanner scanIdentifier", "expected one loop", p.FnPos(fn))
		return
	}
	recv := fn.Params[0].Name()
	mk := func(chs []int64) (*Region, *MapWorld) {
		n := 0
		ints := map[string]int64{}
		for i, v := range chs {
			ints[fmt.Sprintf("CH%d", i)] = v
		}
		letter := func(v int64) bool { return v == '_' || (v >= 'a' && v <= 'z') || (v >= 'A' && v <= 'Z') }
		cur := func() int64 {
			if n < len(chs) {
				return chs[n]
			}
			return -1
		}
		reg := &Region{Fn: fn, Cuts: cutSet(hs[0]), Summaries: map[string]Summary{
			"*.next": func(r *Run, cc *ssa.CallCommon, args []Val) (Val, error) {
				n++
				r.Event("consume")
				r.SetCell(recv, ".ch", intConst(cur()))
				return VTuple{}, nil
			},
			"*.error":    func(r *Run, cc *ssa.CallCommon, args []Val) (Val, error) { r.Event("error"); return VTuple{}, nil },
			"*.isLetter": func(r *Run, cc *ssa.CallCommon, args []Val) (Val, error) { return boolConst(letter(cur())), nil },
			"*.isDigit": func(r *Run, cc *ssa.CallCommon, args []Val) (Val, error) {
				v := cur()
				return boolConst(v >= '0' && v <= '9'), nil
			},
		}, Lazy: func(o *Obj, path string, t types.Type) Val {
			if o.Name == recv && path == ".ch" {
				return intConst(cur())
			}
			return nil
		}}
		return reg, &MapWorld{Ints: ints}
	}
	// entry up to the loop
	for _, wd := range []struct {
		name string
		chs  []int64
		want string
	}{
		{"a letter first", []int64{'a', 'b'}, ""},
		{"'!' followed by a letter", []int64{'!', 'w'}, "consume"},
		{"'!' followed by something else", []int64{'!', ' '}, "consume; error"},
		{"'!' followed by '!'", []int64{'!', '!'}, "consume; error"},
	} {
		reg, w := mk(wd.chs)
		out := InterpretSafe(reg, w)
		got := evs(out, "consume", "error")
		stepOb(c, out, rule, "scanIdentifier start: "+wd.name, termOf(out) == "cut" && got == wd.want, fmt.Sprintf("%s events=[%s] %s; required [%s] — an ignored token id is '!' followed by a token id", termOf(out), got, out.Undecided, wd.want), p.FnPos(fn))
	}
	// one round of the loop
	for _, wd := range []struct {
		name string
		ch   int64
		stay bool
	}{{"a letter", 'x', true}, {"a digit", '7', true}, {"an underscore", '_', true}, {"'!'", '!', false}, {"a space", ' ', false}, {"end of input", -1, false}} {
		reg, w := mk([]int64{'a', wd.ch, 'z'})
		reg.Start = hs[0]
		reg.PreWorld = &MapWorld{}
		cnt := 0
		inner := reg.Summaries["*.next"]
		reg.Summaries["*.next"] = func(r *Run, cc *ssa.CallCommon, args []Val) (Val, error) { cnt++; return inner(r, cc, args) }
		reg.AtStart = func(r *Run, fr *frame) { cnt = 0 }
		// bring the scanner to the second character before the round starts: the prologue sees 'a' and does not consume
		reg.AtStart = func(r *Run, fr *frame) { cnt = 0; r.SetCell(recv, ".ch", intConst(wd.ch)) }
		reg.Summaries["*.isLetter"] = func(r *Run, cc *ssa.CallCommon, args []Val) (Val, error) {
			v, _ := constInt64(args[0])
			return boolConst(v == '_' || (v >= 'a' && v <= 'z') || (v >= 'A' && v <= 'Z')), nil
		}
		reg.Summaries["*.isDigit"] = func(r *Run, cc *ssa.CallCommon, args []Val) (Val, error) {
			v, _ := constInt64(args[0])
			return boolConst(v >= '0' && v <= '9'), nil
		}
		reg.Summaries["*.Type"] = func(r *Run, cc *ssa.CallCommon, args []Val) (Val, error) { return VSym{Name: "TOKTYPE"}, nil }
		cuts := cutSet(hs[0])
		loop := naturalLoop(hs[0])
		for b := range loop {
			for _, s := range b.Succs {
				if !loop[s] {
					cuts[s] = true
				}
			}
		}
		reg.Cuts = cuts
		out := InterpretSafe(reg, w)
		stayed := out.CutBlock == hs[0]
		stepOb(c, out, rule, "scanIdentifier continues over "+wd.name, strings.HasPrefix(out.Term, "cut:") && stayed == wd.stay && (!stayed || cnt == 1), fmt.Sprintf("%s stays in the identifier=%v consumed=%d %s; required stays=%v", termOf(out), stayed, cnt, out.Undecided, wd.stay), p.FnPos(fn))
	}
}
