package main

// R02.4s — the parse stack of the generated parser is a stack. The driver rule (R02.4) treats push / top / popN as
// the abstract operations of an LR stack; this rule is what entitles it to: each method is interpreted on a
// symbolic stack and its effect compared with the abstract operation, and every field that an observer reads is
// written by every mutator (a cached value cannot go stale).

import (
	"fmt"
	"go/token"
	"sort"
	"strings"

	"golang.org/x/tools/go/ssa"
)

func stackFieldUse(fn *ssa.Function) (reads, writes map[string]bool) {
	reads, writes = map[string]bool{}, map[string]bool{}
	if fn == nil || len(fn.Params) == 0 {
		return
	}
	recv := fn.Params[0]
	for _, b := range fn.Blocks {
		for _, in := range b.Instrs {
			fa, ok := in.(*ssa.FieldAddr)
			if !ok || fa.X != ssa.Value(recv) {
				continue
			}
			name := fieldVar(fa).Name()
			for _, ref := range *fa.Referrers() {
				switch r := ref.(type) {
				case *ssa.Store:
					if r.Addr == ssa.Value(fa) {
						writes[name] = true
					} else {
						reads[name] = true
					}
				case *ssa.UnOp:
					if r.Op == token.MUL {
						reads[name] = true
					}
				default:
					reads[name] = true
					writes[name] = true // the address escapes: anything may happen
				}
			}
		}
	}
	return
}

func checkStackADT(c *Ctx, p *Prog, rule, dir string) {
	pkg := gmRoot + "/" + dir
	get := func(n string) *ssa.Function { return p.Func(pkg, "*stack."+n) }
	names := []string{"reset", "push", "top", "peek", "topIndex", "popN"}
	fns := map[string]*ssa.Function{}
	for _, n := range names {
		fns[n] = get(n)
		if fns[n] == nil {
			c.Undecided(rule, dir+": stack."+n, "method not found in the generated parser")
			return
		}
	}
	pos := p.FnPos(fns["push"])
	// (a) cache coherence: a field read by a method that answers a question is written by every method that
	// writes anything
	obs := map[string]bool{}
	for _, n := range []string{"top", "peek", "topIndex", "popN"} {
		r, _ := stackFieldUse(fns[n])
		for f := range r {
			obs[f] = true
		}
	}
	var obsL []string
	for f := range obs {
		obsL = append(obsL, f)
	}
	sort.Strings(obsL)
	for _, n := range names {
		_, w := stackFieldUse(fns[n])
		if len(w) == 0 {
			continue
		}
		var missing []string
		for _, f := range obsL {
			if !w[f] {
				missing = append(missing, f)
			}
		}
		c.Ob(rule, fmt.Sprintf("%s: stack.%s keeps every observed field up to date", dir, n), len(missing) == 0,
			fmt.Sprintf("top / peek / topIndex / popN read the fields %v; %s changes the stack but does not assign %v — what the observers answer afterwards would be left over from before", obsL, n, missing), p.FnPos(fns[n]))
	}
	// (b) the operations, on a symbolic stack
	appendS := func(r *Run, cc *ssa.CallCommon, args []Val) (Val, error) {
		el := render(args[1])
		if es := r.VarargElems(args[1]); es != nil {
			el = strings.Join(es, ",")
		}
		return VOpq{"APPEND(" + render(args[0]) + "," + el + ")"}, nil
	}
	var copies []string
	copyS := func(r *Run, cc *ssa.CallCommon, args []Val) (Val, error) {
		copies = append(copies, render(args[0])+" <- "+render(args[1]))
		return VSym{Name: "ncopied"}, nil
	}
	run := func(n string, w *MapWorld) *Outcome {
		copies = nil
		return InterpretSafe(&Region{Fn: fns[n], Summaries: map[string]Summary{"builtin:append": appendS, "builtin:copy": copyS}}, w)
	}
	rn := fns["push"].Params[0].Name()
	// a stack of five entries from which two are taken: decides the range assertions a method may make
	// (0 <= n <= len, 0 <= pos < len); the results stay symbolic
	w5 := func() *MapWorld {
		return &MapWorld{Ints: map[string]int64{"items": 2, "pos": 1, "len(" + rn + ".state)": 5, "len(" + rn + ".attrib)": 5}}
	}
	// the two lists are equally long (push appends to both, popN cuts both by the same amount, reset empties both):
	// their lengths are one quantity
	norm := func(x string) string {
		x = strings.ReplaceAll(x, "len("+rn+".attrib)", "len("+rn+".state)")
		return strings.ReplaceAll(x, "parser.Attrib", "Attrib")
	}
	st := func(o *Outcome, f string) string { return norm(o.Stores[rn+"."+f]) }
	res0 := func(o *Outcome) string {
		if len(o.Results) != 1 {
			return fmt.Sprint(o.Results)
		}
		return norm(o.Results[0])
	}
	o := run("push", w5())
	c.Ob(rule, dir+": stack.push", o.Term == "return" && st(o, "state") == "APPEND("+rn+".state,state)" && st(o, "attrib") == "APPEND("+rn+".attrib,a)",
		fmt.Sprintf("term=%s %s state := %s attrib := %s; required: the state and the attribute are appended to their lists", o.Term, o.Undecided, st(o, "state"), st(o, "attrib")), pos)
	o = run("top", w5())
	c.Ob(rule, dir+": stack.top", o.Term == "return" && res0(o) == rn+".state[len("+rn+".state)-1]" && len(o.Stores) == 0,
		fmt.Sprintf("term=%s %s result %v stores %v; required: the last element of the state list, no effect", o.Term, o.Undecided, o.Results, o.Stores), p.FnPos(fns["top"]))
	o = run("peek", w5())
	c.Ob(rule, dir+": stack.peek", o.Term == "return" && res0(o) == rn+".state[pos]" && len(o.Stores) == 0,
		fmt.Sprintf("term=%s %s result %v stores %v; required: the state at the given index, no effect", o.Term, o.Undecided, o.Results, o.Stores), p.FnPos(fns["peek"]))
	o = run("topIndex", w5())
	c.Ob(rule, dir+": stack.topIndex", o.Term == "return" && res0(o) == "len("+rn+".state)-1" && len(o.Stores) == 0,
		fmt.Sprintf("term=%s %s result %v stores %v; required: the index of the last state, no effect", o.Term, o.Undecided, o.Results, o.Stores), p.FnPos(fns["topIndex"]))
	o = run("popN", w5())
	c.Ob(rule, dir+": stack.popN shortens both lists by n", o.Term == "return" && st(o, "state") == rn+".state[:(-items+len("+rn+".state))]" && st(o, "attrib") == rn+".attrib[:(-items+len("+rn+".state))]",
		fmt.Sprintf("term=%s %s state := %s attrib := %s results %v; required: both lists are cut to their first len-n elements", o.Term, o.Undecided, st(o, "state"), st(o, "attrib"), o.Results), p.FnPos(fns["popN"]))
	wantCopy := "make([]Attrib,items) <- " + rn + ".attrib[(-items+len(" + rn + ".state)):len(" + rn + ".state)]"
	c.Ob(rule, dir+": stack.popN returns the top n attributes", o.Term == "return" && res0(o) == "make([]Attrib,items)" && len(copies) == 1 && norm(copies[0]) == wantCopy,
		fmt.Sprintf("result %v, copies %v; required: a new list of n elements filled from the last n attributes, bottom first (%s)", o.Results, copies, wantCopy), p.FnPos(fns["popN"]))
}
