package main

// Core reporting machinery (E9 of DESIGN.md): obligations, violations,
// known findings, evidence files.

import (
	"encoding/json"
	"fmt"
	"os"
	"path/filepath"
	"sort"
	"strings"
	"time"
)

// An Obligation is one rule instance decided on this run.
type Obligation struct {
	Rule      string `json:"rule"`      // e.g. "R05.1"
	Construct string `json:"construct"` // resolved object / site, never a line number alone
	OK        bool   `json:"ok"`
	Undecided bool   `json:"undecided,omitempty"`
	Detail    string `json:"detail,omitempty"`
	Pos       string `json:"pos,omitempty"` // file:line for diagnosis only
	Known     bool   `json:"known,omitempty"`
}

type KnownFinding struct {
	Property  string `json:"property"`
	Rule      string `json:"rule"`
	Construct string `json:"construct"`
	What      string `json:"what"`
	Status    string `json:"status"` // "open" or "fixed"
	Commit    string `json:"commit,omitempty"`
	Input     string `json:"failing_input,omitempty"`
	// Observed, when set, must occur in the obligation's detail: the finding covers this
	// particular wrong behaviour of the construct, not any other.
	Observed string `json:"observed,omitempty"`
}

type Ctx struct {
	Prop   string
	Tier   string
	Seed   int64
	Level  string
	Repo   string
	OutDir string
	start  time.Time

	Obs         []Obligation
	Samples     []any
	Analysed    []string // what was looked at: functions, sites, templates
	Assumptions []string
	Trusted     []string
	Explanation string
	Extra       map[string]any
	Programs    int
	Cells       int

	known []KnownFinding
	quiet bool
}

func NewCtx(prop, tier, repo, out string, seed int64) *Ctx {
	c := &Ctx{Prop: prop, Tier: tier, Repo: repo, OutDir: out, Seed: seed, start: time.Now(), Extra: map[string]any{}}
	c.loadKnown()
	return c
}

func (c *Ctx) loadKnown() {
	b, err := os.ReadFile(filepath.Join(filepath.Dir(c.OutDir), "known_findings.json"))
	if err != nil {
		return
	}
	var f struct {
		Findings []KnownFinding `json:"findings"`
	}
	if err := json.Unmarshal(b, &f); err != nil {
		fmt.Fprintf(os.Stderr, "known_findings.json: %v\n", err)
		os.Exit(2)
	}
	c.known = f.Findings
}

func (c *Ctx) Logf(format string, a ...any) {
	if !c.quiet {
		fmt.Printf(format+"\n", a...)
	}
}

// Ob records an obligation.
func (c *Ctx) Ob(rule, construct string, ok bool, detail string, pos ...string) bool {
	o := Obligation{Rule: rule, Construct: construct, OK: ok, Detail: detail}
	if len(pos) > 0 {
		o.Pos = pos[0]
	}
	c.Obs = append(c.Obs, o)
	return ok
}

// Undecided records a rule the checker cannot decide: counted as a violation.
func (c *Ctx) Undecided(rule, construct, detail string, pos ...string) {
	o := Obligation{Rule: rule, Construct: construct, OK: false, Undecided: true, Detail: detail}
	if len(pos) > 0 {
		o.Pos = pos[0]
	}
	c.Obs = append(c.Obs, o)
}

func (c *Ctx) Sample(v any) {
	if len(c.Samples) < 60 {
		c.Samples = append(c.Samples, v)
	}
}

func (c *Ctx) Note(format string, a ...any) {
	c.Analysed = append(c.Analysed, fmt.Sprintf(format, a...))
}

// Finish writes evidence, prints verdict lines, returns the process exit code.
func (c *Ctx) Finish() int {
	nviol := 0
	nknown := 0
	discharged := 0
	ruleCount := map[string]int{}
	var violFiles []string
	// keep deterministic order
	for i := range c.Obs {
		o := &c.Obs[i]
		ruleCount[o.Rule]++
		if o.OK {
			discharged++
			continue
		}
		matched := false
		for _, k := range c.known {
			if k.Status == "open" && k.Property == c.Prop && k.Rule == o.Rule && k.Construct == o.Construct && strings.Contains(o.Detail, k.Observed) && !o.Undecided {
				matched = true
				fmt.Printf("KNOWN-FINDING: property=%s rule=%s construct=%s %s\n", c.Prop, o.Rule, o.Construct, k.What)
			}
		}
		if matched {
			o.Known = true
			nknown++
			continue
		}
		nviol++
		kind := "REFUTED"
		if o.Undecided {
			kind = "UNDECIDED"
		}
		vdir := filepath.Join(c.OutDir, "violations")
		os.MkdirAll(vdir, 0o755)
		name := fmt.Sprintf("%s-%s-%d.json", c.Prop, sanitize(o.Rule), nviol)
		vp := filepath.Join(vdir, name)
		vb, _ := json.MarshalIndent(map[string]any{"property": c.Prop, "kind": kind, "obligation": o}, "", " ")
		os.WriteFile(vp, vb, 0o644)
		violFiles = append(violFiles, vp)
		fmt.Printf("%s rule=%s construct=%s at %s: %s\n", kind, o.Rule, o.Construct, o.Pos, o.Detail)
		fmt.Printf("VIOLATION property=%s replay=%s\n", c.Prop, vp)
	}
	rules := make([]string, 0, len(ruleCount))
	for r := range ruleCount {
		rules = append(rules, r)
	}
	sort.Strings(rules)
	rc := map[string]int{}
	for _, r := range rules {
		rc[r] = ruleCount[r]
	}

	cov := map[string]any{
		"obligations":     len(c.Obs),
		"discharged":      discharged + nknown*0,
		"known_findings":  nknown,
		"rules":           rc,
		"analysed":        c.Analysed,
		"explanation":     c.Explanation,
		"samples":         c.Samples,
		"checker_cmd":     fmt.Sprintf("./run.sh %s %s", c.Prop, c.Tier),
		"trusted_base":    c.Trusted,
		"exhaustive":      true,
		"evaluations":     len(c.Obs),
		"rule":            "one obligation per rule instance (rule id + resolved construct + abstract world); distinct by that key; non-trivial = the instance inspects code of /repo (fixtures excluded)",
		"failed_or_known": failedList(c.Obs),
	}
	distinct := map[string]bool{}
	for _, o := range c.Obs {
		if !strings.HasPrefix(o.Rule, "FIX") {
			distinct[o.Rule+"|"+o.Construct] = true
		}
	}
	cov["distinct_nontrivial"] = len(distinct)
	if c.Level == "translation_validation" {
		cov["programs"] = c.Programs
		cov["disagreements_checked"] = c.Cells
	}
	for k, v := range c.Extra {
		cov[k] = v
	}
	if len(c.Samples) == 0 {
		cov["samples"] = []any{"(none)"}
	}
	ev := map[string]any{
		"property_id": c.Prop,
		"tier":        c.Tier,
		"seed":        c.Seed,
		"level":       c.Level,
		"coverage":    cov,
		"assumptions": c.Assumptions,
		"wall_s":      time.Since(c.start).Seconds(),
		"violations":  nviol,
	}
	b, err := json.MarshalIndent(ev, "", " ")
	if err != nil {
		fmt.Fprintf(os.Stderr, "evidence marshal: %v\n", err)
		return 2
	}
	os.MkdirAll(c.OutDir, 0o755)
	if err := os.WriteFile(filepath.Join(c.OutDir, c.Prop+".json"), b, 0o644); err != nil {
		fmt.Fprintf(os.Stderr, "evidence write: %v\n", err)
		return 2
	}
	fmt.Printf("%s %s: %d obligations, %d discharged, %d known findings, %d violations (%.1fs)\n",
		c.Prop, c.Tier, len(c.Obs), discharged, nknown, nviol, time.Since(c.start).Seconds())
	if nviol > 0 {
		return 1
	}
	return 0
}

func failedList(obs []Obligation) []Obligation {
	var r []Obligation
	for _, o := range obs {
		if !o.OK {
			r = append(r, o)
		}
	}
	return r
}

func sanitize(s string) string {
	return strings.Map(func(r rune) rune {
		if r >= 'a' && r <= 'z' || r >= 'A' && r <= 'Z' || r >= '0' && r <= '9' || r == '.' || r == '-' {
			return r
		}
		return '_'
	}, s)
}
