package main

import (
	"bytes"
	"fmt"
	"go/ast"
	"go/printer"
	"go/token"
	"go/types"
	"sort"
	"strings"

	"golang.org/x/tools/go/packages"
	"golang.org/x/tools/go/ssa"
)

func init() { register("C12", "other", runC12) }

// ---- R12.1: debug instantiation = plain + pure print statements --------------------------

type purityDiff struct {
	p        *Prog
	pkPlain  *packages.Package
	pkDebug  *packages.Package
	oa       *orderAnalysis
	problems []string
	added    int
	impure   string // the last callee judged to have an effect, for the report
}

func nodeText(fset *token.FileSet, n ast.Node) string {
	if n == nil {
		return ""
	}
	var buf bytes.Buffer
	printer.Fprint(&buf, fset, n)
	return buf.String()
}

func (d *purityDiff) bad(pos token.Pos, f string, a ...any) {
	d.problems = append(d.problems, d.p.Pos(pos)+": "+fmt.Sprintf(f, a...))
}

// allowedInsertion: a statement that only prints.
func (d *purityDiff) allowedInsertion(s ast.Stmt) bool {
	switch x := s.(type) {
	case *ast.ExprStmt:
		call, ok := x.X.(*ast.CallExpr)
		if !ok {
			return false
		}
		fn := calleeObj(d.pkDebug.TypesInfo, call)
		if fn == nil || fn.Pkg() == nil || fn.Pkg().Path() != "fmt" {
			return false
		}
		switch fn.Name() {
		case "Printf", "Println", "Print":
		default:
			return false
		}
		for _, a := range call.Args {
			if !d.pureExpr(a) {
				return false
			}
		}
		return true
	case *ast.IfStmt:
		if x.Init != nil || x.Else != nil || !d.pureExpr(x.Cond) {
			return false
		}
		for _, b := range x.Body.List {
			if !d.allowedInsertion(b) {
				return false
			}
		}
		return true
	}
	return false
}

func calleeObj(info *types.Info, call *ast.CallExpr) *types.Func {
	var id *ast.Ident
	switch f := call.Fun.(type) {
	case *ast.Ident:
		id = f
	case *ast.SelectorExpr:
		id = f.Sel
	}
	if id == nil {
		return nil
	}
	fn, _ := info.Uses[id].(*types.Func)
	return fn
}

// pureExpr: no assignment, no channel op, calls only to functions without effects.
func (d *purityDiff) pureExpr(e ast.Expr) bool {
	ok := true
	ast.Inspect(e, func(n ast.Node) bool {
		switch x := n.(type) {
		case *ast.CallExpr:
			if tv, isT := d.pkDebug.TypesInfo.Types[x.Fun]; isT && tv.IsType() {
				return true // conversion
			}
			if id, isId := x.Fun.(*ast.Ident); isId {
				if _, isB := d.pkDebug.TypesInfo.Uses[id].(*types.Builtin); isB && (id.Name == "len" || id.Name == "cap") {
					return true
				}
			}
			fn := calleeObj(d.pkDebug.TypesInfo, x)
			if fn == nil {
				ok = false
				return false
			}
			sf := d.p.SSA.FuncValue(fn)
			if sf == nil || !d.oa.isPure(sf) {
				ok = false
				why := "has effects (a store to shared memory, an impure call)"
				if sf != nil && len(mutatedParams(sf)) > 0 {
					why = "may write through its argument (a store, copy or append into memory reached from a parameter)"
				}
				d.impure = fmt.Sprintf("%s %s", fn.FullName(), why)
			}
		case *ast.UnaryExpr:
			if x.Op == token.ARROW {
				ok = false
			}
		case *ast.FuncLit:
			ok = false
		}
		return ok
	})
	return ok
}

func (d *purityDiff) stmts(ps, ds []ast.Stmt) {
	i, j := 0, 0
	for i < len(ps) || j < len(ds) {
		switch {
		case i < len(ps) && j < len(ds) && d.sameStmt(ps[i], ds[j]):
			i++
			j++
		case j < len(ds) && d.allowedInsertion(ds[j]):
			d.added++
			j++
		case j < len(ds) && i < len(ps):
			if d.impure != "" {
				d.bad(ds[j].Pos(), "debug variant inserts a statement with an effect: %q — %s", firstLine(nodeText(d.pkDebug.Fset, ds[j])), d.impure)
				return
			}
			d.bad(ds[j].Pos(), "debug variant differs from the plain variant by more than an inserted print: %q vs %q", firstLine(nodeText(d.pkDebug.Fset, ds[j])), firstLine(nodeText(d.pkPlain.Fset, ps[i])))
			return
		case j < len(ds):
			d.bad(ds[j].Pos(), "debug variant adds a statement that is not a pure print: %q %s", firstLine(nodeText(d.pkDebug.Fset, ds[j])), d.impure)
			return
		default:
			d.bad(ps[i].Pos(), "statement of the plain variant is missing in the debug variant: %q", firstLine(nodeText(d.pkPlain.Fset, ps[i])))
			return
		}
	}
}

func firstLine(s string) string {
	if i := strings.IndexByte(s, '\n'); i >= 0 {
		return s[:i] + " …"
	}
	return s
}

func (d *purityDiff) eqText(a, b ast.Node) bool {
	isNil := func(n ast.Node) bool {
		if n == nil {
			return true
		}
		switch x := n.(type) {
		case ast.Expr:
			return x == nil
		case ast.Stmt:
			return x == nil
		}
		return false
	}
	if isNil(a) || isNil(b) {
		return isNil(a) && isNil(b)
	}
	return nodeText(d.pkPlain.Fset, a) == nodeText(d.pkDebug.Fset, b)
}

// sameStmt compares headers and recurses into bodies (where insertions are allowed).
func (d *purityDiff) sameStmt(a, b ast.Stmt) bool {
	switch x := a.(type) {
	case *ast.BlockStmt:
		y, ok := b.(*ast.BlockStmt)
		if !ok {
			return false
		}
		d.stmts(x.List, y.List)
		return true
	case *ast.IfStmt:
		y, ok := b.(*ast.IfStmt)
		if !ok || !d.eqStmtText(x.Init, y.Init) || !d.eqText(x.Cond, y.Cond) {
			return false
		}
		d.stmts(x.Body.List, y.Body.List)
		switch {
		case x.Else == nil && y.Else == nil:
		case x.Else != nil && y.Else != nil:
			if !d.sameStmt(x.Else, y.Else) {
				d.bad(y.Else.Pos(), "else branches differ")
			}
		default:
			d.bad(y.Pos(), "else branch added or removed")
		}
		return true
	case *ast.ForStmt:
		y, ok := b.(*ast.ForStmt)
		if !ok || !d.eqStmtText(x.Init, y.Init) || !d.eqText(x.Cond, y.Cond) || !d.eqStmtText(x.Post, y.Post) {
			return false
		}
		d.stmts(x.Body.List, y.Body.List)
		return true
	case *ast.RangeStmt:
		y, ok := b.(*ast.RangeStmt)
		if !ok || !d.eqText(x.Key, y.Key) || !d.eqText(x.Value, y.Value) || !d.eqText(x.X, y.X) || x.Tok != y.Tok {
			return false
		}
		d.stmts(x.Body.List, y.Body.List)
		return true
	case *ast.SwitchStmt:
		y, ok := b.(*ast.SwitchStmt)
		if !ok || !d.eqStmtText(x.Init, y.Init) || !d.eqText(x.Tag, y.Tag) {
			return false
		}
		return d.clauses(x.Body.List, y.Body.List)
	case *ast.TypeSwitchStmt:
		y, ok := b.(*ast.TypeSwitchStmt)
		if !ok || !d.eqStmtText(x.Init, y.Init) || !d.eqStmtText(x.Assign, y.Assign) {
			return false
		}
		return d.clauses(x.Body.List, y.Body.List)
	case *ast.LabeledStmt:
		y, ok := b.(*ast.LabeledStmt)
		return ok && x.Label.Name == y.Label.Name && d.sameStmt(x.Stmt, y.Stmt)
	}
	return d.eqStmtText(a, b)
}

func (d *purityDiff) eqStmtText(a, b ast.Stmt) bool {
	if a == nil || b == nil {
		return a == nil && b == nil
	}
	return nodeText(d.pkPlain.Fset, a) == nodeText(d.pkDebug.Fset, b)
}

func (d *purityDiff) clauses(a, b []ast.Stmt) bool {
	if len(a) != len(b) {
		return false
	}
	for i := range a {
		ca, ok1 := a[i].(*ast.CaseClause)
		cb, ok2 := b[i].(*ast.CaseClause)
		if !ok1 || !ok2 || len(ca.List) != len(cb.List) {
			return false
		}
		for k := range ca.List {
			if !d.eqText(ca.List[k], cb.List[k]) {
				return false
			}
		}
		d.stmts(ca.Body, cb.Body)
	}
	return true
}

func (d *purityDiff) file(fp, fd *ast.File) {
	// declarations in lock-step; imports may be added
	i, j := 0, 0
	for i < len(fp.Decls) && j < len(fd.Decls) {
		a, b := fp.Decls[i], fd.Decls[j]
		ga, okA := a.(*ast.GenDecl)
		gb, okB := b.(*ast.GenDecl)
		if okA && okB && ga.Tok == token.IMPORT && gb.Tok == token.IMPORT {
			have := map[string]bool{}
			for _, s := range gb.Specs {
				have[s.(*ast.ImportSpec).Path.Value] = true
			}
			for _, s := range ga.Specs {
				if !have[s.(*ast.ImportSpec).Path.Value] {
					d.bad(s.Pos(), "import %s dropped by the debug variant", s.(*ast.ImportSpec).Path.Value)
				}
			}
			i++
			j++
			continue
		}
		fa, okA := a.(*ast.FuncDecl)
		fb, okB := b.(*ast.FuncDecl)
		if okA && okB {
			if fa.Name.Name != fb.Name.Name || nodeText(d.pkPlain.Fset, fa.Type) != nodeText(d.pkDebug.Fset, fb.Type) || nodeText(d.pkPlain.Fset, fa.Recv) != nodeText(d.pkDebug.Fset, fb.Recv) {
				d.bad(fb.Pos(), "function %s differs in name or signature", fb.Name.Name)
			} else if fa.Body != nil && fb.Body != nil {
				d.stmts(fa.Body.List, fb.Body.List)
			}
			i++
			j++
			continue
		}
		if nodeText(d.pkPlain.Fset, a) != nodeText(d.pkDebug.Fset, b) {
			d.bad(b.Pos(), "declaration differs between plain and debug variant: %q", firstLine(nodeText(d.pkDebug.Fset, b)))
		}
		i++
		j++
	}
	if i < len(fp.Decls) || j < len(fd.Decls) {
		d.bad(fd.Pos(), "declarations added or removed by the debug flag")
	}
}

func fileNamed(pk *packages.Package, base string) *ast.File {
	for i, f := range pk.Syntax {
		if strings.HasSuffix(pk.CompiledGoFiles[i], "/"+base) {
			return f
		}
	}
	return nil
}

func checkDebugPurity(c *Ctx, p *Prog, rule string) {
	oa := newOrderAnalysis(c, p)
	for _, pair := range [][3]string{{"lexer_plain", "lexer_debug", "lexer.go"}, {"parser_plain", "parser_debug", "parser.go"}, {"parser_zip", "parser_debugzip", "parser.go"}} {
		pp, pd := p.Pkg(gmRoot+"/"+pair[0]), p.Pkg(gmRoot+"/"+pair[1])
		if pp == nil || pd == nil {
			c.Undecided(rule, pair[1], "model package missing")
			continue
		}
		d := &purityDiff{p: p, pkPlain: pp, pkDebug: pd, oa: oa}
		// every file of the package: only the named one may differ
		for i, f := range pp.Syntax {
			base := pp.CompiledGoFiles[i][strings.LastIndex(pp.CompiledGoFiles[i], "/")+1:]
			g := fileNamed(pd, base)
			if g == nil {
				d.bad(f.Pos(), "file %s missing in the debug variant", base)
				continue
			}
			before := d.added
			d.file(f, g)
			if base != pair[2] && d.added != before {
				d.bad(g.Pos(), "debug flag changes %s, a file it should not touch", base)
			}
		}
		c.Ob(rule, fmt.Sprintf("%s vs %s", pair[1], pair[0]), len(d.problems) == 0, fmt.Sprintf("%d statements inserted by the debug flag, all of them print statements whose operands call only effect-free functions; problems: %v", d.added, d.problems))
		if d.added < 1 {
			c.Undecided(rule, pair[1]+": vacuity", "the debug variant adds nothing: the model no longer exercises the Debug switch")
		}
		c.Sample(map[string]any{"rule": rule, "pair": pair[1] + " vs " + pair[0], "inserted_print_statements": d.added})
	}
}

// ---- R12.2: zip agreement --------------------------------------------------------------------

func gobDecoderTypes(p *Prog, dir string) []types.Type {
	sp := p.SSAPkg(gmRoot + "/" + dir)
	if sp == nil {
		return nil
	}
	var out []types.Type
	for _, fn := range pkgFunctions(p, sp) {
		for _, b := range fn.Blocks {
			for _, in := range b.Instrs {
				if call, ok := in.(*ssa.Call); ok {
					if f := call.Call.StaticCallee(); f != nil && f.String() == "(*encoding/gob.Decoder).Decode" {
						if mi, ok := call.Call.Args[1].(*ssa.MakeInterface); ok {
							if pt, ok := mi.X.Type().Underlying().(*types.Pointer); ok {
								out = append(out, pt.Elem())
							}
						}
					}
				}
			}
		}
	}
	return out
}

func checkZipAgreement(c *Ctx, p *Prog, rule string) {
	// (a) payload types
	oa := newOrderAnalysis(c, p)
	enc, sites, unresolved := gobPayloadTypes(oa)
	for _, u := range unresolved {
		c.Undecided(rule, "gob payload "+u, "cannot resolve the encoded type")
	}
	for _, d := range []string{"parser_zip", "parser_debugzip"} {
		dec := gobDecoderTypes(p, d)
		if len(dec) != 2 || len(enc) != 2 {
			c.Undecided(rule, d+": gob types", fmt.Sprintf("%d encoders / %d decoders found, expected 2 / 2", len(enc), len(dec)))
			continue
		}
		for i, te := range enc {
			match := false
			for _, td := range dec {
				if types.Identical(te, td) {
					match = true
				}
			}
			c.Ob(rule, fmt.Sprintf("%s: decoder for %s", d, sites[i]), match, "the type the generated init() decodes into must be identical to the type gocc encodes (gob matches fields by name): "+te.String())
		}
	}
	// (b) encoder codes
	checkCompCellWriter(c, p, rule+"b", rule+"b'")
	checkCellWriters(c, p, rule+"b", rule+"b'")
	// decoder codes + canRecover copy
	for _, d := range []string{"parser_zip", "parser_debugzip"} {
		checkZipDecoder(c, p, rule, d)
		checkZipInitOrder(c, p, "R12.6", d)
	}
	// encoder copies CanRecover and goto cells from the same sources as the plain writer
	fn := p.Func(parserGenPkg, "GenCompActionTable")
	if fn != nil {
		hs := loopHeaders(fn)
		if len(hs) == 2 {
			reg := &Region{Fn: fn, Start: hs[0], Cuts: cutSet(hs...), PhiInputs: map[string]Val{"rangeindex": VSym{Name: "i"}},
				Summaries: map[string]Summary{
					"*.CanRecover": pureSummary("CanRecover"),
					"*.Size":       func(r *Run, cc *ssa.CallCommon, args []Val) (Val, error) { return VSym{Name: "SIZE"}, nil },
					"*.Set":        pureSummary("Set"),
				}, PreWorld: &MapWorld{Ints: map[string]int64{"SIZE": 2}}}
			out := InterpretSafe(reg, &MapWorld{Ints: map[string]int64{"i": 0, "SIZE": 2}})
			got := ""
			for k, v := range out.Stores {
				if strings.HasSuffix(k, "[i+1].CanRecover") {
					got = v
				}
			}
			c.Ob(rule, "GenCompActionTable: CanRecover", got == "CanRecover(Set(&itemSets,i+1))", fmt.Sprintf("tab[i+1].CanRecover = %s %s; required the flag of item set i+1", got, out.Undecided), p.FnPos(fn))
		}
	}
	gfn := p.Func(parserGenPkg, "GenCompGotoTable")
	if gfn != nil {
		hs := loopHeaders(gfn)
		if len(hs) == 2 {
			reg := &Region{Fn: gfn, Start: hs[1], Cuts: cutSet(hs...), PhiInputs: map[string]Val{"rangeindex": VSym{Name: "j"}},
				Summaries: map[string]Summary{
					"*.NumNTSymbols": func(r *Run, cc *ssa.CallCommon, args []Val) (Val, error) { return VSym{Name: "NNT"}, nil },
					"*.Size":         func(r *Run, cc *ssa.CallCommon, args []Val) (Val, error) { return VSym{Name: "SIZE"}, nil },
					"*.List":         func(r *Run, cc *ssa.CallCommon, args []Val) (Val, error) { return VOpq{"SETS"}, nil },
					"*.NTList":       func(r *Run, cc *ssa.CallCommon, args []Val) (Val, error) { return VOpq{"NTList"}, nil },
					"*.NextSetIndex": func(r *Run, cc *ssa.CallCommon, args []Val) (Val, error) {
						return VSym{Name: "NextSetIndex(" + render(args[0]) + "," + render(args[1]) + ")"}, nil
					},
				}, PreWorld: &MapWorld{Ints: map[string]int64{"SIZE": 2, "len(SETS)": 2, "len(NTList)": 2, "NNT": 2}}}
			out := InterpretSafe(reg, &MapWorld{Ints: map[string]int64{"j": 0, "len(NTList)": 2}})
			ok := false
			detail := ""
			for k, v := range out.Stores {
				detail += k + "=" + v + " "
				if strings.HasSuffix(k, "[j+1]") && strings.HasSuffix(v, ",NTList[j+1])") && strings.HasPrefix(v, "NextSetIndex(&*SETS[0]") {
					ok = true
				}
			}
			c.Ob(rule, "GenCompGotoTable cell", ok, fmt.Sprintf("stores %s %s; required rows[i][j+1] = NextSetIndex of item set i on the (j+1)-th nonterminal of NTList — the plain writer's sources", detail, out.Undecided), p.FnPos(gfn))
		}
	}
}

var zipLocals = map[string]string{"actionTab": "actionTab", "gotoTab": "gotoTab"}

// checkZipDecoder interprets the generated functions that fill the tables.
func checkZipDecoder(c *Ctx, p *Prog, rule, dir string) {
	sp := p.SSAPkg(gmRoot + "/" + dir)
	if sp == nil {
		c.Undecided(rule, dir, "model package missing")
		return
	}
	var actInit, gotoInit *ssa.Function
	// the tables are either the results of decoder functions called by their own initialisers ...
	if pi := sp.Func("init"); pi != nil {
		for _, b := range pi.Blocks {
			for _, in := range b.Instrs {
				st, ok := in.(*ssa.Store)
				if !ok {
					continue
				}
				g, ok := st.Addr.(*ssa.Global)
				if !ok {
					continue
				}
				call, ok := st.Val.(*ssa.Call)
				if !ok || call.Call.StaticCallee() == nil {
					continue
				}
				switch g.Name() {
				case "actionTab":
					actInit = call.Call.StaticCallee()
				case "gotoTab":
					gotoInit = call.Call.StaticCallee()
				}
			}
		}
	}
	// ... or filled by init functions
	for _, fn := range pkgFunctions(p, sp) {
		if !strings.HasPrefix(fn.Name(), "init#") {
			continue
		}
		for _, b := range fn.Blocks {
			for _, in := range b.Instrs {
				if ia, ok := in.(*ssa.IndexAddr); ok {
					if g, ok := ia.X.(*ssa.Global); ok {
						switch g.Name() {
						case "actionTab":
							actInit = fn
						case "gotoTab":
							gotoInit = fn
						}
					}
				}
			}
		}
	}
	if actInit == nil || gotoInit == nil {
		c.Undecided(rule, dir+": decoders", "init functions filling actionTab / gotoTab not found")
		return
	}
	gobS := map[string]Summary{
		"compress/gzip.NewReader": func(r *Run, cc *ssa.CallCommon, args []Val) (Val, error) { return VTuple{VOpq{"zr"}, VIface{}}, nil },
		"bytes.NewBuffer":         pureSummary("NewBuffer"),
		"encoding/gob.NewDecoder": pureSummary("NewDecoder"),
		"*.Decode":                func(r *Run, cc *ssa.CallCommon, args []Val) (Val, error) { return VIface{}, nil },
	}
	hs := loopHeaders(actInit)
	if len(hs) != 2 {
		c.Undecided(rule, dir+": action decoder", fmt.Sprintf("expected two nested loops, found %d", len(hs)))
	} else {
		shiftT, reduceT, acceptT := pkgType(p, gmRoot+"/"+dir, "shift"), pkgType(p, gmRoot+"/"+dir, "reduce"), pkgType(p, gmRoot+"/"+dir, "accept")
		_ = shiftT
		_ = reduceT
		_ = acceptT
		// outer body: canRecover copied
		reg := &Region{Fn: actInit, Start: hs[0], Cuts: cutSet(hs...), PhiInputs: map[string]Val{"rangeindex": VSym{Name: "i"}}, Summaries: gobS, ObserveLocals: zipLocals,
			PreWorld: &MapWorld{IntFn: func(n string) (int64, bool) { return 1, strings.HasPrefix(n, "len(") }}}
		out := InterpretSafe(reg, &MapWorld{Ints: map[string]int64{"i": 0}, IntFn: func(n string) (int64, bool) { return 3, strings.HasPrefix(n, "len(") }})
		cr := ""
		for k, v := range out.Stores {
			if strings.HasSuffix(k, "[i+1].canRecover") {
				cr = v
			}
		}
		c.Ob(rule, dir+": decoder copies canRecover", strings.HasSuffix(cr, "[i+1].CanRecover"), fmt.Sprintf("actionTab[i+1].canRecover = %q %s; required the decoded row's CanRecover", cr, out.Undecided), p.FnPos(actInit))
		// inner body: codes
		for _, wd := range []struct {
			code int64
			want string
		}{{0, "parser.accept(true)"}, {1, "parser.reduce(AMOUNT)"}, {2, "parser.shift(AMOUNT)"}, {3, ""}} {
			reg := &Region{Fn: actInit, Start: hs[1], Cuts: cutSet(hs...), PhiInputs: map[string]Val{"rangeindex": VSym{Name: "k"}}, Summaries: gobS, ObserveLocals: zipLocals,
				PreWorld: &MapWorld{IntFn: func(n string) (int64, bool) { return 1, strings.HasPrefix(n, "len(") }},
				Lazy: func(o *Obj, path string, t types.Type) Val {
					switch {
					case strings.HasSuffix(path, "[k+1].Action"):
						return VSym{Name: "CODE"}
					case strings.HasSuffix(path, "[k+1].Amount"):
						return VSym{Name: "AMOUNT"}
					case strings.HasSuffix(path, "[k+1].Index"):
						return VSym{Name: "INDEX"}
					}
					return nil
				}}
			out := InterpretSafe(reg, &MapWorld{Ints: map[string]int64{"k": 0, "CODE": wd.code}, IntFn: func(n string) (int64, bool) { return 3, strings.HasPrefix(n, "len(") }})
			got, gotKey := "", ""
			for k, v := range out.Stores {
				if strings.Contains(k, ".actions[") {
					got, gotKey = v, k
				}
			}
			ok := out.Term != "undecided" && got == wd.want && (wd.want == "" || strings.HasSuffix(gotKey, ".actions[INDEX]"))
			c.Ob(rule, fmt.Sprintf("%s: decoder code %d", dir, wd.code), ok, fmt.Sprintf("cell %s = %q %s; required %q in column Index (0 accept, 1 reduce Amount, 2 shift Amount)", gotKey, got, out.Undecided, wd.want), p.FnPos(actInit))
		}
	}
	// goto decoder: full copy over the table's dimensions
	gh := loopHeaders(gotoInit)
	if len(gh) != 2 {
		c.Undecided(rule, dir+": goto decoder", "expected two nested loops")
		return
	}
	reg := &Region{Fn: gotoInit, Start: gh[1], Cuts: cutSet(gh...), PhiInputs: map[string]Val{"j": VSym{Name: "j"}}, Summaries: gobS, ObserveLocals: zipLocals}
	out := InterpretSafe(reg, &MapWorld{Ints: map[string]int64{"j": 0}})
	ok := false
	detail := ""
	for k, v := range out.Stores {
		detail += k + "=" + v + " "
		if k == "gotoTab[0][j]" && strings.HasSuffix(v, "[0][j]") {
			ok = true
		}
	}
	c.Ob(rule, dir+": goto decoder copies cell (i,j)", ok && out.NextPhi["j"] == "j+1", fmt.Sprintf("stores %s next j=%s %s; required gotoTab[i][j] = decoded[i][j], j advancing by one", detail, out.NextPhi["j"], out.Undecided), p.FnPos(gotoInit))
	// loop bounds are the table dimensions
	dims := []int64{}
	if g, ok := sp.Members["gotoTab"].(*ssa.Global); ok {
		t := g.Type().Underlying().(*types.Pointer).Elem()
		for {
			at, ok := t.Underlying().(*types.Array)
			if !ok {
				break
			}
			dims = append(dims, at.Len())
			t = at.Elem()
		}
	}
	bounds := []int64{}
	for _, h := range gh {
		for _, in := range h.Instrs {
			if bo, ok := in.(*ssa.BinOp); ok && bo.Op == token.LSS {
				if k, ok := bo.Y.(*ssa.Const); ok {
					bounds = append(bounds, k.Int64())
				}
			}
		}
	}
	// both counters start at 0 and advance by 1
	okCount := true
	for _, h := range gh {
		phi, isPhi := h.Instrs[0].(*ssa.Phi)
		if !isPhi {
			okCount = false
			continue
		}
		for i, pred := range h.Preds {
			e := phi.Edges[i]
			if h.Dominates(pred) { // back edge
				bo, ok := e.(*ssa.BinOp)
				if !ok || bo.Op != token.ADD || bo.X != ssa.Value(phi) || !isConstInt(bo.Y, 1) {
					okCount = false
				}
			} else if !isConstInt(e, 0) {
				okCount = false
			}
		}
	}
	c.Ob(rule, dir+": goto decoder loop bounds", fmt.Sprint(dims) == fmt.Sprint(bounds) && len(dims) == 2 && okCount, fmt.Sprintf("loops run from 0 in steps of 1 (%v) to %v, table dimensions are %v", okCount, bounds, dims))
}

// ---- R12.3: flag confinement -------------------------------------------------------------------

func flagCalls(p *Prog, method string) []*ssa.Call {
	var out []*ssa.Call
	for _, fn := range sortedFuncs(p.Reach) {
		if strings.Contains(fn.String(), "/internal/zz") {
			continue
		}
		for _, b := range fn.Blocks {
			for _, in := range b.Instrs {
				call, ok := in.(*ssa.Call)
				if !ok {
					continue
				}
				if call.Call.IsInvoke() && call.Call.Method.Name() == method && isNamed(call.Call.Value.Type(), gomod+"/internal/config", "Config") {
					out = append(out, call)
				}
				if f := call.Call.StaticCallee(); f != nil && f.Name() == method && f.Signature.Recv() != nil && isNamed(f.Signature.Recv().Type(), gomod+"/internal/config", "ConfigRecord") {
					out = append(out, call)
				}
			}
		}
	}
	return out
}

// usesOnlyAsCond: every use of v is a branch condition (possibly through !).
func usesOnlyAsCond(v ssa.Value) (bool, []*ssa.If) {
	var ifs []*ssa.If
	for _, r := range *v.Referrers() {
		switch x := r.(type) {
		case *ssa.If:
			ifs = append(ifs, x)
		case *ssa.UnOp:
			if x.Op != token.NOT {
				return false, nil
			}
			ok, more := usesOnlyAsCond(x)
			if !ok {
				return false, nil
			}
			ifs = append(ifs, more...)
		case *ssa.DebugRef:
		default:
			return false, nil
		}
	}
	return true, ifs
}

func checkFlagConfinement(c *Ctx, p *Prog, rule string) {
	// Zip
	for _, call := range flagCalls(p, "Zip") {
		fn := call.Parent()
		okAll := true
		detail := ""
		for _, r := range *call.Referrers() {
			cc, ok := r.(*ssa.Call)
			if !ok {
				okAll = false
				detail += " used by " + r.String()
				continue
			}
			callee := cc.Call.StaticCallee()
			if callee == nil || !p.IsModFn(callee) {
				okAll = false
				continue
			}
			for i, a := range cc.Call.Args {
				if a == ssa.Value(call) {
					if ok, _ := usesOnlyAsCond(callee.Params[i]); !ok {
						okAll = false
						detail += " parameter " + callee.Params[i].Name() + " of " + callee.Name() + " is not only a branch condition"
					}
				}
			}
		}
		c.Ob(rule, "Zip() in "+p.FnName(fn), okAll && len(*call.Referrers()) > 0, "the -zip flag may only select between the plain and the compressed table writer"+detail, p.Pos(call.Pos()))
	}
	// DebugLexer / DebugParser
	for _, m := range []string{"DebugLexer", "DebugParser"} {
		calls := flagCalls(p, m)
		if len(calls) == 0 {
			c.Undecided(rule, m, "no use found")
		}
		for _, call := range calls {
			fn := call.Parent()
			if strings.HasSuffix(fn.Pkg.Pkg.Path(), "/config") {
				if ok, _ := usesOnlyAsCond(call); ok {
					c.Ob(rule, m+"() in "+p.FnName(fn), true, "consistency test of the flags")
					continue
				}
			}
			ok := true
			for _, r := range *call.Referrers() {
				st, isSt := r.(*ssa.Store)
				if !isSt {
					ok = false
					continue
				}
				fa, isFA := st.Addr.(*ssa.FieldAddr)
				if !isFA || fieldVar(fa).Name() != "Debug" {
					ok = false
				}
			}
			c.Ob(rule, m+"() in "+p.FnName(fn), ok, "the debug flag may only become the template's Debug field (whose effect R12.1 bounds to print statements)", p.Pos(call.Pos()))
		}
	}
	// NoLexer
	for _, call := range flagCalls(p, "NoLexer") {
		ok, ifs := usesOnlyAsCond(call)
		fn := call.Parent()
		detail := "only a branch condition"
		if ok && fn.Name() == "main" {
			// the guarded region contains exactly the lexer generator
			for _, iff := range ifs {
				var calls []string
				for _, cs := range callsControlledBy(p, fn, iff) {
					if !strings.HasPrefix(cs, "invoke ") { // config getters are pure
						calls = append(calls, cs)
					}
				}
				want := len(calls) == 1 && strings.HasSuffix(calls[0], "lexer/gen/golang.Gen")
				detail = fmt.Sprintf("controls %v", calls)
				ok = ok && want
			}
		}
		c.Ob(rule, "NoLexer() in "+p.FnName(fn), ok, "-no_lexer may only skip the lexer generator: "+detail, p.Pos(call.Pos()))
	}
	// Verbose
	for _, call := range flagCalls(p, "Verbose") {
		ok, ifs := usesOnlyAsCond(call)
		fn := call.Parent()
		detail := ""
		for _, iff := range ifs {
			for _, cs := range callsControlledBy(p, fn, iff) {
				allowed := strings.HasSuffix(cs, ".PrintParams") || cs == gomod+".writeTerminals" || strings.HasSuffix(cs, "io.WriteFileString") || strings.HasSuffix(cs, "io.WriteFile") ||
					cs == "path.Join" || strings.HasSuffix(cs, ".String") || cs == gomod+".conflictString" || strings.HasPrefix(cs, "invoke ")
				if !allowed {
					ok = false
					detail += " " + cs
				}
			}
		}
		c.Ob(rule, "Verbose() in "+p.FnName(fn), ok, "-v may only add diagnostics (parameter dump, *.txt files); other calls under its control:"+detail, p.Pos(call.Pos()))
	}
}

// callsControlledBy: callees of calls in blocks control-dependent on the branch.
func callsControlledBy(p *Prog, fn *ssa.Function, iff *ssa.If) []string {
	pd := postDominators(fn)
	b := iff.Block()
	var out []string
	for _, x := range fn.Blocks {
		if x == b {
			continue
		}
		dep := false
		for _, s := range b.Succs {
			if pd[s.Index][x.Index] && !pd[b.Index][x.Index] {
				dep = true
			}
		}
		if !dep {
			continue
		}
		for _, in := range x.Instrs {
			if call, ok := in.(ssa.CallInstruction); ok {
				cc := call.Common()
				if _, isB := cc.Value.(*ssa.Builtin); isB {
					continue
				}
				if f := cc.StaticCallee(); f != nil {
					out = append(out, f.String())
				} else if cc.IsInvoke() {
					out = append(out, "invoke "+cc.Method.Name())
				} else {
					out = append(out, "dynamic call")
				}
			}
		}
	}
	return out
}

func runC12(c *Ctx) {
	p := c.RepoProg()
	if !gmHealth(c, p, "R12.0") {
		return
	}
	checkDebugPurity(c, p, "R12.1")
	checkZipAgreement(c, p, "R12.2")
	checkFlagConfinement(c, p, "R12.3")
	c.Assumptions = append(c.Assumptions, "encoding/gob and compress/gzip reproduce the encoded value (library fidelity) — NOT decided",
		"fmt print functions write to stdout only")
	c.Trusted = append(c.Trusted, "go/parser, go/printer (statement comparison)", "go/ssa", "checker/sx.go")
	checkZipNames(c, p, "R12.7")
	c.Explanation = "C12 decided structurally: (R12.1) the debug instantiation of lexer.go / parser.go equals the plain one up to inserted fmt.Printf/Println statements (optionally under a call-free condition) whose operands call only effect-free functions — no other statement, declaration or file changes; (R12.2) -zip: the gob payload types gocc encodes are identical to the types the generated init() decodes into; encoder arms map Accept/Reduce/Shift to codes 0/1/2 with Amount = the action's number and skip Error, the decoder maps 0/1/2 to accept(true)/reduce(Amount)/shift(Amount) in column Index, copies canRecover and every goto cell over exactly the table dimensions, and both writers read the same sources (set.Action of the same symbol list, NextSetIndex over NTList) — so the decoded tables equal the literal ones; (R12.3) the flag getters are confined: Zip() only selects the writer, DebugLexer/DebugParser only become the template's Debug field, NoLexer only skips the lexer generator, Verbose only adds diagnostics. NOT decided: gob/gzip round-trip fidelity."
}

func isConstInt(v ssa.Value, n int64) bool {
	c, ok := v.(*ssa.Const)
	return ok && c.Value != nil && c.Int64() == n
}

// R12.6: with -zip the tables must be complete as soon as anything can use them. Package-level variables are
// initialised before any init() function runs, in dependency order; the file header of the grammar is copied
// into package parser and may declare a variable whose initialiser parses something. The plain tables are
// composite literals (complete by dependency order); the compressed ones must therefore be the values of their
// own initialisers, not filled in by an init() function.
func checkZipInitOrder(c *Ctx, p *Prog, rule, dir string) {
	sp := p.SSAPkg(gmRoot + "/" + dir)
	if sp == nil {
		c.Undecided(rule, dir, "model package missing")
		return
	}
	for _, tab := range []string{"actionTab", "gotoTab"} {
		var writers []string
		for _, fn := range pkgFunctions(p, sp) {
			if !strings.HasPrefix(fn.Name(), "init#") {
				continue
			}
			for _, b := range fn.Blocks {
				for _, in := range b.Instrs {
					var addr ssa.Value
					switch x := in.(type) {
					case *ssa.Store:
						addr = x.Addr
					default:
						continue
					}
					for i := 0; i < 6 && addr != nil; i++ {
						switch a := addr.(type) {
						case *ssa.Global:
							if a.Name() == tab {
								writers = append(writers, fn.Name())
							}
							addr = nil
						case *ssa.IndexAddr:
							addr = a.X
						case *ssa.FieldAddr:
							addr = a.X
						default:
							addr = nil
						}
					}
				}
			}
		}
		c.Ob(rule, dir+": "+tab+" is complete before any init function runs", len(writers) == 0, fmt.Sprintf("written by %v; required: the table is the value of its own initialiser — a package-level variable declared in the grammar's file header (copied into package parser) is initialised before init() runs and would parse with empty tables, unlike the plain variant", uniqStrings(writers)))
	}
}

func uniqStrings(in []string) []string {
	seen := map[string]bool{}
	var out []string
	for _, s := range in {
		if !seen[s] {
			seen[s] = true
			out = append(out, s)
		}
	}
	return out
}

// R12.7: the -zip files bring no names into package parser that the plain files do not bring. The grammar's
// file header is copied into the package; a package-level identifier it declares collides with an imported
// package of the same name in any file of the package.
func checkZipNames(c *Ctx, p *Prog, rule string) {
	names := func(dir string) map[string]string {
		out := map[string]string{}
		pk := p.Pkg(gmRoot + "/" + dir)
		if pk == nil {
			return nil
		}
		for _, f := range pk.Syntax {
			for _, im := range f.Imports {
				path := strings.Trim(im.Path.Value, `"`)
				n := path[strings.LastIndex(path, "/")+1:]
				if im.Name != nil {
					n = im.Name.Name
				}
				if n != "_" && n != "." {
					out[n] = path
				}
			}
		}
		return out
	}
	for _, pair := range [][2]string{{"parser_plain", "parser_zip"}, {"parser_debug", "parser_debugzip"}} {
		a, b := names(pair[0]), names(pair[1])
		if a == nil || b == nil {
			c.Undecided(rule, pair[1], "model package missing")
			continue
		}
		var extra []string
		for n, path := range b {
			if _, ok := a[n]; !ok {
				extra = append(extra, n+" ("+path+")")
			}
		}
		sort.Strings(extra)
		c.Ob(rule, pair[1]+": imported package names beyond those of "+pair[0], len(extra) == 0, fmt.Sprintf("extra names %v; a file header that declares a package-level identifier with one of these names compiles without -zip and does not compile with it", extra))
	}
}
