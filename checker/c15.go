package main

import (
	"bytes"
	"fmt"
	"go/ast"
	"go/constant"
	"go/printer"
	"go/token"
	"go/types"
	"os"
	"path/filepath"
	"regexp"
	"sort"
	"strings"

	"golang.org/x/tools/go/packages"
	"golang.org/x/tools/go/ssa"
)

func init() { register("C15", "translation_validation", runC15) }

// ---- reading the checked-in tables ------------------------------------------------

type feProd struct {
	Str        string
	Head       string
	NumSymbols int
	Func       *ast.FuncLit
	Body       []string // parsed from Str
	SDTInStr   string
	Pos        token.Pos
}

type feAction struct {
	Kind string // "shift", "reduce", "accept"
	N    int
}

type feTables struct {
	Prods      []feProd
	Actions    []map[int]feAction
	CanRecover []bool
	Gotos      []map[string]int
	TokNames   []string // index = token type; [0] = end marker
	pkg        *packages.Package
}

func findVarInit(pk *packages.Package, name string) ast.Expr {
	for _, f := range pk.Syntax {
		for _, d := range f.Decls {
			gd, ok := d.(*ast.GenDecl)
			if !ok || gd.Tok != token.VAR {
				continue
			}
			for _, s := range gd.Specs {
				vs := s.(*ast.ValueSpec)
				for i, n := range vs.Names {
					if n.Name == name && i < len(vs.Values) {
						return vs.Values[i]
					}
				}
			}
		}
	}
	return nil
}

func constInt(info *types.Info, e ast.Expr) (int, bool) {
	tv, ok := info.Types[e]
	if !ok || tv.Value == nil {
		return 0, false
	}
	v, exact := constant.Int64Val(constant.ToInt(tv.Value))
	return int(v), exact
}

func constStr(info *types.Info, e ast.Expr) (string, bool) {
	tv, ok := info.Types[e]
	if !ok || tv.Value == nil || tv.Value.Kind() != constant.String {
		return "", false
	}
	return constant.StringVal(tv.Value), true
}

// structFields maps a composite literal of a struct type to field name -> expr.
func structFields(info *types.Info, cl *ast.CompositeLit) (map[string]ast.Expr, error) {
	tv, ok := info.Types[cl]
	if !ok {
		return nil, fmt.Errorf("untyped composite literal")
	}
	t := tv.Type
	if p, ok := t.Underlying().(*types.Pointer); ok {
		t = p.Elem()
	}
	st, ok := t.Underlying().(*types.Struct)
	if !ok {
		return nil, fmt.Errorf("composite literal of non-struct type %s", t)
	}
	out := map[string]ast.Expr{}
	for i, e := range cl.Elts {
		if kv, ok := e.(*ast.KeyValueExpr); ok {
			out[kv.Key.(*ast.Ident).Name] = kv.Value
		} else {
			if i >= st.NumFields() {
				return nil, fmt.Errorf("too many positional fields")
			}
			out[st.Field(i).Name()] = e
		}
	}
	return out, nil
}

func unparen(e ast.Expr) ast.Expr {
	for {
		switch x := e.(type) {
		case *ast.ParenExpr:
			e = x.X
		case *ast.UnaryExpr:
			if x.Op == token.AND {
				e = x.X
			} else {
				return e
			}
		default:
			return e
		}
	}
}

func readFrontEndTables(p *Prog) (*feTables, error) {
	pk := p.Pkg("internal/frontend/parser")
	if pk == nil {
		return nil, fmt.Errorf("package internal/frontend/parser not loaded")
	}
	info := pk.TypesInfo
	t := &feTables{pkg: pk}

	// productions
	pe, ok := unparen(findVarInit(pk, "ProductionsTable")).(*ast.CompositeLit)
	if !ok {
		return nil, fmt.Errorf("ProductionsTable is not a composite literal")
	}
	for _, e := range pe.Elts {
		cl, ok := unparen(e).(*ast.CompositeLit)
		if !ok {
			return nil, fmt.Errorf("production entry is not a composite literal")
		}
		fs, err := structFields(info, cl)
		if err != nil {
			return nil, err
		}
		var pr feProd
		pr.Pos = cl.Pos()
		if pr.Str, ok = constStr(info, fs["String"]); !ok {
			return nil, fmt.Errorf("production String not constant")
		}
		if pr.Head, ok = constStr(info, fs["Head"]); !ok {
			return nil, fmt.Errorf("production Head not constant")
		}
		if pr.NumSymbols, ok = constInt(info, fs["NumSymbols"]); !ok {
			return nil, fmt.Errorf("production NumSymbols not constant")
		}
		if pr.Func, ok = fs["ReduceFunc"].(*ast.FuncLit); !ok {
			return nil, fmt.Errorf("production ReduceFunc is not a function literal")
		}
		t.Prods = append(t.Prods, pr)
	}

	// actions
	ae, ok := unparen(findVarInit(pk, "ActionTable")).(*ast.CompositeLit)
	if !ok {
		return nil, fmt.Errorf("ActionTable is not a composite literal")
	}
	for _, e := range ae.Elts {
		cl, ok := unparen(e).(*ast.CompositeLit)
		if !ok {
			return nil, fmt.Errorf("action row is not a composite literal")
		}
		fs, err := structFields(info, cl)
		if err != nil {
			return nil, err
		}
		cr := false
		if x, ok := fs["canRecover"]; ok {
			tv := info.Types[x]
			if tv.Value == nil {
				return nil, fmt.Errorf("canRecover not constant")
			}
			cr = constant.BoolVal(tv.Value)
		}
		row := map[int]feAction{}
		if ax, ok := fs["Actions"]; ok {
			acl, ok := unparen(ax).(*ast.CompositeLit)
			if !ok {
				return nil, fmt.Errorf("Actions is not a composite literal")
			}
			for _, kv0 := range acl.Elts {
				kv, ok := kv0.(*ast.KeyValueExpr)
				if !ok {
					return nil, fmt.Errorf("Actions element without key")
				}
				k, ok := constInt(info, kv.Key)
				if !ok {
					return nil, fmt.Errorf("Actions key not constant")
				}
				call, ok := unparen(kv.Value).(*ast.CallExpr)
				if !ok || len(call.Args) != 1 {
					return nil, fmt.Errorf("action value is not a conversion")
				}
				ftv := info.Types[call.Fun]
				if !ftv.IsType() {
					return nil, fmt.Errorf("action value is not a type conversion")
				}
				n, ok := constInt(info, call.Args[0])
				if !ok {
					return nil, fmt.Errorf("action operand not constant")
				}
				nm, ok := ftv.Type.(*types.Named)
				if !ok {
					return nil, fmt.Errorf("action type not named")
				}
				var kind string
				switch nm.Obj().Name() {
				case "Shift":
					kind = "shift"
				case "Reduce":
					kind = "reduce"
				case "Accept":
					kind = "accept"
				default:
					return nil, fmt.Errorf("unknown action type %s", nm.Obj().Name())
				}
				if _, dup := row[k]; dup {
					return nil, fmt.Errorf("duplicate key %d in action row %d", k, len(t.Actions))
				}
				row[k] = feAction{kind, n}
			}
		}
		t.Actions = append(t.Actions, row)
		t.CanRecover = append(t.CanRecover, cr)
	}

	// gotos
	ge, ok := unparen(findVarInit(pk, "GotoTable")).(*ast.CompositeLit)
	if !ok {
		return nil, fmt.Errorf("GotoTable is not a composite literal")
	}
	for _, e := range ge.Elts {
		cl, ok := unparen(e).(*ast.CompositeLit)
		if !ok {
			return nil, fmt.Errorf("goto row is not a composite literal")
		}
		row := map[string]int{}
		for _, kv0 := range cl.Elts {
			kv, ok := kv0.(*ast.KeyValueExpr)
			if !ok {
				return nil, fmt.Errorf("goto element without key")
			}
			k, ok := constStr(info, kv.Key)
			if !ok {
				return nil, fmt.Errorf("goto key not constant")
			}
			var arg ast.Expr = kv.Value
			if call, ok := unparen(kv.Value).(*ast.CallExpr); ok && len(call.Args) == 1 && info.Types[call.Fun].IsType() {
				arg = call.Args[0]
			}
			n, ok := constInt(info, arg)
			if !ok {
				return nil, fmt.Errorf("goto target not constant")
			}
			row[k] = n
		}
		t.Gotos = append(t.Gotos, row)
	}

	// token names
	tk := p.Pkg("internal/frontend/token")
	if tk == nil {
		return nil, fmt.Errorf("package internal/frontend/token not loaded")
	}
	call, ok := findVarInit(tk, "FRONTENDTokens").(*ast.CallExpr)
	if !ok || len(call.Args) != 1 {
		return nil, fmt.Errorf("FRONTENDTokens is not a call with one argument")
	}
	if id, ok := call.Fun.(*ast.Ident); !ok || id.Name != "NewMapFromStrings" {
		return nil, fmt.Errorf("FRONTENDTokens is not built by NewMapFromStrings")
	}
	lit, ok := call.Args[0].(*ast.CompositeLit)
	if !ok {
		return nil, fmt.Errorf("FRONTENDTokens argument is not a literal")
	}
	t.TokNames = []string{lrEnd}
	for _, e := range lit.Elts {
		s, ok := constStr(tk.TypesInfo, e)
		if !ok {
			return nil, fmt.Errorf("token name not constant")
		}
		t.TokNames = append(t.TokNames, s)
	}
	return t, nil
}

var sdtVarRe = regexp.MustCompile(`\$(?:[0-9]+|T[0-9]+|Context)`)

// sdtToGo mirrors the documented meaning of $n / $Tn / $Context.
func sdtToGo(s string) string {
	return strings.TrimSpace(sdtVarRe.ReplaceAllStringFunc(s, func(m string) string {
		switch m[1] {
		case 'T':
			return "X[" + m[2:] + "].(*token.Token)"
		case 'C':
			return "C"
		}
		return "X[" + m[1:] + "]"
	}))
}

func squeeze(s string) string {
	return strings.Join(strings.Fields(s), "")
}

func runC15(c *Ctx) {
	p := c.RepoProg()
	c.Programs = 1
	specPath := filepath.Join(c.Repo, "spec", "gocc2.ebnf")
	src, err := os.ReadFile(specPath)
	if err != nil {
		c.Undecided("R15.1", "spec/gocc2.ebnf", err.Error())
		return
	}
	g, err := parseSyntaxBNF(string(src))
	if err != nil {
		c.Undecided("R15.1", "spec/gocc2.ebnf", "cannot read the specification grammar: "+err.Error())
		return
	}
	A := buildLR1(g)
	c.Note("R15.1: spec grammar: %d productions (with S'), %d terminals, %d nonterminals; canonical LR(1): %d states", len(g.Prods), len(g.Terms), len(g.NTs), len(A.states))
	T, err := readFrontEndTables(p)
	if err != nil {
		c.Undecided("R15.1", "internal/frontend/parser/tables.go", "cannot read the tables: "+err.Error())
		return
	}
	c.Note("R15.1: tables.go: %d productions, %d action rows, %d goto rows, %d token types", len(T.Prods), len(T.Actions), len(T.Gotos), len(T.TokNames))
	if len(T.Actions) < 100 || len(T.Prods) < 35 {
		c.Undecided("R15.1", "vacuity", "tables smaller than confirmed by hand (120 states, 40 productions)")
	}

	// conflicts in the specification grammar itself?
	nconf := 0
	for s := range A.states {
		for _, t := range append(append([]string{}, g.Terms...), lrEnd) {
			if len(A.actions(s, t)) > 1 {
				nconf++
			}
		}
	}
	c.Ob("R15.1", "spec is LR(1)", nconf == 0, fmt.Sprintf("%d state/terminal pairs with more than one canonical action", nconf))

	// token alphabet
	tokType := map[string]int{}
	for i, n := range T.TokNames {
		if _, dup := tokType[n]; dup {
			c.Ob("R15.1", "token alphabet", false, "duplicate token name "+n)
		}
		tokType[n] = i
	}
	for _, t := range g.Terms {
		_, ok := tokType[t]
		c.Ob("R15.1", "terminal "+t, ok, "every terminal of the specification has a front-end token type")
	}
	checkTokenMapConstruction(c, p)

	// productions: match table entries with spec productions by (head, body)
	specIdx := map[string]int{}
	for i := range g.Prods {
		specIdx[g.prodString(i)] = i
	}
	prodMap := map[int]int{} // table index -> spec index
	usedSpec := map[int]bool{}
	for i := range T.Prods {
		pr := &T.Prods[i]
		str := pr.Str
		str = strings.TrimSuffix(strings.TrimSpace(str), ";")
		if k := strings.Index(str, "<<"); k >= 0 {
			pr.SDTInStr = strings.TrimSpace(strings.TrimSuffix(strings.TrimSpace(str[k+2:]), ">>"))
			str = str[:k]
		}
		f := strings.Fields(str)
		name := fmt.Sprintf("production[%d] %q", i, pr.Str)
		if len(f) < 2 || f[1] != ":" {
			c.Ob("R15.1", name, false, "cannot parse the String field")
			continue
		}
		pr.Body = f[2:]
		head := f[0]
		if head == "S!" {
			head = "S'"
		}
		key := head + " : " + strings.Join(pr.Body, " ")
		si, ok := specIdx[key]
		if !ok {
			c.Ob("R15.1", name, false, "no production of spec/gocc2.ebnf has this head and body", p.Pos(pr.Pos))
			continue
		}
		if usedSpec[si] {
			c.Ob("R15.1", name, false, "spec production matched twice", p.Pos(pr.Pos))
			continue
		}
		usedSpec[si] = true
		prodMap[i] = si
		okHead := pr.Head == f[0]
		okNum := pr.NumSymbols == len(g.Prods[si].Body)
		// semantic action
		var buf bytes.Buffer
		okFn := false
		want := "returnX[0],nil"
		if g.Prods[si].SDT != "" {
			want = squeeze("return " + sdtToGo(g.Prods[si].SDT))
		}
		got := ""
		if len(pr.Func.Body.List) == 1 {
			printer.Fprint(&buf, p.Fset, pr.Func.Body.List[0])
			got = squeeze(buf.String())
			okFn = got == want
		}
		c.Ob("R15.1", name, okHead && okNum && okFn,
			fmt.Sprintf("Head field %q (want %q); NumSymbols %d (want %d); action %q (want %q)", pr.Head, f[0], pr.NumSymbols, len(g.Prods[si].Body), got, want), p.Pos(pr.Pos))
		c.Cells++
	}
	for i := range g.Prods {
		if !usedSpec[i] {
			c.Ob("R15.1", "spec production "+g.prodString(i), false, "not present in tables.go")
		}
	}
	if len(T.Actions) != len(T.Gotos) {
		c.Ob("R15.1", "table shape", false, fmt.Sprintf("%d action rows vs %d goto rows", len(T.Actions), len(T.Gotos)))
		return
	}

	// lock-step simulation
	pair := map[int]int{0: 0} // canonical state -> table state
	rev := map[int]int{0: 0}
	work := []int{0}
	mism := 0
	report := func(cs, ts int, what, detail string) {
		mism++
		if mism <= 12 {
			c.Ob("R15.1", fmt.Sprintf("table state %d, %s", ts, what), false, detail+fmt.Sprintf(" (canonical state %d: %s)", cs, A.describe(cs)))
		}
	}
	allToks := append([]string{lrEnd}, T.TokNames[1:]...)
	bind := func(cs, ts int, via string, fromC, fromT int) {
		if old, ok := pair[cs]; ok {
			if old != ts {
				report(fromC, fromT, via, fmt.Sprintf("target %d, but the canonical target is already paired with table state %d", ts, old))
			}
			return
		}
		if oc, ok := rev[ts]; ok && oc != cs {
			report(fromC, fromT, via, fmt.Sprintf("table state %d is the target for two different canonical states (%d and %d)", ts, oc, cs))
			return
		}
		if ts < 0 || ts >= len(T.Actions) {
			report(fromC, fromT, via, fmt.Sprintf("target %d out of range", ts))
			return
		}
		pair[cs] = ts
		rev[ts] = cs
		work = append(work, cs)
	}
	for len(work) > 0 {
		cs := work[0]
		work = work[1:]
		ts := pair[cs]
		row := T.Actions[ts]
		seenKeys := map[int]bool{}
		for _, tn := range allToks {
			tt := tokType[tn]
			seenKeys[tt] = true
			c.Cells++
			acts := A.actions(cs, tn)
			got, has := row[tt]
			switch {
			case len(acts) == 0:
				if has {
					report(cs, ts, "token "+tn, fmt.Sprintf("table has %s(%d) where the grammar allows nothing", got.Kind, got.N))
				}
			case len(acts) > 1:
				// spec conflict: already reported
			case !has:
				report(cs, ts, "token "+tn, "table has no entry where the grammar requires "+acts[0])
			default:
				want := acts[0]
				switch {
				case want == "acc":
					if got.Kind != "accept" {
						report(cs, ts, "token "+tn, fmt.Sprintf("table has %s(%d), grammar requires accept", got.Kind, got.N))
					}
				case want[0] == 's':
					var n int
					fmt.Sscanf(want[1:], "%d", &n)
					if got.Kind != "shift" {
						report(cs, ts, "token "+tn, fmt.Sprintf("table has %s(%d), grammar requires a shift", got.Kind, got.N))
					} else {
						bind(n, got.N, "shift on "+tn, cs, ts)
					}
				case want[0] == 'r':
					var n int
					fmt.Sscanf(want[1:], "%d", &n)
					if got.Kind != "reduce" {
						report(cs, ts, "token "+tn, fmt.Sprintf("table has %s(%d), grammar requires reduce by %s", got.Kind, got.N, g.prodString(n)))
					} else if si, ok := prodMap[got.N]; !ok || si != n {
						report(cs, ts, "token "+tn, fmt.Sprintf("table reduces by production %d, grammar requires %s", got.N, g.prodString(n)))
					}
				}
			}
		}
		for k := range row {
			if !seenKeys[k] {
				report(cs, ts, fmt.Sprintf("token type %d", k), "action on a token type outside the alphabet")
			}
		}
		// gotos
		grow := T.Gotos[ts]
		nts := make([]string, 0, len(g.NTs))
		for nt := range g.NTs {
			nts = append(nts, nt)
		}
		sort.Strings(nts)
		for _, nt := range nts {
			c.Cells++
			n, ok := A.states[cs].trans["n:"+nt]
			tn, has := grow[nt]
			switch {
			case ok && !has:
				report(cs, ts, "goto "+nt, "missing goto entry")
			case !ok && has:
				report(cs, ts, "goto "+nt, fmt.Sprintf("goto entry %d where the grammar has none", tn))
			case ok && has:
				bind(n, tn, "goto "+nt, cs, ts)
			}
		}
		for nt := range grow {
			if !g.NTs[nt] {
				report(cs, ts, "goto "+nt, "goto on a symbol that is not a nonterminal of the specification")
			}
		}
	}
	c.Ob("R15.1", "lock-step simulation", mism == 0, fmt.Sprintf("%d mismatching cells; %d canonical states paired with %d table states", mism, len(pair), len(rev)))
	c.Ob("R15.1", "bijection", len(pair) == len(A.states) && len(rev) == len(T.Actions),
		fmt.Sprintf("canonical states %d (paired %d), table states %d (paired %d)", len(A.states), len(pair), len(T.Actions), len(rev)))
	// samples
	keys := make([]int, 0, len(pair))
	for k := range pair {
		keys = append(keys, k)
	}
	sort.Ints(keys)
	for i, k := range keys {
		if i < 8 {
			c.Sample(map[string]any{"canonical_state": k, "table_state": pair[k], "kernel": A.describe(k)})
		}
	}
	c.Extra["paired_states"] = len(pair)

	// R15.3 / R14.1: recovery must be inert in the front end
	checkFrontEndRecoveryInert(c, p, T, "R15.3")
	// R15.2: the driver
	checkFrontEndDriver(c, p, "R15.2")

	c.Trusted = append(c.Trusted, "go/parser, go/types (reading tables.go as syntax + constants)", "the checker's own BNF reader and canonical LR(1) construction (checker/lr.go)")
	c.Assumptions = append(c.Assumptions, "string literals \"error\" and \"empty\" of the specification are ordinary terminals (as the property states)")
	c.Explanation = "Translation validation of internal/frontend/parser/tables.go against spec/gocc2.ebnf: the checker reads the specification with its own reader, builds the canonical LR(1) automaton with its own construction and walks it in lock-step with the checked-in action/goto tables from the start state, pairing states; every cell (state x token type, state x nonterminal) must agree, the pairing must be a bijection covering every table row, every production must match in head, body, length and semantic action text. The driver loop (R15.2) and the inertness of error recovery (R15.3) are decided on the SSA of parser.go. Since the canonical automaton is deterministic and the spec is LR(1), cell-wise agreement up to state renaming implies equality of the accepted token languages and of the reduction sequences."
}

func (a *lrAutomaton) describe(s int) string {
	st := a.states[s]
	var parts []string
	for _, it := range st.items {
		if it.dot > 0 || it.prod == 0 {
			p := a.g.Prods[it.prod]
			var b []string
			for j, sy := range p.Body {
				if j == it.dot {
					b = append(b, "•")
				}
				b = append(b, sy.Name)
			}
			if it.dot == len(p.Body) {
				b = append(b, "•")
			}
			parts = append(parts, p.Head+" : "+strings.Join(b, " ")+" «"+it.la+"»")
		}
		if len(parts) >= 3 {
			parts = append(parts, "…")
			break
		}
	}
	return strings.Join(parts, "; ")
}

// checkTokenMapConstruction: NewMap registers the end marker first, so the
// names of FRONTENDTokens get types 1..n in order.
func checkTokenMapConstruction(c *Ctx, p *Prog) {
	fn := p.Func("internal/frontend/token", "NewMap")
	ok := false
	detail := "NewMap not found"
	if fn != nil {
		n, first := countAddToken(fn)
		ok = n == 1 && first == lrEnd
		detail = fmt.Sprintf("NewMap calls AddToken %d time(s), first with %q", n, first)
	}
	c.Ob("R15.1", "token numbering: end marker is type 0", ok, detail)
	fn2 := p.Func("internal/frontend/token", "*TokenMap.AddToken")
	ok2 := false
	if fn2 != nil {
		ok2 = addTokenAssignsLen(fn2)
	}
	c.Ob("R15.1", "token numbering: AddToken numbers by position", ok2, "AddToken stores Type(len(tokenMap)) for an unseen name and appends it")
}

func countAddToken(fn *ssa.Function) (int, string) {
	n := 0
	first := ""
	for _, b := range fn.Blocks {
		for _, in := range b.Instrs {
			call, ok := in.(*ssa.Call)
			if !ok {
				continue
			}
			if f := call.Call.StaticCallee(); f != nil && f.Name() == "AddToken" {
				n++
				if n == 1 {
					if k, ok := call.Call.Args[len(call.Call.Args)-1].(*ssa.Const); ok && k.Value != nil && k.Value.Kind() == constant.String {
						first = constant.StringVal(k.Value)
					}
				}
			}
		}
	}
	return n, first
}

// addTokenAssignsLen: some MapUpdate stores a conversion of len(<field>) and the
// same field is extended by append.
func addTokenAssignsLen(fn *ssa.Function) bool {
	lenOK, appOK := false, false
	for _, b := range fn.Blocks {
		for _, in := range b.Instrs {
			switch x := in.(type) {
			case *ssa.MapUpdate:
				v := x.Value
				for {
					if cv, ok := v.(*ssa.Convert); ok {
						v = cv.X
						continue
					}
					if cv, ok := v.(*ssa.ChangeType); ok {
						v = cv.X
						continue
					}
					break
				}
				if call, ok := v.(*ssa.Call); ok {
					if bi, ok := call.Call.Value.(*ssa.Builtin); ok && bi.Name() == "len" && fieldOfLoad(call.Call.Args[0]) != nil {
						lenOK = true
					}
				}
			case *ssa.Call:
				if bi, ok := x.Call.Value.(*ssa.Builtin); ok && bi.Name() == "append" && fieldOfLoad(x.Call.Args[0]) != nil {
					appOK = true
				}
			}
		}
	}
	return lenOK && appOK
}

// ctlDepsOf: the branch blocks on which block b is (transitively) control dependent.
func ctlDepsOf(fn *ssa.Function, b *ssa.BasicBlock) []*ssa.BasicBlock {
	pd := postDominators(fn)
	direct := func(x *ssa.BasicBlock) []*ssa.BasicBlock {
		var out []*ssa.BasicBlock
		for _, br := range fn.Blocks {
			if len(br.Succs) < 2 || br == x {
				continue
			}
			for _, s := range br.Succs {
				if pd[s.Index][x.Index] && !pd[br.Index][x.Index] {
					out = append(out, br)
					break
				}
			}
		}
		return out
	}
	seen := map[*ssa.BasicBlock]bool{}
	var out []*ssa.BasicBlock
	work := []*ssa.BasicBlock{b}
	for len(work) > 0 {
		x := work[0]
		work = work[1:]
		for _, d := range direct(x) {
			if !seen[d] {
				seen[d] = true
				out = append(out, d)
				work = append(work, d)
			}
		}
	}
	return out
}

// derivesFromField: the backward slice of v (within its function, following
// results of module callees two levels deep) contains a load of the named field.
func derivesFromField(p *Prog, v ssa.Value, typeName, field string, depth int, seen map[ssa.Value]bool) bool {
	if v == nil || seen[v] || depth > 3 {
		return false
	}
	seen[v] = true
	isField := func(t types.Type, idx int) bool {
		if pt, ok := t.Underlying().(*types.Pointer); ok {
			t = pt.Elem()
		}
		st, ok := t.Underlying().(*types.Struct)
		if !ok {
			return false
		}
		n, isNamed := t.(*types.Named)
		return st.Field(idx).Name() == field && (!isNamed || n.Obj().Name() == typeName || typeName == "")
	}
	switch x := v.(type) {
	case *ssa.FieldAddr:
		if isField(x.X.Type(), x.Field) {
			return true
		}
		return derivesFromField(p, x.X, typeName, field, depth, seen)
	case *ssa.Field:
		if isField(x.X.Type(), x.Field) {
			return true
		}
		return derivesFromField(p, x.X, typeName, field, depth, seen)
	case *ssa.Call:
		if f := x.Call.StaticCallee(); f != nil && p.IsModFn(f) && f.Blocks != nil {
			for _, b := range f.Blocks {
				if ret, ok := b.Instrs[len(b.Instrs)-1].(*ssa.Return); ok {
					for _, r := range ret.Results {
						if derivesFromField(p, r, typeName, field, depth+1, seen) {
							return true
						}
					}
				}
			}
		}
		return false
	}
	if in, ok := v.(ssa.Instruction); ok {
		for _, op := range in.Operands(nil) {
			if *op != nil && derivesFromField(p, *op, typeName, field, depth, seen) {
				return true
			}
		}
	}
	return false
}

// checkFrontEndRecoveryInert (R14.1 / R15.3): the front-end grammar has no
// error productions, so Parser.Error must never shift the "error" token.
func checkFrontEndRecoveryInert(c *Ctx, p *Prog, T *feTables, rule string) {
	E := -1
	for i, n := range T.TokNames {
		if n == "error" {
			E = i
		}
	}
	var rerr, rcan, both []int
	for i, row := range T.Actions {
		_, hasE := row[E]
		if E >= 0 && hasE {
			rerr = append(rerr, i)
		}
		if T.CanRecover[i] {
			rcan = append(rcan, i)
		}
		if hasE && T.CanRecover[i] {
			both = append(both, i)
		}
	}
	fn := p.Func("internal/frontend/parser", "*Parser.Error")
	if fn == nil {
		c.Undecided(rule, "frontend Parser.Error", "function not found")
		return
	}
	// the push that shifts "error"
	var pushes []*ssa.Call
	for _, b := range fn.Blocks {
		for _, in := range b.Instrs {
			if call, ok := in.(*ssa.Call); ok {
				if f := call.Call.StaticCallee(); f != nil && f.Name() == "Push" {
					pushes = append(pushes, call)
				}
			}
		}
	}
	if len(pushes) == 0 {
		c.Ob(rule, "frontend Parser.Error", true, "Error never pushes a state: recovery cannot shift anything", p.FnPos(fn))
		return
	}
	guarded := true
	for _, push := range pushes {
		g := false
		for _, br := range ctlDepsOf(fn, push.Block()) {
			if iff, ok := br.Instrs[len(br.Instrs)-1].(*ssa.If); ok {
				if derivesFromField(p, iff.Cond, "ActionRow", "canRecover", 0, map[ssa.Value]bool{}) {
					g = true
				}
			}
		}
		if !g {
			guarded = false
		}
	}
	c.Sample(map[string]any{"rule": rule, "error_token_type": E, "rows_with_error_entry": len(rerr), "rows_canRecover": len(rcan), "push_guarded_by_canRecover": guarded})
	if guarded {
		c.Ob(rule, "frontend Parser.Error: shift of \"error\" only in canRecover rows", len(both) == 0,
			fmt.Sprintf("push is guarded by canRecover; rows that are canRecover and have an entry for \"error\": %v", both), p.FnPos(fn))
	} else {
		c.Ob(rule, "frontend Parser.Error: unguarded shift of \"error\"", len(rerr) == 0,
			fmt.Sprintf("Error() pushes the shift target of the token \"error\" (type %d) whenever the top row has an entry for it, without consulting canRecover; %d rows have such an entry (first: %v) although no row is a recovery state (%d canRecover rows) — a syntax error in such a state is swallowed (witness: `b : 'b' ; A : ) b ;`)", E, len(rerr), head(rerr, 5), len(rcan)), p.FnPos(fn))
	}
}

func head(xs []int, n int) []int {
	if len(xs) > n {
		return xs[:n]
	}
	return xs
}

func checkFrontEndDriver(c *Ctx, p *Prog, rule string) {
	// decided by the transfer-table engine (E2); see driver.go
	checkLRDriver(c, p, rule, "internal/frontend/parser", "*Parser.Parse", true)
}
