package main

import (
	"fmt"
	"go/types"
	"strings"

	"golang.org/x/tools/go/ssa"
)

func init() {
	register("C05", "other", runC05)
}

const actionPkg = "internal/parser/lr1/action"

var actionKinds = []string{"Accept", "Error", "Shift", "Reduce"}

func actionType(p *Prog, kind string) types.Type {
	pk := p.Pkg(actionPkg)
	if pk == nil {
		return nil
	}
	o := pk.Types.Scope().Lookup(kind)
	if o == nil {
		return nil
	}
	return o.Type()
}

func pureSummary(name string) Summary {
	return func(r *Run, cc *ssa.CallCommon, args []Val) (Val, error) {
		parts := make([]string, len(args))
		for i, a := range args {
			parts[i] = render(a)
		}
		return VOpq{name + "(" + strings.Join(parts, ",") + ")"}, nil
	}
}

// resolveOutcome interprets <thisKind>.ResolveConflict(that) in the world
// (thatKind, this=tv, that=uv) and reports "this", "that", "panic" or an
// UNDECIDED text.
func resolveOutcome(p *Prog, thisKind, thatKind string, tv, uv int64) (string, *Outcome) {
	fn := p.Func(actionPkg, thisKind+".ResolveConflict")
	if fn == nil {
		return "undecided: method not found", nil
	}
	thatT := actionType(p, thatKind)
	reg := &Region{
		Fn:        fn,
		Params:    map[string]Val{},
		Summaries: map[string]Summary{"fmt.Sprintf": pureSummary("Sprintf")},
	}
	// receiver may be unnamed; parameters are bound by position
	recvName := fn.Params[0].Name()
	var thatV Val = VSym{Name: "that"}
	var thisV Val = VSym{Name: "this"}
	if thisKind == "Accept" || thisKind == "Error" {
		thisV = VOpq{"this"}
	}
	if thatKind == "Accept" || thatKind == "Error" {
		thatV = VOpq{"that"}
	}
	reg.Params[recvName] = thisV
	reg.Params[fn.Params[1].Name()] = VIface{Dyn: thatT, V: thatV}
	w := &MapWorld{Ints: map[string]int64{"this": tv, "that": uv}}
	out := InterpretSafe(reg, w)
	switch out.Term {
	case "panic":
		return "panic", out
	case "return":
		res := out.Results[0]
		wantThis := "action." + thisKind + "(this)"
		wantThat := "action." + thatKind + "(that)"
		switch res {
		case wantThis:
			return "this", out
		case wantThat:
			return "that", out
		}
		return "other:" + res, out
	}
	return "undecided: " + out.Undecided, out
}

func runC05(c *Ctx) {
	p := c.RepoProg()
	type row struct{ This, That, Order, Got, Want string }
	nWorlds := 0
	table := map[string]string{}
	for _, tk := range actionKinds {
		for _, uk := range actionKinds {
			orders := []string{"-"}
			if (tk == "Reduce" && uk == "Reduce") || (tk == "Shift" && uk == "Shift") {
				orders = []string{"<", "=", ">"}
			}
			for _, ord := range orders {
				tv, uv := int64(5), int64(5)
				switch ord {
				case "<":
					tv, uv = 3, 7
				case ">":
					tv, uv = 7, 3
				}
				got, _ := resolveOutcome(p, tk, uk, tv, uv)
				nWorlds++
				// expected, from the statement: shift beats reduce, lower production
				// beats higher, error is neutral, accept conflicts with everything
				var want []string
				switch {
				case tk == "Error":
					want = []string{"that"}
				case uk == "Error":
					want = []string{"this"}
				case tk == "Accept" || uk == "Accept":
					want = []string{"panic"}
				case tk == "Shift" && uk == "Shift":
					want = []string{"panic"}
				case tk == "Shift" && uk == "Reduce":
					want = []string{"this"}
				case tk == "Reduce" && uk == "Shift":
					want = []string{"that"}
				case tk == "Reduce" && uk == "Reduce":
					switch ord {
					case "<":
						want = []string{"this"}
					case ">":
						want = []string{"that"}
					default:
						want = []string{"this", "that"}
					}
				}
				ok := false
				for _, w := range want {
					if got == w {
						ok = true
					}
				}
				key := fmt.Sprintf("%s.ResolveConflict(%s) order %s", tk, uk, ord)
				table[tk+"|"+uk+"|"+ord] = got
				und := strings.HasPrefix(got, "undecided")
				if und {
					c.Undecided("R05.1", key, got)
				} else {
					c.Ob("R05.1", key, ok, fmt.Sprintf("code yields %q, the rule (shift > lowest production; error neutral; accept never resolvable) requires one of %v", got, want), p.FnPos(p.Func(actionPkg, tk+".ResolveConflict")))
				}
				c.Sample(row{tk, uk, ord, got, strings.Join(want, "|")})
			}
		}
	}
	c.Note("R05.1: %d worlds (receiver kind x argument kind x order of production indices) interpreted over 4 ResolveConflict methods", nWorlds)

	// R05.2: algebra of the extracted table on {Shift, Reduce i<j<k}
	type elem struct {
		name, kind string
		v          int64
	}
	elems := []elem{{"S", "Shift", 50}, {"R1", "Reduce", 1}, {"R2", "Reduce", 2}, {"R3", "Reduce", 3}}
	rank := map[string]int{"S": 0, "R1": 1, "R2": 2, "R3": 3} // smaller = preferred
	op := func(x, y elem) (elem, string) {
		if x.name == y.name {
			return x, "" // never passed to ResolveConflict: the fold keeps equal actions (R04.1)
		}
		got, _ := resolveOutcome(p, x.kind, y.kind, x.v, y.v)
		switch got {
		case "this":
			return x, ""
		case "that":
			return y, ""
		}
		return elem{}, got
	}
	nAlg, badAlg := 0, []string{}
	for _, x := range elems {
		for _, y := range elems {
			r1, e1 := op(x, y)
			r2, e2 := op(y, x)
			nAlg++
			if e1 != "" || e2 != "" {
				badAlg = append(badAlg, fmt.Sprintf("%s+%s: %s %s", x.name, y.name, e1, e2))
				continue
			}
			if r1.name != r2.name {
				badAlg = append(badAlg, fmt.Sprintf("not commutative: %s+%s=%s but %s+%s=%s", x.name, y.name, r1.name, y.name, x.name, r2.name))
			}
			want := x
			if rank[y.name] < rank[x.name] {
				want = y
			}
			if r1.name != want.name {
				badAlg = append(badAlg, fmt.Sprintf("%s+%s=%s, expected the preferred one %s", x.name, y.name, r1.name, want.name))
			}
			for _, z := range elems {
				a, ea := op(r1, z)
				yz, eb := op(y, z)
				if ea != "" || eb != "" {
					continue
				}
				b, ec := op(x, yz)
				nAlg++
				if ec == "" && a.name != b.name {
					badAlg = append(badAlg, fmt.Sprintf("not associative on (%s,%s,%s): %s vs %s", x.name, y.name, z.name, a.name, b.name))
				}
			}
		}
	}
	c.Ob("R05.2", "fold algebra on {Shift, Reduce i<j<k}", len(badAlg) == 0,
		fmt.Sprintf("%d identities checked on the extracted table (commutative, associative, = max under Shift > Reduce i > Reduce j > Reduce k, so a fold in any item order picks shift if present, else the lowest production); failures: %v", nAlg, badAlg))

	// the fold itself (shared with C04)
	checkLR1Fold(c, p, "R05.3")

	c.Assumptions = append(c.Assumptions, "two different shift actions never compete for one symbol: all shift items of a state on one symbol share Transitions[symbol] (F5)",
		"the item sets the fold runs over are those of the canonical LR(1) automaton (C02; not decided here)")
	c.Trusted = append(c.Trusted, "go/ssa", "the abstract interpreter checker/sx.go")
	c.Explanation = "C05 decided on the resolution rule itself: the four ResolveConflict methods are interpreted abstractly in every world (dynamic type of the other action x relative order of the production indices); the decision table they implement must be the one the statement gives (shift beats reduce, lower production index beats higher, error is neutral, accept cannot be resolved). On the extracted table the checker verifies that the operation is commutative, associative and equals max under Shift > Reduce i > Reduce j (i<j), so folding it over any number of competing items in any order yields 'shift if present, else the earliest production'. R05.3 decides the per-state fold that applies it (entries without competition are left alone). Not decided: the 'consequently ...' clause about the parser's verdict on token sequences, which needs C02."
}
