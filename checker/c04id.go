package main

// R04.6 / R02.8: the identity under which LR(1) items are de-duplicated (the key of
// ItemSet.imap, which also decides equality of states) must depend on every
// constructor input that Item.action depends on. Otherwise two items that the
// canonical automaton keeps apart (and whose actions differ) collapse into one, and
// the conflict between them is never seen.
//
// Dependence is computed on SSA: value-level inside the constructor, function-level
// (everything the function reads) for the helpers that build the key.

import (
	"fmt"
	"go/types"
	"sort"
	"strconv"
	"strings"

	"golang.org/x/tools/go/ssa"
)

type idAnalysis struct {
	p        *Prog
	fns      []*ssa.Function
	typeName string
	ctor     *ssa.Function
	memo     map[string]map[string]bool
	busy     map[string]bool
	reads    map[*ssa.Function]map[string]bool
}

func (a *idAnalysis) isItemPtr(t types.Type) bool {
	pt, ok := t.Underlying().(*types.Pointer)
	if !ok {
		return false
	}
	n, ok := pt.Elem().(*types.Named)
	return ok && n.Obj().Name() == a.typeName && n.Obj().Pkg() == a.ctor.Pkg.Pkg
}

func (a *idAnalysis) itemField(fa *ssa.FieldAddr) (string, bool) {
	if !a.isItemPtr(fa.X.Type()) {
		return "", false
	}
	return fieldVar(fa).Name(), true
}

// fieldsRead: fields of the item type read in fn or in the module functions it calls.
func (a *idAnalysis) fieldsRead(fn *ssa.Function, seen map[*ssa.Function]bool) map[string]bool {
	out := map[string]bool{}
	if fn == nil || seen[fn] || fn.Blocks == nil {
		return out
	}
	seen[fn] = true
	for _, b := range fn.Blocks {
		for _, in := range b.Instrs {
			switch x := in.(type) {
			case *ssa.UnOp:
				if fa, ok := x.X.(*ssa.FieldAddr); ok {
					if f, ok := a.itemField(fa); ok {
						out[f] = true
					}
				}
			case ssa.CallInstruction:
				if cal := x.Common().StaticCallee(); cal != nil && a.p.IsModFn(cal) {
					for f := range a.fieldsRead(cal, seen) {
						out[f] = true
					}
				}
			}
		}
	}
	return out
}

func union(dst, src map[string]bool) {
	for k := range src {
		dst[k] = true
	}
}

// rootAlloc follows address arithmetic back to a local allocation.
func rootAlloc(v ssa.Value) *ssa.Alloc {
	for i := 0; i < 20; i++ {
		switch x := v.(type) {
		case *ssa.Alloc:
			return x
		case *ssa.FieldAddr:
			v = x.X
		case *ssa.IndexAddr:
			v = x.X
		case *ssa.Slice:
			v = x.X
		default:
			return nil
		}
	}
	return nil
}

func (a *idAnalysis) deps(v ssa.Value, seen map[ssa.Value]bool) map[string]bool {
	out := map[string]bool{}
	if v == nil || seen[v] {
		return out
	}
	seen[v] = true
	if a.isItemPtr(v.Type()) {
		return out // which item it is does not matter; the fields read through it are accounted for where they are read
	}
	switch x := v.(type) {
	case *ssa.Const, *ssa.Global, *ssa.Function, *ssa.Builtin:
		return out
	case *ssa.Parameter:
		if a.isItemPtr(x.Type()) {
			return out // the fields loaded through it are what counts
		}
		if x.Parent() == a.ctor {
			out["param:"+x.Name()] = true
		} else {
			out["arg:"+x.Parent().Name()+"."+x.Name()] = true
		}
		return out
	case *ssa.Alloc:
		// everything stored into it, or handed to a call together with it
		for _, b := range x.Parent().Blocks {
			for _, in := range b.Instrs {
				switch y := in.(type) {
				case *ssa.Store:
					if rootAlloc(y.Addr) == x {
						union(out, a.deps(y.Val, seen))
						union(out, a.controlDeps(b, seen))
					}
				case ssa.CallInstruction:
					uses := false
					for _, arg := range y.Common().Args {
						if rootAlloc(arg) == x {
							uses = true
						}
					}
					if uses {
						for _, arg := range y.Common().Args {
							if rootAlloc(arg) != x {
								union(out, a.deps(arg, seen))
							}
						}
						union(out, a.controlDeps(b, seen))
						if cal := y.Common().StaticCallee(); cal != nil && a.p.IsModFn(cal) {
							for f := range a.fieldsRead(cal, map[*ssa.Function]bool{}) {
								union(out, a.fieldDeps(f))
							}
						}
					}
				}
			}
		}
		return out
	case *ssa.UnOp:
		if fa, ok := x.X.(*ssa.FieldAddr); ok {
			if f, ok := a.itemField(fa); ok {
				// a field of an item: whatever was stored there
				if rootAlloc(fa.X) != nil && fa.Parent() == a.ctor {
					// the item under construction: its own earlier stores
					union(out, a.fieldDeps(f))
					return out
				}
				union(out, a.fieldDeps(f))
				return out
			}
		}
		union(out, a.deps(x.X, seen))
		return out
	case *ssa.Call:
		for _, arg := range x.Call.Args {
			union(out, a.deps(arg, seen))
		}
		if x.Call.IsInvoke() {
			union(out, a.deps(x.Call.Value, seen))
		}
		if cal := x.Call.StaticCallee(); cal != nil && a.p.IsModFn(cal) {
			for f := range a.fieldsRead(cal, map[*ssa.Function]bool{}) {
				union(out, a.fieldDeps(f))
			}
		}
		return out
	case *ssa.Phi:
		for _, e := range x.Edges {
			union(out, a.deps(e, seen))
		}
		union(out, a.controlDeps(x.Block(), seen))
		for _, pb := range x.Block().Preds {
			union(out, a.controlDeps(pb, seen))
		}
		return out
	}
	if in, ok := v.(ssa.Instruction); ok {
		for _, op := range in.Operands(nil) {
			if *op != nil {
				union(out, a.deps(*op, seen))
			}
		}
	}
	return out
}

// controlDeps: what the conditions deciding whether block b runs depend on
// (conditions of all branches in blocks that dominate b but that b does not post-dominate).
func (a *idAnalysis) controlDeps(b *ssa.BasicBlock, seen map[ssa.Value]bool) map[string]bool {
	out := map[string]bool{}
	fn := b.Parent()
	pd := postDominators(fn)
	for _, d := range fn.Blocks {
		if d == b || !d.Dominates(b) {
			continue
		}
		if pd[b.Index][d.Index] { // b post-dominates d: runs whenever d does
			continue
		}
		if br, ok := d.Instrs[len(d.Instrs)-1].(*ssa.If); ok {
			union(out, a.deps(br.Cond, seen))
		}
	}
	return out
}

func (a *idAnalysis) fieldDeps(f string) map[string]bool {
	if m, ok := a.memo[f]; ok {
		return m
	}
	if a.busy[f] {
		return map[string]bool{}
	}
	a.busy[f] = true
	out := map[string]bool{}
	n := 0
	for _, fn := range a.fns {
		for _, b := range fn.Blocks {
			for _, in := range b.Instrs {
				st, ok := in.(*ssa.Store)
				if !ok {
					continue
				}
				fa, ok := st.Addr.(*ssa.FieldAddr)
				if !ok {
					continue
				}
				if g, ok := a.itemField(fa); !ok || g != f {
					continue
				}
				n++
				union(out, a.deps(st.Val, map[ssa.Value]bool{}))
				union(out, a.controlDeps(b, map[ssa.Value]bool{}))
			}
		}
	}
	if n == 0 {
		out["zero"] = true
	}
	a.busy[f] = false
	a.memo[f] = out
	return out
}

func setString(m map[string]bool) string {
	var ks []string
	for k := range m {
		ks = append(ks, k)
	}
	sort.Strings(ks)
	return "{" + strings.Join(ks, ", ") + "}"
}

func checkItemIdentity(c *Ctx, p *Prog, rule string) {
	sp := p.SSAPkg(lr1ItemsPkg)
	ctor := p.Func(lr1ItemsPkg, "NewItem")
	act := p.Func(lr1ItemsPkg, "*Item.action")
	if sp == nil || ctor == nil || act == nil {
		c.Undecided(rule, "lr1 item identity", "NewItem / Item.action not found")
		return
	}
	a := &idAnalysis{p: p, fns: pkgFunctions(p, sp), typeName: "Item", ctor: ctor, memo: map[string]map[string]bool{}, busy: map[string]bool{}}
	// what the action of an item depends on
	behaviour := map[string]bool{}
	bf := a.fieldsRead(act, map[*ssa.Function]bool{})
	for f := range bf {
		union(behaviour, a.fieldDeps(f))
	}
	var unknown []string
	for k := range behaviour {
		if !strings.HasPrefix(k, "param:") {
			unknown = append(unknown, k)
		}
	}
	if len(unknown) > 0 || len(behaviour) == 0 {
		c.Undecided(rule, "lr1 item identity", fmt.Sprintf("fields read by Item.action %s are written outside NewItem or not at all (%v): the identity rule knows only the constructor", setString(bf), unknown), p.FnPos(act))
		return
	}
	// every place that uses the identity: lookups and updates of ItemSet.imap with a key that comes from an item
	sites := 0
	for _, fn := range a.fns {
		for _, b := range fn.Blocks {
			for _, in := range b.Instrs {
				var m, key ssa.Value
				switch x := in.(type) {
				case *ssa.Lookup:
					m, key = x.X, x.Index
				case *ssa.MapUpdate:
					m, key = x.Map, x.Key
				default:
					continue
				}
				ld, ok := m.(*ssa.UnOp)
				if !ok {
					continue
				}
				fa, ok := ld.X.(*ssa.FieldAddr)
				if !ok || fieldVar(fa).Name() != "imap" {
					continue
				}
				kd := a.deps(key, map[ssa.Value]bool{})
				fromItem := false
				for k := range kd {
					if strings.HasPrefix(k, "param:") {
						fromItem = true
					}
				}
				if !fromItem {
					continue // a key taken from the map itself, or a caller-supplied string
				}
				sites++
				var missing []string
				for k := range behaviour {
					if !kd[k] {
						missing = append(missing, strings.TrimPrefix(k, "param:"))
					}
				}
				sort.Strings(missing)
				c.Ob(rule, fmt.Sprintf("lr1 item identity at %s (%T)", p.FnName(fn), in), len(missing) == 0,
					fmt.Sprintf("the key depends on NewItem inputs %s; Item.action (fields %s) depends on %s; not in the key: %v — items that differ only there are merged although their actions differ (e.g. two alternatives with the same body: Reduce(i) vs Reduce(j) is a conflict of the canonical automaton)", setString(kd), setString(bf), setString(behaviour), missing), p.Pos(in.Pos()))
			}
		}
	}
	if sites < 2 {
		c.Undecided(rule, "lr1 item identity", fmt.Sprintf("found %d uses of ItemSet.imap keyed by an item (expected the insert in AddItem and the test in Contain)", sites))
	}
}

// R04.7: the key is an injective rendering of (production index, dot position, look-ahead): a constant
// Sprintf format with the two integers as %d separated by something that is not a digit, and the
// look-ahead as the last verb. Renderings of the body (the item's string) are ambiguous: a terminal can be
// spelled like the dot.
func checkItemKeyInjective(c *Ctx, p *Prog, rule string) {
	ctor := p.Func(lr1ItemsPkg, "NewItem")
	if ctor == nil {
		c.Undecided(rule, "lr1 item key", "NewItem not found")
		return
	}
	var keyVal ssa.Value
	for _, b := range ctor.Blocks {
		for _, in := range b.Instrs {
			if st, ok := in.(*ssa.Store); ok {
				if fa, ok := st.Addr.(*ssa.FieldAddr); ok && fieldVar(fa).Name() == "key" {
					keyVal = st.Val
				}
			}
		}
	}
	call, _ := keyVal.(*ssa.Call)
	if call == nil || call.Call.StaticCallee() == nil || call.Call.StaticCallee().String() != "fmt.Sprintf" {
		c.Undecided(rule, "lr1 item key", "the key of an item is not built by one fmt.Sprintf call in NewItem; the injectivity argument knows only that form", p.FnPos(ctor))
		return
	}
	format, ok := call.Call.Args[0].(*ssa.Const)
	if !ok {
		c.Undecided(rule, "lr1 item key", "the format of the key is not a constant", p.FnPos(ctor))
		return
	}
	f := constantString(format)
	// arguments, in order
	var args []string
	if sl, ok := call.Call.Args[1].(*ssa.Slice); ok {
		if al, ok := sl.X.(*ssa.Alloc); ok {
			byIdx := map[int64]string{}
			for _, b := range ctor.Blocks {
				for _, in := range b.Instrs {
					st, ok := in.(*ssa.Store)
					if !ok {
						continue
					}
					ia, ok := st.Addr.(*ssa.IndexAddr)
					if !ok || ia.X != ssa.Value(al) {
						continue
					}
					idx, _ := constIntOf(ia.Index)
					v := st.Val
					if mi, ok := v.(*ssa.MakeInterface); ok {
						v = mi.X
					}
					if pa, ok := v.(*ssa.Parameter); ok {
						byIdx[idx] = pa.Name()
					} else {
						byIdx[idx] = "?"
					}
				}
			}
			for i := int64(0); i < int64(len(byIdx)); i++ {
				args = append(args, byIdx[i])
			}
		}
	}
	// verbs
	var verbs []string
	var seps []string
	cur := ""
	for i := 0; i < len(f); i++ {
		if f[i] == '%' && i+1 < len(f) {
			verbs = append(verbs, f[i:i+2])
			seps = append(seps, cur)
			cur = ""
			i++
			continue
		}
		cur += string(f[i])
	}
	ok2 := len(verbs) == 3 && len(args) == 3
	detail := fmt.Sprintf("format %q with arguments %v", f, args)
	if ok2 {
		ints := 0
		for i, a := range args {
			switch a {
			case "prodIdx", "pos":
				if verbs[i] != "%d" {
					ok2 = false
				}
				ints++
				if i > 0 && (seps[i] == "" || strings.ContainsAny(seps[i], "0123456789-")) {
					ok2 = false
				}
			case "followingSymbol":
				if i != 2 || (verbs[i] != "%s" && verbs[i] != "%q") || seps[i] == "" || cur != "" {
					ok2 = false
				}
			default:
				ok2 = false
			}
		}
		if ints != 2 {
			ok2 = false
		}
	}
	c.Ob(rule, "lr1 item key is an injective rendering of (production, dot, look-ahead)", ok2, detail+"; required: the two integers as %d with a non-digit between them, then a separator and the look-ahead as the last verb — a rendering of the body is ambiguous (S : a \"•\" ; has the items a •\"•\" and a \"•\"• with the same string)", p.FnPos(ctor))
}

func constantString(c *ssa.Const) string {
	if c.Value == nil {
		return ""
	}
	s := c.Value.ExactString()
	if u, err := strconv.Unquote(s); err == nil {
		return u
	}
	return s
}
