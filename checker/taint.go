package main

// E5 — unordered-iteration analysis.
//
// 1. every loop whose iteration order is not fixed by the language (range over
//    a map; range over a slice that is itself a permutation-valued sequence) is
//    classified against order-insensitive idioms;
// 2. loops that match no idiom are sources of order taint; the taint is
//    propagated by an explicit-flow, field-based analysis over the SSA of all
//    reachable module functions;
// 3. taint must not reach a determinism-relevant sink (.go output, exit status,
//    branch conditions).

import (
	"fmt"
	"go/constant"
	"go/token"
	"go/types"
	"sort"
	"strings"

	"golang.org/x/tools/go/ssa"
)

// ---- taint lattice ---------------------------------------------------------

// A taint is "full" (content depends on iteration order) and/or carries, per
// container depth d, the fact that d levels down lies a sequence whose multiset
// of elements is deterministic but whose order is not (PERM@d).
type taint struct {
	full  bool   // content depends on iteration order
	ident bool   // which reference (incl. whether it is nil) depends on iteration order
	perm  uint8  // PERM@d for each bit d
	src   uint64 // which unordered loops this taint stems from (bit = loop id)
}

func (t taint) clean() bool { return !t.full && !t.ident && t.perm == 0 }
func (t taint) join(o taint) taint {
	if o.clean() {
		return t
	}
	if t.clean() {
		return o
	}
	return taint{t.full || o.full, t.ident || o.ident, t.perm | o.perm, t.src | o.src}
}
func (t taint) wrap() taint { return taint{t.full, t.ident, t.perm << 1, t.src} }

// elem: what one gets by reading an element out of the container.
// If the container itself is a permuted sequence (PERM@0) a positional read
// gives an order-dependent value.
func (t taint) elem(positional bool) taint {
	r := taint{t.full, t.ident, t.perm >> 1, t.src}
	if positional && t.perm&1 != 0 {
		r.full, r.ident = true, true
	}
	if r.clean() {
		return taint{}
	}
	return r
}
func (t taint) fullify() taint {
	if t.perm != 0 || t.full || t.ident {
		return taint{full: true, ident: true, src: t.src}
	}
	return taint{}
}
func (t taint) String() string {
	if t.clean() {
		return "clean"
	}
	s := []string{}
	if t.full {
		s = append(s, "FULL")
	}
	if t.ident {
		s = append(s, "IDENT")
	}
	for d := 0; d < 8; d++ {
		if t.perm&(1<<d) != 0 {
			s = append(s, fmt.Sprintf("PERM@%d", d))
		}
	}
	return strings.Join(s, "+")
}

type retKey struct {
	fn *ssa.Function
	i  int
}
type tupKey struct {
	v ssa.Value
	i int
}

// ---- loops -------------------------------------------------------------------

type uloop struct {
	fn      *ssa.Function
	kind    string // "map" or "slice"
	header  *ssa.BasicBlock
	blocks  map[*ssa.BasicBlock]bool
	ranged  ssa.Value
	next    *ssa.Next
	idxPhi  *ssa.Phi
	idxNext ssa.Value // idx+1 value used for element access
	pos     token.Pos

	idiom    string
	detail   string
	safe     bool
	permOut  []ssa.Value // values that hold a permuted sequence after the loop
	srcMapOK bool
	id       int
	nextID   *int
}

func (lp *uloop) srcBit() uint64 {
	if lp.id < 0 {
		lp.id = *lp.nextID
		*lp.nextID++
	}
	return 1 << uint(lp.id%64)
}

type orderAnalysis struct {
	p         *Prog
	c         *Ctx
	fns       []*ssa.Function
	taints    map[any]taint
	why       map[any]string
	loops     []*uloop
	loopAt    map[*ssa.BasicBlock]*uloop // header -> loop
	sliceLp   map[*ssa.Function][]*uloop
	changed   bool
	pureMemo  map[*ssa.Function]int // 0 unknown,1 pure,2 impure,3 in progress
	insMemo   map[*ssa.Function]int
	writers   map[*ssa.Function][2]int // writer wrappers: [pathParam, dataParam]
	globalsW  map[*ssa.Global]bool     // globals stored outside init
	stringer  map[types.Type][]*ssa.Function
	implMemo  map[types.Type][]types.Type
	pdMemo    map[*ssa.Function][][]bool
	ctlBlocks map[*ssa.BasicBlock]bool
	ctlFns    map[*ssa.Function]bool
	ctlWhy    map[any]string
	ctlSrc    map[any]uint64
	allLoops  []*uloop
	nextID    int
}

func naturalLoop(header *ssa.BasicBlock) map[*ssa.BasicBlock]bool {
	blocks := map[*ssa.BasicBlock]bool{header: true}
	var stack []*ssa.BasicBlock
	for _, p := range header.Preds {
		if header.Dominates(p) {
			if !blocks[p] {
				blocks[p] = true
				stack = append(stack, p)
			}
		}
	}
	for len(stack) > 0 {
		b := stack[len(stack)-1]
		stack = stack[:len(stack)-1]
		for _, p := range b.Preds {
			if !blocks[p] {
				blocks[p] = true
				stack = append(stack, p)
			}
		}
	}
	return blocks
}

func (a *orderAnalysis) findLoops() {
	a.loopAt = map[*ssa.BasicBlock]*uloop{}
	a.sliceLp = map[*ssa.Function][]*uloop{}
	for _, fn := range a.fns {
		for _, b := range fn.Blocks {
			for _, in := range b.Instrs {
				switch in := in.(type) {
				case *ssa.Range:
					if _, ok := in.X.Type().Underlying().(*types.Map); !ok {
						continue
					}
					for _, r := range *in.Referrers() {
						nx, ok := r.(*ssa.Next)
						if !ok {
							continue
						}
						lp := &uloop{fn: fn, kind: "map", header: nx.Block(), ranged: in.X, next: nx, pos: in.Pos()}
						if !lp.pos.IsValid() {
							lp.pos = nx.Pos()
						}
						lp.blocks = naturalLoop(lp.header)
						a.loops = append(a.loops, lp)
						a.loopAt[lp.header] = lp
					}
				}
			}
			// slice range loops: header has a phi i, t = i+1, t < len(x)
			if lp := sliceRangeLoop(fn, b); lp != nil {
				a.sliceLp[fn] = append(a.sliceLp[fn], lp)
			}
		}
	}
}

// sliceRangeLoop recognises go/ssa's lowering of `for i, x := range s`:
//
//	header: i = phi [pre: -1, body: i1]; i1 = i + 1; c = i1 < len(s); if c body else done
func sliceRangeLoop(fn *ssa.Function, b *ssa.BasicBlock) *uloop {
	if len(b.Instrs) < 3 {
		return nil
	}
	phi, ok := b.Instrs[0].(*ssa.Phi)
	if !ok {
		return nil
	}
	var inc *ssa.BinOp
	var cmp *ssa.BinOp
	for _, in := range b.Instrs {
		if bo, ok := in.(*ssa.BinOp); ok {
			if bo.Op == token.ADD && bo.X == phi {
				if c, ok := bo.Y.(*ssa.Const); ok && c.Value != nil && constant.Compare(c.Value, token.EQL, constant.MakeInt64(1)) {
					inc = bo
				}
			}
			if bo.Op == token.LSS && inc != nil && bo.X == inc {
				cmp = bo
			}
		}
	}
	if inc == nil || cmp == nil {
		return nil
	}
	// initial value -1
	okInit := false
	for _, e := range phi.Edges {
		if c, ok := e.(*ssa.Const); ok && c.Value != nil && constant.Compare(c.Value, token.EQL, constant.MakeInt64(-1)) {
			okInit = true
		}
	}
	if !okInit {
		return nil
	}
	call, ok := cmp.Y.(*ssa.Call)
	if !ok {
		return nil
	}
	bi, ok := call.Call.Value.(*ssa.Builtin)
	if !ok || bi.Name() != "len" || len(call.Call.Args) != 1 {
		return nil
	}
	if _, ok := call.Call.Args[0].Type().Underlying().(*types.Slice); !ok {
		return nil
	}
	if _, ok := b.Instrs[len(b.Instrs)-1].(*ssa.If); !ok {
		return nil
	}
	lp := &uloop{fn: fn, kind: "slice", header: b, ranged: call.Call.Args[0], idxPhi: phi, idxNext: inc, pos: phi.Pos()}
	lp.blocks = naturalLoop(b)
	if !lp.pos.IsValid() {
		for blk := range lp.blocks {
			for _, in := range blk.Instrs {
				if in.Pos().IsValid() && (!lp.pos.IsValid() || in.Pos() < lp.pos) {
					lp.pos = in.Pos()
				}
			}
		}
	}
	return lp
}

// ---- helpers ----------------------------------------------------------------

func (lp *uloop) inLoop(v ssa.Value) bool {
	in, ok := v.(ssa.Instruction)
	if !ok {
		return false
	}
	return in.Block() != nil && in.Parent() == lp.fn && lp.blocks[in.Block()]
}

// iteration values of the loop: key/value extracts, element loads
func (lp *uloop) isIterVal(v ssa.Value) bool {
	switch x := v.(type) {
	case *ssa.Extract:
		if lp.next != nil && x.Tuple == lp.next {
			return true
		}
	case *ssa.UnOp:
		if x.Op == token.MUL {
			if ia, ok := x.X.(*ssa.IndexAddr); ok && lp.kind == "slice" && ia.X == lp.ranged && ia.Index == lp.idxNext {
				return true
			}
		}
	}
	return false
}

func (lp *uloop) rangeKey() ssa.Value {
	if lp.next == nil {
		return nil
	}
	for _, r := range *lp.next.Referrers() {
		if e, ok := r.(*ssa.Extract); ok && e.Index == 1 {
			return e
		}
	}
	return nil
}

func (a *orderAnalysis) globalStable(g *ssa.Global) bool {
	return !a.globalsW[g]
}

// invariant: value does not change between iterations of lp.
func (a *orderAnalysis) invariant(lp *uloop, v ssa.Value) bool {
	switch x := v.(type) {
	case *ssa.Const, *ssa.Global, *ssa.Function, *ssa.Parameter, *ssa.FreeVar, *ssa.Builtin:
		return true
	case *ssa.UnOp:
		if lp.inLoop(x) {
			if g, ok := x.X.(*ssa.Global); ok && x.Op == token.MUL && a.globalStable(g) {
				return true
			}
			return false
		}
		return true
	}
	return !lp.inLoop(v)
}

// pure external functions (no writes to anything reachable from arguments
// other than a locally created receiver, no I/O).
var pureExternal = map[string]bool{
	"fmt.Sprintf": true, "fmt.Sprint": true, "fmt.Sprintln": true, "fmt.Errorf": true, "errors.New": true,
	"strings.HasPrefix": true, "strings.HasSuffix": true, "strings.TrimPrefix": true, "strings.TrimSuffix": true,
	"strings.TrimSpace": true, "strings.Join": true, "strings.Split": true, "strings.Fields": true,
	"strings.Contains": true, "strings.Index": true, "strings.LastIndex": true, "strings.ReplaceAll": true, "strings.Repeat": true,
	"strings.ToLower": true, "strings.ToUpper": true, "strings.Title": true,
	"strconv.Itoa": true, "strconv.Quote": true, "strconv.Atoi": true, "strconv.FormatInt": true, "strconv.ParseInt": true, "strconv.ParseUint": true,
	"bytes.Equal": true, "bytes.Runes": true, "bytes.HasPrefix": true, "bytes.Index": true,
	"unicode.IsUpper": true, "unicode.IsLetter": true, "unicode.IsDigit": true, "unicode/utf8.DecodeRune": true,
	"path.Join": true, "path.Split": true, "math.Log10": true,
	"(*strings.Builder).String": true, "(*bytes.Buffer).String": true, "(*bytes.Buffer).Bytes": true, "(*bytes.Buffer).Len": true,
}

// isPureExternal: listed, or a plain function (no receiver) of a package whose
// functions only compute values from their arguments.
func isPureExternal(name string) bool {
	if pureExternal[name] {
		return true
	}
	if strings.HasPrefix(name, "(") {
		return name == "(*strings.Replacer).Replace"
	}
	switch name {
	case "path/filepath.ToSlash", "path/filepath.FromSlash", "path/filepath.Join", "path/filepath.Dir", "path/filepath.Base", "path/filepath.Clean", "path/filepath.Ext", "path/filepath.IsAbs", "path/filepath.Rel", "path/filepath.Split", "path/filepath.VolumeName":
		return true // the lexical ones; Abs, Glob, Walk, EvalSymlinks read the file system
	}
	for _, pk := range []string{"strings.", "strconv.", "unicode.", "unicode/utf8.", "path.", "math.", "errors."} {
		if strings.HasPrefix(name, pk) {
			return true
		}
	}
	return false
}

// writes to a receiver that the caller created locally: pure as seen from outside
var localWriterExternal = map[string]bool{
	"fmt.Fprintf": true, "fmt.Fprint": true, "fmt.Fprintln": true,
	"(*strings.Builder).WriteString": true, "(*strings.Builder).WriteByte": true, "(*strings.Builder).WriteRune": true,
	"(*bytes.Buffer).WriteString": true, "(*bytes.Buffer).Write": true, "(*bytes.Buffer).WriteByte": true, "(*bytes.Buffer).WriteRune": true,
}

func extName(f *ssa.Function) string {
	return f.String()
}

// baseAlloc returns the Alloc an address is derived from (through FieldAddr /
// IndexAddr chains), or nil.
func baseAlloc(v ssa.Value) *ssa.Alloc {
	for {
		switch x := v.(type) {
		case *ssa.Alloc:
			return x
		case *ssa.FieldAddr:
			v = x.X
		case *ssa.IndexAddr:
			v = x.X
		case *ssa.Slice:
			v = x.X
		default:
			return nil
		}
	}
}

// isLocalFresh: v is a pointer/slice derived from an Alloc of the same
// function that does not escape through anything but fmt-style writer calls.
func localBuilder(v ssa.Value) bool {
	al := baseAlloc(v)
	if al == nil {
		// new(strings.Builder) is an Alloc with Heap=true; also accept that.
		return false
	}
	return true
}

// isPure decides (optimistically for recursion) that f has no externally
// visible effect: no store outside its own allocations, no map update on maps
// it did not create, only pure calls. Panics are allowed.
func (a *orderAnalysis) isPure(f *ssa.Function) bool {
	if f == nil {
		return false
	}
	if !a.p.IsModFn(f) {
		return isPureExternal(extName(f))
	}
	switch a.pureMemo[f] {
	case 1, 3:
		return true
	case 2:
		return false
	}
	if f.Blocks == nil {
		a.pureMemo[f] = 2
		return false
	}
	a.pureMemo[f] = 3
	ok := true
	if len(mutatedParams(f)) > 0 {
		ok = false // edits memory handed in by the caller (append/copy/store through a parameter)
	}
	for _, b := range f.Blocks {
		for _, in := range b.Instrs {
			if !a.pureInstr(f, in) {
				ok = false
			}
		}
	}
	if ok {
		a.pureMemo[f] = 1
	} else {
		a.pureMemo[f] = 2
	}
	return ok
}

func freshMap(v ssa.Value) bool {
	_, ok := v.(*ssa.MakeMap)
	return ok
}

// freshEmptyMap: a make(map) that is never filled through this SSA value.
func freshEmptyMap(v ssa.Value) bool {
	mm, ok := v.(*ssa.MakeMap)
	if !ok {
		return false
	}
	for _, r := range *mm.Referrers() {
		switch r.(type) {
		case *ssa.Store, *ssa.DebugRef:
		default:
			return false
		}
	}
	return true
}

func (a *orderAnalysis) pureInstr(f *ssa.Function, in ssa.Instruction) bool {
	switch in := in.(type) {
	case *ssa.Store:
		return baseAlloc(in.Addr) != nil
	case *ssa.MapUpdate:
		return freshMap(in.Map)
	case *ssa.Send, *ssa.Go, *ssa.Defer, *ssa.Select:
		return false
	case *ssa.Call:
		return a.pureCall(&in.Call)
	}
	return true
}

func (a *orderAnalysis) calleesOf(site ssa.CallInstruction) []*ssa.Function {
	if f := site.Common().StaticCallee(); f != nil {
		return []*ssa.Function{f}
	}
	var out []*ssa.Function
	if n := a.p.CG.Nodes[site.Parent()]; n != nil {
		for _, e := range n.Out {
			if e.Site == site {
				out = append(out, e.Callee.Func)
			}
		}
	}
	return out
}

func (a *orderAnalysis) pureCall(cc *ssa.CallCommon) bool {
	if _, ok := cc.Value.(*ssa.Builtin); ok {
		switch cc.Value.Name() {
		case "len", "cap", "append", "make", "new", "min", "max", "panic", "print", "println", "copy":
			// copy/append write only into slices; inside pure functions these are
			// locally built values — accepted (documented assumption A-pure-1).
			return true
		}
		return false
	}
	if f := cc.StaticCallee(); f != nil {
		if a.p.IsModFn(f) {
			return a.isPure(f)
		}
		n := extName(f)
		if isPureExternal(n) {
			return true
		}
		if localWriterExternal[n] {
			// writer must be a locally created builder
			w := cc.Args[0]
			if mi, ok := w.(*ssa.MakeInterface); ok {
				w = mi.X
			}
			if al, ok := w.(*ssa.Alloc); ok && al != nil {
				return true
			}
			return false
		}
		return false
	}
	// dynamic call: interface method; pure iff every possible module callee is pure
	if cc.IsInvoke() {
		impls := a.implementers(cc.Value.Type(), cc.Method)
		if len(impls) == 0 {
			return false
		}
		for _, f := range impls {
			if !a.isPure(f) {
				return false
			}
		}
		return true
	}
	return false
}

// implementers: module methods named m.Name() on module types implementing iface.
func (a *orderAnalysis) implementers(t types.Type, m *types.Func) []*ssa.Function {
	iface, ok := t.Underlying().(*types.Interface)
	if !ok {
		return nil
	}
	var out []*ssa.Function
	for _, pk := range a.p.Pkgs {
		sc := pk.Types.Scope()
		for _, n := range sc.Names() {
			tn, ok := sc.Lookup(n).(*types.TypeName)
			if !ok || tn.IsAlias() {
				continue
			}
			if _, isI := tn.Type().Underlying().(*types.Interface); isI {
				continue
			}
			for _, T := range []types.Type{tn.Type(), types.NewPointer(tn.Type())} {
				if types.Implements(T, iface) {
					sel := a.p.SSA.MethodSets.MethodSet(T).Lookup(m.Pkg(), m.Name())
					if sel != nil {
						if f := a.p.SSA.MethodValue(sel); f != nil {
							out = append(out, f)
						}
					}
					break
				}
			}
		}
	}
	// non-module implementers are unknown
	return out
}

// insertOnly: f's only effects are keyed inserts of constants / fresh maps
// into maps, all map accesses keyed by parameters or constants.
func (a *orderAnalysis) insertOnly(f *ssa.Function) bool {
	if f == nil || !a.p.IsModFn(f) || f.Blocks == nil {
		return false
	}
	if v, ok := a.insMemo[f]; ok {
		return v == 1
	}
	a.insMemo[f] = 2
	ok := true
	nIns := 0
	keyOK := func(k ssa.Value) bool {
		switch k.(type) {
		case *ssa.Parameter, *ssa.Const:
			return true
		}
		return false
	}
	for _, b := range f.Blocks {
		for _, in := range b.Instrs {
			switch in := in.(type) {
			case *ssa.MapUpdate:
				nIns++
				_, cv := in.Value.(*ssa.Const)
				if !(cv || freshMap(in.Value)) || !(keyOK(in.Key) || freshMap(in.Map)) {
					ok = false
				}
			case *ssa.Lookup:
				if _, isMap := in.X.Type().Underlying().(*types.Map); isMap && !keyOK(in.Index) {
					ok = false
				}
			case *ssa.Store:
				if baseAlloc(in.Addr) == nil {
					ok = false
				}
			case *ssa.Call:
				if !a.pureCall(&in.Call) {
					ok = false
				}
			case *ssa.Range, *ssa.Send, *ssa.Go, *ssa.Defer, *ssa.Select:
				ok = false
			}
		}
	}
	if ok && nIns > 0 {
		a.insMemo[f] = 1
		return true
	}
	return false
}

func isStderrPrint(cc *ssa.CallCommon) bool {
	f := cc.StaticCallee()
	if f == nil {
		if b, ok := cc.Value.(*ssa.Builtin); ok && (b.Name() == "print" || b.Name() == "println") {
			return true
		}
		return false
	}
	switch extName(f) {
	case "fmt.Fprintf", "fmt.Fprint", "fmt.Fprintln":
		w := cc.Args[0]
		if mi, ok := w.(*ssa.MakeInterface); ok {
			w = mi.X
		}
		if u, ok := w.(*ssa.UnOp); ok && u.Op == token.MUL {
			if g, ok := u.X.(*ssa.Global); ok && g.Pkg != nil && g.Pkg.Pkg.Path() == "os" && (g.Name() == "Stderr") {
				return true
			}
		}
	}
	return false
}

// ---- classification -----------------------------------------------------------

func (a *orderAnalysis) classify(lp *uloop) {
	lp.idiom, lp.safe, lp.detail, lp.permOut = "", false, "", nil
	// loop-carried phis
	var carried []*ssa.Phi
	for _, in := range lp.header.Instrs {
		if phi, ok := in.(*ssa.Phi); ok {
			if phi == lp.idxPhi {
				continue
			}
			carried = append(carried, phi)
		}
	}
	// empty map?
	if lp.kind == "map" && a.mapNeverFilled(lp.ranged) {
		lp.idiom, lp.safe = "empty-map", true
		lp.detail = "no reachable MapUpdate on this field; every store to it is a fresh make(map)"
		return
	}
	// effect inventory
	var why []string
	bad := func(f string, x ...any) { why = append(why, fmt.Sprintf(f, x...)) }

	nReturn, nAppendPhi := 0, 0
	returnsConst := true
	mapsUpdated := map[ssa.Value]bool{}
	hasEffect := false
	key := lp.rangeKey()
	idxUsed := false
	for b := range lp.blocks {
		for _, in := range b.Instrs {
			// use of the slice index variable makes the body positional
			if lp.idxPhi != nil {
				for _, op := range in.Operands(nil) {
					if *op == ssa.Value(lp.idxPhi) && in != ssa.Instruction(lp.idxNext.(*ssa.BinOp)) {
						idxUsed = true
					}
					if *op == lp.idxNext {
						switch u := in.(type) {
						case *ssa.IndexAddr:
							if u.X != lp.ranged {
								idxUsed = true
							}
						case *ssa.BinOp:
							if u.Op != token.LSS || b != lp.header {
								idxUsed = true
							}
						case *ssa.Phi:
						default:
							idxUsed = true
						}
					}
				}
			}
			switch in := in.(type) {
			case *ssa.Return:
				nReturn++
				for _, r := range in.Results {
					if _, ok := r.(*ssa.Const); !ok {
						returnsConst = false
					}
				}
			case *ssa.Store:
				if al := baseAlloc(in.Addr); al != nil && lp.inLoop(al) {
					continue // per-iteration temporary (varargs array, composite literal)
				}
				if al := baseAlloc(in.Addr); al != nil && a.invariant(lp, in.Val) {
					if _, isAlloc := in.Addr.(*ssa.Alloc); isAlloc {
						hasEffect = true
						continue // idempotent store of a loop-invariant value into a local
					}
				}
				bad("store to %s", in.Addr.Name())
			case *ssa.MapUpdate:
				hasEffect = true
				mapsUpdated[in.Map] = true
				_, cv := in.Value.(*ssa.Const)
				switch {
				case cv && a.invariant(lp, in.Map):
				case key != nil && in.Key == key && a.invariant(lp, in.Map) && a.pureValue(lp, in.Value, 0):
				default:
					bad("map update %s[%s] = %s is neither a constant insert nor keyed by the range key", in.Map.Name(), in.Key.Name(), in.Value.Name())
				}
			case *ssa.Call:
				cc := &in.Call
				switch {
				case localWriterCall(cc) && !isStderrPrint(cc):
					w := cc.Args[0]
					if mi, ok := w.(*ssa.MakeInterface); ok {
						w = mi.X
					}
					if al, ok := w.(*ssa.Alloc); !(ok && lp.inLoop(al)) {
						bad("appends text to a writer that outlives the iteration (%s)", w.Name())
					}
				case a.pureCall(cc):
				case isStderrPrint(cc):
					hasEffect = true
				default:
					f := cc.StaticCallee()
					if f != nil && a.insertOnly(f) {
						hasEffect = true
						// the iteration value must be passed, so that iterations touch distinct cells
						passes := false
						for _, arg := range cc.Args {
							if lp.isIterVal(arg) {
								passes = true
							}
						}
						if !passes {
							bad("insert-only callee %s is not keyed by the iteration value", a.p.FnName(f))
						}
					} else {
						name := "dynamic call"
						if f != nil {
							name = f.String()
						}
						bad("call with effects: %s", relName(name))
					}
				}
			case *ssa.Send, *ssa.Go, *ssa.Defer, *ssa.Select:
				bad("concurrency/defer in loop")
			}
		}
	}
	// reads of state that the loop itself mutates make the body order-sensitive,
	// unless the read touches only the cell of the current iteration
	storedAllocs := map[*ssa.Alloc]bool{}
	hasInsertCallee := false
	for b := range lp.blocks {
		for _, in := range b.Instrs {
			switch in := in.(type) {
			case *ssa.Store:
				if al, ok := in.Addr.(*ssa.Alloc); ok && !lp.inLoop(al) {
					storedAllocs[al] = true
				}
			case *ssa.Call:
				if f := in.Call.StaticCallee(); f != nil && !a.pureCall(&in.Call) && a.insertOnly(f) {
					hasInsertCallee = true
				}
			}
		}
	}
	for b := range lp.blocks {
		for _, in := range b.Instrs {
			switch in := in.(type) {
			case *ssa.Lookup:
				if _, isMap := in.X.Type().Underlying().(*types.Map); !isMap {
					continue
				}
				if mapsUpdated[in.X] && in.Index != key {
					bad("loop reads %s[%s] while updating the same map with a different key", in.X.Name(), in.Index.Name())
				}
				if hasInsertCallee {
					bad("map read next to an insert-only callee")
				}
			case *ssa.UnOp:
				if al, ok := in.X.(*ssa.Alloc); ok && in.Op == token.MUL && storedAllocs[al] {
					bad("loop reads local %s which it also assigns", al.Comment)
				}
			case *ssa.Range:
				if mapsUpdated[in.X] {
					bad("nested range over a map updated in the loop")
				}
			case *ssa.Call:
				for _, arg := range in.Call.Args {
					if mapsUpdated[arg] {
						bad("map %s updated in the loop is also read by a call", arg.Name())
					}
				}
			case *ssa.MapUpdate:
				if mapsUpdated[in.Value] || mapsUpdated[in.Key] {
					bad("updated map stored as a value")
				}
			}
		}
	}
	// values computed inside the loop must not be used after it, and the loop
	// may be left early only if it has nothing but flags to show for its work
	earlyExit := false
	for b := range lp.blocks {
		for _, in := range b.Instrs {
			v, isVal := in.(ssa.Value)
			if !isVal || v.Referrers() == nil {
				continue
			}
			if phi, isPhi := in.(*ssa.Phi); isPhi && b == lp.header {
				_ = phi
				continue
			}
			for _, r := range *v.Referrers() {
				if r.Block() != nil && !lp.blocks[r.Block()] {
					if onlyPanics(r.Block()) {
						continue
					}
					bad("value %s computed in one iteration is used after the loop", v.Name())
				}
			}
		}
		if b != lp.header {
			for _, s := range b.Succs {
				if !lp.blocks[s] && !onlyPanics(s) {
					earlyExit = true
					// an early exit may return constants only
					if ret, ok := s.Instrs[len(s.Instrs)-1].(*ssa.Return); ok {
						for _, r := range ret.Results {
							if _, isC := r.(*ssa.Const); !isC {
								if _, isPhi := r.(*ssa.Phi); !isPhi {
									bad("early return of a non-constant")
								}
							}
						}
					}
				}
			}
		}
	}
	for _, phi := range carried {
		for _, r := range *phi.Referrers() {
			if lp.blocks[r.Block()] {
				switch u := r.(type) {
				case *ssa.Phi:
				case *ssa.Call:
					if bi, isB := u.Call.Value.(*ssa.Builtin); isB && bi.Name() == "append" && u.Call.Args[0] == ssa.Value(phi) {
						continue
					}
					bad("loop-carried variable %s is read inside the loop", phi.Comment)
				default:
					bad("loop-carried variable %s is read inside the loop", phi.Comment)
				}
			}
		}
	}
	// classify carried phis
	var collector *ssa.Phi
	for _, phi := range carried {
		switch {
		case a.flagPhi(lp, phi):
			hasEffect = true
		case a.collectPhi(lp, phi):
			nAppendPhi++
			collector = phi
		default:
			bad("loop-carried variable %s (%s) is neither a flag nor an append-collector", phi.Comment, phi.Name())
		}
	}
	if idxUsed {
		bad("index variable of a permuted sequence is used")
	}
	if earlyExit && (len(mapsUpdated) > 0 || hasInsertCallee || nAppendPhi > 0) {
		bad("loop is left early after it has updated state")
	}
	if len(why) > 0 {
		lp.idiom = "order-dependent"
		lp.detail = strings.Join(why, "; ")
		return
	}
	switch {
	case nReturn > 0 && !returnsConst:
		lp.idiom = "order-dependent"
		lp.detail = "returns a non-constant from inside the loop"
	case nAppendPhi > 1:
		lp.idiom = "order-dependent"
		lp.detail = "more than one collector"
	case nAppendPhi == 1:
		if hasEffect {
			lp.idiom = "order-dependent"
			lp.detail = "collector mixed with other effects"
			return
		}
		if a.sortedAfter(lp, collector) {
			lp.idiom, lp.safe = "collect-then-sort", true
			lp.detail = fmt.Sprintf("%s collected, then sorted by a total order before any other use", collector.Comment)
		} else {
			lp.idiom, lp.safe = "collect (permuted sequence)", true
			lp.permOut = []ssa.Value{collector}
			lp.detail = fmt.Sprintf("%s holds the elements in unspecified order; tracked as PERM", collector.Comment)
		}
	case nReturn > 0:
		lp.idiom, lp.safe = "all/any", true
		lp.detail = "only pure tests and constant returns"
	case earlyExit:
		lp.idiom, lp.safe = "all/any", true
		lp.detail = "pure tests; leaves the loop early with constants/flags only"
	default:
		lp.idiom, lp.safe = "commutative", true
		lp.detail = "effects are set inserts / range-key-keyed updates / idempotent flags / stderr diagnostics"
		if !hasEffect {
			lp.idiom = "pure"
		}
	}
}

func (a *orderAnalysis) pureValue(lp *uloop, v ssa.Value, depth int) bool {
	if depth > 8 {
		return false
	}
	if a.invariant(lp, v) || lp.isIterVal(v) {
		return true
	}
	switch x := v.(type) {
	case *ssa.Extract:
		return a.pureValue(lp, x.Tuple, depth+1)
	case *ssa.Next:
		return x == lp.next
	case *ssa.BinOp:
		return a.pureValue(lp, x.X, depth+1) && a.pureValue(lp, x.Y, depth+1)
	case *ssa.UnOp:
		return x.Op != token.MUL && x.Op != token.ARROW && a.pureValue(lp, x.X, depth+1)
	case *ssa.Convert:
		return a.pureValue(lp, x.X, depth+1)
	case *ssa.ChangeType:
		return a.pureValue(lp, x.X, depth+1)
	case *ssa.MakeInterface:
		return a.pureValue(lp, x.X, depth+1)
	case *ssa.Call:
		if !a.pureCall(&x.Call) {
			return false
		}
		for _, arg := range x.Call.Args {
			if !a.pureValue(lp, arg, depth+1) {
				return false
			}
		}
		return true
	}
	return false
}

// flagPhi: inside the loop the variable is only ever (re)assigned a
// loop-invariant value.
func (a *orderAnalysis) flagPhi(lp *uloop, phi *ssa.Phi) bool {
	seen := map[ssa.Value]bool{}
	var ok func(v ssa.Value) bool
	ok = func(v ssa.Value) bool {
		if v == ssa.Value(phi) || seen[v] {
			return true
		}
		seen[v] = true
		if a.invariant(lp, v) {
			return true
		}
		if p, isPhi := v.(*ssa.Phi); isPhi && lp.inLoop(p) {
			for _, e := range p.Edges {
				if !ok(e) {
					return false
				}
			}
			return true
		}
		return false
	}
	for i, e := range phi.Edges {
		if lp.blocks[lp.header.Preds[i]] {
			if !ok(e) {
				return false
			}
		}
	}
	return true
}

// collectPhi: slice variable only ever extended by append inside the loop.
func (a *orderAnalysis) collectPhi(lp *uloop, phi *ssa.Phi) bool {
	if _, isSlice := phi.Type().Underlying().(*types.Slice); !isSlice {
		return false
	}
	seen := map[ssa.Value]bool{}
	var ok func(v ssa.Value) bool
	ok = func(v ssa.Value) bool {
		if v == ssa.Value(phi) || seen[v] {
			return true
		}
		seen[v] = true
		if p, isPhi := v.(*ssa.Phi); isPhi && lp.inLoop(p) {
			for _, e := range p.Edges {
				if !ok(e) {
					return false
				}
			}
			return true
		}
		if c, isCall := v.(*ssa.Call); isCall && lp.inLoop(c) {
			if b, isB := c.Call.Value.(*ssa.Builtin); isB && b.Name() == "append" {
				return ok(c.Call.Args[0])
			}
		}
		return false
	}
	n := 0
	for i, e := range phi.Edges {
		if lp.blocks[lp.header.Preds[i]] {
			n++
			if !ok(e) {
				return false
			}
		}
	}
	// all uses of the phi inside the loop must be the append chain itself
	for _, r := range *phi.Referrers() {
		if in, isI := r.(ssa.Instruction); isI && lp.blocks[in.Block()] {
			switch u := r.(type) {
			case *ssa.Phi:
			case *ssa.Call:
				if b, isB := u.Call.Value.(*ssa.Builtin); !(isB && b.Name() == "append" && u.Call.Args[0] == ssa.Value(phi)) {
					return false
				}
			default:
				return false
			}
		}
	}
	return n > 0
}

var totalSorts = map[string]bool{"sort.Strings": true, "sort.Ints": true, "sort.Float64s": true, "slices.Sort[[]string string]": true, "slices.Sort": true}

// sortedAfter: outside the loop, a total-order sort of the collected slice
// dominates every other use.
func (a *orderAnalysis) sortedAfter(lp *uloop, phi *ssa.Phi) bool {
	var uses []ssa.Instruction
	for _, r := range *phi.Referrers() {
		if !lp.blocks[r.Block()] {
			uses = append(uses, r)
		}
	}
	var sortCall ssa.Instruction
	for _, u := range uses {
		if c, ok := u.(*ssa.Call); ok {
			if f := c.Call.StaticCallee(); f != nil && (totalSorts[f.String()] || (f.Pkg != nil && f.Pkg.Pkg.Path() == "slices" && f.Name() == "Sort") || (f.Origin() != nil && f.Origin().String() == "slices.Sort")) && len(c.Call.Args) == 1 && c.Call.Args[0] == ssa.Value(phi) {
				sortCall = c
			}
		}
	}
	if sortCall == nil {
		return false
	}
	for _, u := range uses {
		if u == sortCall {
			continue
		}
		if !instrDominates(sortCall, u) {
			return false
		}
	}
	return true
}

// onlyPanics: the block ends the process (panic), so nothing computed before
// it is observable in generated output.
func onlyPanics(b *ssa.BasicBlock) bool {
	if len(b.Instrs) == 0 {
		return false
	}
	_, ok := b.Instrs[len(b.Instrs)-1].(*ssa.Panic)
	return ok
}

func instrDominates(a, b ssa.Instruction) bool {
	if a.Block() == b.Block() {
		for _, in := range a.Block().Instrs {
			if in == a {
				return true
			}
			if in == b {
				return false
			}
		}
		return false
	}
	return a.Block().Dominates(b.Block())
}

// mapNeverFilled: v is a load of a struct field of map type such that no
// reachable function updates a map loaded from that field, and all stores to
// the field store a fresh map.
func (a *orderAnalysis) mapNeverFilled(v ssa.Value) bool {
	fld := fieldOfLoad(v)
	if fld == nil {
		return false
	}
	for _, fn := range a.fns {
		for _, b := range fn.Blocks {
			for _, in := range b.Instrs {
				switch in := in.(type) {
				case *ssa.MapUpdate:
					if f := fieldOfLoad(in.Map); f == fld {
						return false
					}
					if types.Identical(in.Map.Type(), v.Type()) && fieldOfLoad(in.Map) == nil && !freshMap(in.Map) {
						// a map of the same type updated through an unknown alias
						return false
					}
				case *ssa.Store:
					if fa, ok := in.Addr.(*ssa.FieldAddr); ok && fieldVar(fa) == fld {
						if !freshEmptyMap(in.Val) {
							return false
						}
					}
				}
			}
		}
	}
	return true
}

func fieldVar(fa *ssa.FieldAddr) *types.Var {
	t := fa.X.Type().Underlying().(*types.Pointer).Elem().Underlying().(*types.Struct)
	return t.Field(fa.Field)
}

func fieldOfLoad(v ssa.Value) *types.Var {
	switch x := v.(type) {
	case *ssa.UnOp:
		if x.Op == token.MUL {
			if fa, ok := x.X.(*ssa.FieldAddr); ok {
				return fieldVar(fa)
			}
		}
	case *ssa.Field:
		return x.X.Type().Underlying().(*types.Struct).Field(x.Field)
	}
	return nil
}

// ---- taint propagation ---------------------------------------------------------

func (a *orderAnalysis) get(k any) taint { return a.taints[k] }

func (a *orderAnalysis) add(k any, t taint, why string) {
	if k == nil || t.clean() {
		return
	}
	old := a.taints[k]
	n := old.join(t)
	if n != old {
		a.taints[k] = n
		if _, ok := a.why[k]; !ok {
			a.why[k] = why
		}
		a.changed = true
	}
}

func isRef(t types.Type) bool {
	switch t.Underlying().(type) {
	case *types.Pointer, *types.Map, *types.Slice, *types.Chan, *types.Interface, *types.Signature:
		return true
	}
	return false
}

// locOf: node that stands for the memory cell an address points to, and
// whether writing through it wraps (container element).
func (a *orderAnalysis) locOf(addr ssa.Value) (node any, wraps bool) {
	switch x := addr.(type) {
	case *ssa.FieldAddr:
		return fieldVar(x), false
	case *ssa.IndexAddr:
		return a.contNode(x.X), true
	case *ssa.Global:
		return x, false
	case *ssa.Alloc:
		return x, false
	}
	return addr, false
}

// contNode: the node representing a container value; for a slice of a local
// array we use the array alloc.
func (a *orderAnalysis) contNode(v ssa.Value) any {
	switch x := v.(type) {
	case *ssa.Slice:
		return a.contNode(x.X)
	case *ssa.UnOp:
		if x.Op == token.MUL {
			if fa, ok := x.X.(*ssa.FieldAddr); ok {
				return fieldVar(fa)
			}
			if g, ok := x.X.(*ssa.Global); ok {
				return g
			}
		}
	}
	return v
}

func (a *orderAnalysis) valT(v ssa.Value) taint {
	switch x := v.(type) {
	case *ssa.Const, *ssa.Function, *ssa.Builtin:
		return taint{}
	case *ssa.Slice:
		return a.get(a.contNode(x)).join(a.get(v))
	case *ssa.UnOp:
		if x.Op == token.MUL {
			return a.get(a.contNode(x)).join(a.get(v))
		}
	}
	return a.get(v)
}

// deepT: taint visible to an external callee that may walk the whole value.
func (a *orderAnalysis) deepT(v ssa.Value) taint {
	t := a.valT(v)
	var ty types.Type = v.Type()
	if mi, ok := v.(*ssa.MakeInterface); ok {
		ty = mi.X.Type()
		t = t.join(a.valT(mi.X))
	}
	seen := map[types.Type]bool{}
	var walk func(ty types.Type, depth int)
	walk = func(ty types.Type, depth int) {
		if ty == nil || seen[ty] || depth > 6 {
			return
		}
		seen[ty] = true
		switch u := ty.Underlying().(type) {
		case *types.Pointer:
			walk(u.Elem(), depth+1)
		case *types.Slice:
			walk(u.Elem(), depth+1)
		case *types.Array:
			walk(u.Elem(), depth+1)
		case *types.Map:
			walk(u.Key(), depth+1)
			walk(u.Elem(), depth+1)
		case *types.Struct:
			for i := 0; i < u.NumFields(); i++ {
				f := u.Field(i)
				t = t.join(a.get(f).fullify())
				walk(f.Type(), depth+1)
			}
		}
	}
	walk(ty, 0)
	return t
}

// stringers: module String/Error methods that fmt may call for an operand.
func (a *orderAnalysis) stringersFor(v ssa.Value) []*ssa.Function {
	var ty types.Type = v.Type()
	if mi, ok := v.(*ssa.MakeInterface); ok {
		ty = mi.X.Type()
	}
	var cands []types.Type
	if _, isI := ty.Underlying().(*types.Interface); isI {
		cands = a.implTypes(ty)
	} else {
		cands = []types.Type{ty}
	}
	var out []*ssa.Function
	for _, T := range cands {
		ms := a.p.SSA.MethodSets.MethodSet(T)
		for _, name := range []string{"String", "Error", "Format", "GoString"} {
			for i := 0; i < ms.Len(); i++ {
				sel := ms.At(i)
				if sel.Obj().Name() == name {
					if f := a.p.SSA.MethodValue(sel); f != nil {
						out = append(out, f)
					}
				}
			}
		}
	}
	return out
}

func (a *orderAnalysis) implTypes(t types.Type) []types.Type {
	if r, ok := a.implMemo[t]; ok {
		return r
	}
	iface := t.Underlying().(*types.Interface)
	var out []types.Type
	for _, pk := range a.p.Pkgs {
		sc := pk.Types.Scope()
		for _, n := range sc.Names() {
			tn, ok := sc.Lookup(n).(*types.TypeName)
			if !ok || tn.IsAlias() {
				continue
			}
			if _, isI := tn.Type().Underlying().(*types.Interface); isI {
				continue
			}
			for _, T := range []types.Type{tn.Type(), types.NewPointer(tn.Type())} {
				if types.Implements(T, iface) {
					out = append(out, T)
					break
				}
			}
		}
	}
	a.implMemo[t] = out
	return out
}

func (a *orderAnalysis) seedLoop(lp *uloop) {
	where := a.p.Pos(lp.pos)
	if lp.safe {
		for _, v := range lp.permOut {
			a.add(v, taint{perm: 1, src: lp.srcBit()}, "collected in unordered loop at "+where)
		}
		return
	}
	src := "order-dependent loop at " + where
	full := taint{full: true, ident: true, src: lp.srcBit()}
	for _, in := range lp.header.Instrs {
		if phi, ok := in.(*ssa.Phi); ok {
			a.add(phi, full, src)
		}
	}
	for b := range lp.blocks {
		for _, in := range b.Instrs {
			switch in := in.(type) {
			case *ssa.Store:
				n, _ := a.locOf(in.Addr)
				a.add(n, full, src)
			case *ssa.MapUpdate:
				a.add(a.contNode(in.Map), full, src)
			case *ssa.Return:
				for i := range in.Results {
					a.add(retKey{lp.fn, i}, full, src)
				}
			case *ssa.Call:
				if a.pureCall(&in.Call) && !localWriterCall(&in.Call) {
					continue
				}
				for _, arg := range in.Call.Args {
					if isRef(arg.Type()) {
						x := arg
						if mi, ok := x.(*ssa.MakeInterface); ok {
							x = mi.X
						}
						a.add(a.contNode(x), full, src)
					}
				}
				if in.Call.IsInvoke() {
					a.add(a.contNode(in.Call.Value), full, src)
				}
				a.add(in, full, src)
			}
		}
	}
}

func localWriterCall(cc *ssa.CallCommon) bool {
	f := cc.StaticCallee()
	return f != nil && localWriterExternal[extName(f)]
}

func (a *orderAnalysis) step() {
	for _, fn := range a.fns {
		if a.ctlFns[fn] {
			for _, b := range fn.Blocks {
				a.seedBlock(fn, b, a.ctlSrc[fn], a.ctlWhy[fn])
			}
		}
		for _, b := range fn.Blocks {
			for _, in := range b.Instrs {
				a.transfer(fn, in)
			}
		}
	}
}

func (a *orderAnalysis) transfer(fn *ssa.Function, in ssa.Instruction) {
	switch x := in.(type) {
	case *ssa.Phi:
		for _, e := range x.Edges {
			a.add(x, a.valT(e), a.whyOf(e))
		}
	case *ssa.UnOp:
		if x.Op == token.MUL {
			n, wraps := a.locOf(x.X)
			t := a.get(n)
			if wraps {
				positional := true
				if ia, ok := x.X.(*ssa.IndexAddr); ok {
					if lp := a.rangeLoopFor(fn, ia); lp != nil {
						// the element of a range loop is "some element": every one is
						// visited; what the body does with it is judged by classify
						positional = false
					}
				}
				t = t.elem(positional)
			}
			a.add(x, t, a.why[n])
		} else {
			a.add(x, a.valT(x.X).fullify(), a.whyOf(x.X))
		}
	case *ssa.Store:
		n, wraps := a.locOf(x.Addr)
		t := a.valT(x.Val)
		if wraps {
			t = t.wrap()
		}
		a.add(n, t, a.whyOf(x.Val))
	case *ssa.Field:
		f := x.X.Type().Underlying().(*types.Struct).Field(x.Field)
		a.add(x, a.get(f).join(a.valT(x.X)), a.why[f])
	case *ssa.FieldAddr, *ssa.IndexAddr, *ssa.Alloc:
		// addresses: content handled via locOf
	case *ssa.Index:
		a.add(x, a.valT(x.X).elem(true), a.whyOf(x.X))
	case *ssa.Lookup:
		a.add(x, a.valT(x.X).elem(false).join(a.valT(x.Index).fullify()), a.whyOf(x.X))
	case *ssa.MapUpdate:
		a.add(a.contNode(x.Map), a.valT(x.Value).wrap().join(a.valT(x.Key).fullify()), a.whyOf(x.Value))
	case *ssa.Range:
		a.add(x, a.valT(x.X), a.whyOf(x.X))
	case *ssa.Next:
		a.add(x, a.valT(x.Iter).elem(false), a.whyOf(x.Iter))
	case *ssa.Extract:
		if c, ok := x.Tuple.(*ssa.Call); ok {
			a.add(x, a.get(tupKey{c, x.Index}), a.why[tupKey{c, x.Index}])
		} else {
			a.add(x, a.valT(x.Tuple), a.whyOf(x.Tuple))
		}
	case *ssa.BinOp:
		if (x.Op == token.EQL || x.Op == token.NEQ) && (isNilConst(x.X) || isNilConst(x.Y)) {
			t := a.valT(x.X).join(a.valT(x.Y))
			if t.ident {
				a.add(x, taint{full: true, ident: true, src: t.src}, a.whyOf(x.X)+a.whyOf(x.Y))
			}
			return
		}
		a.add(x, a.valT(x.X).join(a.valT(x.Y)).fullify(), a.whyOf(x.X)+a.whyOf(x.Y))
	case *ssa.Convert:
		a.add(x, a.valT(x.X), a.whyOf(x.X))
	case *ssa.ChangeType:
		a.add(x, a.valT(x.X), a.whyOf(x.X))
	case *ssa.ChangeInterface:
		a.add(x, a.valT(x.X), a.whyOf(x.X))
	case *ssa.MakeInterface:
		a.add(x, a.valT(x.X), a.whyOf(x.X))
	case *ssa.TypeAssert:
		a.add(x, a.valT(x.X), a.whyOf(x.X))
	case *ssa.Slice:
		a.add(x, a.valT(x.X), a.whyOf(x.X))
		if isRef(x.X.Type()) {
			a.add(a.contNode(x.X), a.get(x), a.why[x])
		}
	case *ssa.SliceToArrayPointer:
		a.add(x, a.valT(x.X), a.whyOf(x.X))
	case *ssa.MakeClosure:
		f := x.Fn.(*ssa.Function)
		for i, bnd := range x.Bindings {
			a.add(f.FreeVars[i], a.valT(bnd), a.whyOf(bnd))
			a.add(a.contNode(bnd), a.get(f.FreeVars[i]), a.why[f.FreeVars[i]])
			a.add(x, a.valT(bnd), a.whyOf(bnd))
		}
	case *ssa.Return:
		for i, r := range x.Results {
			a.add(retKey{fn, i}, a.valT(r), a.whyOf(r))
		}
	case *ssa.If:
		if t := a.valT(x.Cond); t.full || t.ident {
			a.seedControl(fn, x, t.src, a.whyOf(x.Cond))
		}
	case *ssa.Call:
		a.transferCall(fn, x, &x.Call, x)
	case *ssa.Defer:
		a.transferCall(fn, x, &x.Call, nil)
	case *ssa.Go:
		a.transferCall(fn, x, &x.Call, nil)
	}
}

func (a *orderAnalysis) whyOf(v ssa.Value) string {
	if w, ok := a.why[v]; ok {
		return w
	}
	if w, ok := a.why[a.contNode(v)]; ok {
		return w
	}
	return ""
}

// rangeLoopFor: the element access s[i1] belongs to a recognised range loop over s.
func (a *orderAnalysis) rangeLoopFor(fn *ssa.Function, ia *ssa.IndexAddr) *uloop {
	for _, lp := range a.sliceLp[fn] {
		if ia.X == lp.ranged && ia.Index == lp.idxNext {
			return lp
		}
	}
	return nil
}

func (a *orderAnalysis) setResult(call *ssa.Call, i int, n int, t taint, why string) {
	if call == nil {
		return
	}
	if n > 1 {
		a.add(tupKey{call, i}, t, why)
	} else {
		a.add(call, t, why)
	}
}

func (a *orderAnalysis) transferCall(fn *ssa.Function, site ssa.CallInstruction, cc *ssa.CallCommon, res *ssa.Call) {
	if b, ok := cc.Value.(*ssa.Builtin); ok {
		switch b.Name() {
		case "len", "cap":
			// length of a container does not depend on the order of its elements;
			// FULL taint does carry over
			if a.valT(cc.Args[0]).full {
				a.add(res, taint{full: true, ident: true, src: a.valT(cc.Args[0]).src}, a.whyOf(cc.Args[0]))
			}
		case "append":
			t := a.valT(cc.Args[0])
			if len(cc.Args) > 1 {
				t = t.join(a.valT(cc.Args[1]))
			}
			a.add(res, t, a.whyOf(cc.Args[0])+a.whyOf(cc.Args[len(cc.Args)-1]))
			a.add(a.contNode(cc.Args[0]), t, a.whyOf(cc.Args[len(cc.Args)-1]))
		case "copy":
			a.add(a.contNode(cc.Args[0]), a.valT(cc.Args[1]), a.whyOf(cc.Args[1]))
		case "min", "max":
			for _, arg := range cc.Args {
				a.add(res, a.valT(arg).fullify(), a.whyOf(arg))
			}
		}
		return
	}
	callees := a.calleesOf(site)
	nres := 0
	if res != nil {
		if tup, ok := res.Type().(*types.Tuple); ok {
			nres = tup.Len()
		} else {
			nres = 1
		}
	}
	args := cc.Args
	handledExternal := false
	for _, f := range callees {
		if a.p.IsModFn(f) && f.Blocks != nil {
			if w, isW := a.writers[f]; isW {
				_ = w // sink summary: do not propagate into writer wrappers
				continue
			}
			params := f.Params
			actual := args
			if cc.IsInvoke() {
				actual = append([]ssa.Value{cc.Value}, args...)
			}
			for i, p := range params {
				if i >= len(actual) {
					break
				}
				a.add(p, a.valT(actual[i]), a.whyOf(actual[i]))
				if isRef(p.Type()) {
					x := actual[i]
					if mi, ok := x.(*ssa.MakeInterface); ok {
						x = mi.X
					}
					a.add(a.contNode(x), a.get(p), a.why[p])
				}
			}
			if _, isClosure := cc.Value.(*ssa.MakeClosure); isClosure {
				// bindings handled at MakeClosure
			}
			for i := 0; i < nres; i++ {
				a.setResult(res, i, nres, a.get(retKey{f, i}), a.why[retKey{f, i}])
			}
		} else if !handledExternal {
			handledExternal = true
			a.externalCall(fn, f, cc, res, nres)
		}
	}
	if len(callees) == 0 {
		a.externalCall(fn, nil, cc, res, nres)
	}
}

func (a *orderAnalysis) externalCall(fn *ssa.Function, f *ssa.Function, cc *ssa.CallCommon, res *ssa.Call, nres int) {
	actual := cc.Args
	if cc.IsInvoke() {
		actual = append([]ssa.Value{cc.Value}, cc.Args...)
	}
	var all taint
	why := ""
	for _, arg := range actual {
		t := a.deepT(arg)
		if !t.clean() && why == "" {
			why = a.whyOf(arg)
			if why == "" {
				why = "(field of " + arg.Type().String() + ")"
			}
		}
		all = all.join(t)
	}
	name := ""
	if f != nil {
		name = extName(f)
	}
	// Stringer dispatch by the fmt family
	if strings.HasPrefix(name, "fmt.") || name == "" {
		for _, arg := range actual {
			for _, vs := range a.varargElems(arg) {
				for _, sf := range a.stringersFor(vs) {
					if a.p.IsModFn(sf) {
						t := a.get(retKey{sf, 0})
						if !t.clean() {
							all = all.join(t)
							if why == "" {
								why = a.why[retKey{sf, 0}]
							}
						}
					}
				}
				t := a.deepT(vs)
				if !t.clean() {
					all = all.join(t)
					if why == "" {
						why = a.whyOf(vs)
					}
				}
			}
		}
	}
	all = all.fullify()
	if all.clean() {
		return
	}
	if totalConstructors[name] {
		all.ident = false // these never return nil, whatever they are given
	}
	for i := 0; i < nres; i++ {
		a.setResult(res, i, nres, all, why)
	}
	for _, arg := range actual {
		if isRef(arg.Type()) {
			x := arg
			if mi, ok := x.(*ssa.MakeInterface); ok {
				x = mi.X
			}
			// a callee may store what it was given into its reference arguments
			if !a.deepT(arg).fullify().full || len(actual) > 1 {
				a.add(a.contNode(x), all, why)
			}
		}
	}
}

var totalConstructors = map[string]bool{"errors.New": true, "fmt.Errorf": true, "fmt.Sprintf": true, "fmt.Sprint": true, "fmt.Sprintln": true,
	"(*strings.Builder).String": true, "(*bytes.Buffer).String": true, "(*bytes.Buffer).Bytes": true, "strings.Join": true}

func isNilConst(v ssa.Value) bool {
	c, ok := v.(*ssa.Const)
	return ok && c.Value == nil
}

// ---- implicit flows -------------------------------------------------------------

// postDominators computes, per block index, the set of blocks post-dominating it.
func postDominators(fn *ssa.Function) [][]bool {
	n := len(fn.Blocks)
	pd := make([][]bool, n)
	isExit := make([]bool, n)
	for i, b := range fn.Blocks {
		pd[i] = make([]bool, n)
		if len(b.Succs) == 0 {
			isExit[i] = true
			pd[i][i] = true
		} else {
			for j := range pd[i] {
				pd[i][j] = true
			}
		}
	}
	for changed := true; changed; {
		changed = false
		for i := n - 1; i >= 0; i-- {
			b := fn.Blocks[i]
			if isExit[i] {
				continue
			}
			nw := make([]bool, n)
			for j := range nw {
				nw[j] = true
			}
			for _, s := range b.Succs {
				for j := range nw {
					nw[j] = nw[j] && pd[s.Index][j]
				}
			}
			nw[i] = true
			for j := range nw {
				if nw[j] != pd[i][j] {
					changed = true
				}
			}
			pd[i] = nw
		}
	}
	return pd
}

// controlDependents: blocks whose execution depends on the outcome of the
// branch ending block b.
func (a *orderAnalysis) controlDependents(fn *ssa.Function, b *ssa.BasicBlock) []*ssa.BasicBlock {
	pd, ok := a.pdMemo[fn]
	if !ok {
		pd = postDominators(fn)
		a.pdMemo[fn] = pd
	}
	var out []*ssa.BasicBlock
	for _, x := range fn.Blocks {
		if x == b {
			// b depends on itself only inside a loop; effects of b precede the branch
			continue
		}
		dep := false
		for _, s := range b.Succs {
			if pd[s.Index][x.Index] && !pd[b.Index][x.Index] {
				dep = true
			}
		}
		if dep {
			out = append(out, x)
		}
	}
	return out
}

func (a *orderAnalysis) seedControl(fn *ssa.Function, br *ssa.If, srcMask uint64, why string) {
	src := "under order-dependent branch at " + a.p.Pos(br.Cond.Pos()) + " in " + a.p.FnName(fn) + " <- " + why
	if len(src) > 300 {
		src = src[:300]
	}
	cd := a.controlDependents(fn, br.Block())
	for _, b := range cd {
		if a.ctlSrc[b]|srcMask != a.ctlSrc[b] {
			a.ctlBlocks[b] = true
			a.ctlSrc[b] |= srcMask
			if _, ok := a.ctlWhy[b]; !ok {
				a.ctlWhy[b] = src
			}
			a.changed = true
		}
		a.seedBlock(fn, b, srcMask, src)
		for _, s := range b.Succs {
			a.seedPhis(s, srcMask, src)
		}
	}
	for _, s := range br.Block().Succs {
		a.seedPhis(s, srcMask, src)
	}
}

func (a *orderAnalysis) seedPhis(b *ssa.BasicBlock, srcMask uint64, src string) {
	for _, in := range b.Instrs {
		if phi, ok := in.(*ssa.Phi); ok {
			a.add(phi, taint{full: true, ident: true, src: srcMask}, src)
		} else {
			break
		}
	}
}

// seedBlock taints every effect of a block that runs under order-dependent control.
func (a *orderAnalysis) seedBlock(fn *ssa.Function, b *ssa.BasicBlock, srcMask uint64, src string) {
	full := taint{full: true, ident: true, src: srcMask}
	for _, in := range b.Instrs {
		switch in := in.(type) {
		case *ssa.Store:
			n, _ := a.locOf(in.Addr)
			a.add(n, full, src)
		case *ssa.MapUpdate:
			a.add(a.contNode(in.Map), full, src)
		case *ssa.Return:
			for i := range in.Results {
				a.add(retKey{fn, i}, full, src)
			}
		case *ssa.Call:
			if a.pureCall(&in.Call) && !localWriterCall(&in.Call) {
				a.add(in, full, src)
				continue
			}
			for _, f := range a.calleesOf(in) {
				if a.p.IsModFn(f) && f.Blocks != nil && a.ctlSrc[f]|srcMask != a.ctlSrc[f] {
					a.ctlFns[f] = true
					a.ctlSrc[f] |= srcMask
					if _, ok := a.ctlWhy[f]; !ok {
						a.ctlWhy[f] = src
					}
					a.changed = true
				}
			}
			for _, arg := range in.Call.Args {
				if isRef(arg.Type()) {
					x := arg
					if mi, ok := x.(*ssa.MakeInterface); ok {
						x = mi.X
					}
					a.add(a.contNode(x), full, src)
				}
			}
			if in.Call.IsInvoke() {
				a.add(a.contNode(in.Call.Value), full, src)
			}
			a.add(in, full, src)
		}
	}
}

// underTaintedControl reports whether an instruction runs under a branch
// whose outcome depends on iteration order.
func (a *orderAnalysis) underTaintedControl(in ssa.Instruction) (uint64, string) {
	var m uint64
	why := ""
	if a.ctlBlocks[in.Block()] {
		m |= a.ctlSrc[in.Block()]
		why = a.ctlWhy[in.Block()]
	}
	if a.ctlFns[in.Parent()] {
		m |= a.ctlSrc[in.Parent()]
		if why == "" {
			why = a.ctlWhy[in.Parent()]
		}
	}
	return m, why
}

// varargElems: values stored into the backing array of a variadic argument.
func (a *orderAnalysis) varargElems(arg ssa.Value) []ssa.Value {
	sl, ok := arg.(*ssa.Slice)
	if !ok {
		return nil
	}
	al, ok := sl.X.(*ssa.Alloc)
	if !ok {
		return nil
	}
	var out []ssa.Value
	for _, r := range *al.Referrers() {
		if ia, ok := r.(*ssa.IndexAddr); ok {
			for _, rr := range *ia.Referrers() {
				if st, ok := rr.(*ssa.Store); ok && st.Addr == ssa.Value(ia) {
					out = append(out, st.Val)
				}
			}
		}
	}
	return out
}

// findWriters: os.WriteFile and module wrappers around it.
func (a *orderAnalysis) findWriters() {
	a.writers = map[*ssa.Function][2]int{}
	for iter := 0; iter < 4; iter++ {
		for _, fn := range a.fns {
			if _, done := a.writers[fn]; done {
				continue
			}
			for _, b := range fn.Blocks {
				for _, in := range b.Instrs {
					c, ok := in.(*ssa.Call)
					if !ok {
						continue
					}
					f := c.Call.StaticCallee()
					if f == nil {
						continue
					}
					pi, di := -1, -1
					if extName(f) == "os.WriteFile" {
						pi, di = 0, 1
					} else if w, ok := a.writers[f]; ok {
						pi, di = w[0], w[1]
					} else {
						continue
					}
					pp := paramIndex(fn, c.Call.Args[pi])
					dp := paramIndex(fn, c.Call.Args[di])
					if pp >= 0 && dp >= 0 {
						a.writers[fn] = [2]int{pp, dp}
					}
				}
			}
		}
	}
}

func paramIndex(fn *ssa.Function, v ssa.Value) int {
	for {
		switch x := v.(type) {
		case *ssa.Convert:
			v = x.X
			continue
		case *ssa.ChangeType:
			v = x.X
			continue
		}
		break
	}
	for i, p := range fn.Params {
		if v == ssa.Value(p) {
			return i
		}
	}
	return -1
}

// pathSuffix: the constant last component of a path value, if determinable.
func pathSuffix(v ssa.Value) (string, bool) {
	switch x := v.(type) {
	case *ssa.Const:
		if x.Value != nil && x.Value.Kind() == constant.String {
			return constant.StringVal(x.Value), true
		}
	case *ssa.Call:
		if f := x.Call.StaticCallee(); f != nil && (extName(f) == "path.Join" || extName(f) == "path/filepath.Join") {
			// last variadic element
			if sl, ok := x.Call.Args[0].(*ssa.Slice); ok {
				if al, ok := sl.X.(*ssa.Alloc); ok {
					n := al.Type().Underlying().(*types.Pointer).Elem().Underlying().(*types.Array).Len()
					for _, r := range *al.Referrers() {
						if ia, ok := r.(*ssa.IndexAddr); ok {
							if ci, ok := ia.Index.(*ssa.Const); ok && ci.Int64() == n-1 {
								for _, rr := range *ia.Referrers() {
									if st, ok := rr.(*ssa.Store); ok {
										return pathSuffix(st.Val)
									}
								}
							}
						}
					}
				}
			}
		}
	case *ssa.Phi:
		s0, ok0 := "", false
		for i, e := range x.Edges {
			s, ok := pathSuffix(e)
			if !ok || (i > 0 && s != s0) {
				return "", false
			}
			s0, ok0 = s, ok
		}
		return s0, ok0
	}
	return "", false
}

func newOrderAnalysis(c *Ctx, p *Prog) *orderAnalysis {
	a := &orderAnalysis{p: p, c: c, taints: map[any]taint{}, why: map[any]string{}, pureMemo: map[*ssa.Function]int{}, insMemo: map[*ssa.Function]int{}, globalsW: map[*ssa.Global]bool{}, implMemo: map[types.Type][]types.Type{},
		pdMemo: map[*ssa.Function][][]bool{}, ctlBlocks: map[*ssa.BasicBlock]bool{}, ctlFns: map[*ssa.Function]bool{}, ctlWhy: map[any]string{}, ctlSrc: map[any]uint64{}}
	for f := range p.Reach {
		if f.Blocks != nil && !strings.Contains(f.String(), "/internal/zz") {
			a.fns = append(a.fns, f)
		}
	}
	sort.Slice(a.fns, func(i, j int) bool {
		if a.fns[i].String() != a.fns[j].String() {
			return a.fns[i].String() < a.fns[j].String()
		}
		return a.fns[i].Pos() < a.fns[j].Pos()
	})
	for _, fn := range a.fns {
		isInit := fn.Name() == "init" && fn.Parent() == nil
		for _, b := range fn.Blocks {
			for _, in := range b.Instrs {
				if st, ok := in.(*ssa.Store); ok && !isInit {
					if g, ok := st.Addr.(*ssa.Global); ok {
						a.globalsW[g] = true
					}
				}
			}
		}
	}
	return a
}

func (a *orderAnalysis) run() {
	a.findLoops()
	a.findWriters()
	{
		var all []*uloop
		all = append(all, a.loops...)
		for _, fn := range a.fns {
			all = append(all, a.sliceLp[fn]...)
		}
		// ids are handed out when a loop first becomes a taint source
		for _, lp := range all {
			lp.id = -1
			lp.nextID = &a.nextID
		}
		a.allLoops = all
	}
	for _, lp := range a.loops {
		a.classify(lp)
	}
	for _, lps := range a.sliceLp {
		for _, lp := range lps {
			a.classify(lp)
		}
	}
	for iter := 0; iter < 200; iter++ {
		a.changed = false
		for _, lp := range a.loops {
			a.seedLoop(lp)
		}
		// slice loops over permuted sequences become unordered loops
		for _, lps := range a.sliceLp {
			for _, lp := range lps {
				if a.valT(lp.ranged).perm&1 != 0 {
					a.seedLoop(lp)
				}
			}
		}
		a.step()
		if !a.changed {
			break
		}
	}
}
