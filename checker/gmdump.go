package main

import (
	"fmt"
	"os"
	"path/filepath"
)

func init() {
	register("GMDUMP", "other", func(c *Ctx) {
		p := c.RepoProg()
		gmHealth(c, p, "GM")
		dir := os.Getenv("GMDUMP_DIR")
		if dir != "" {
			for _, f := range p.GM.Files {
				os.MkdirAll(filepath.Join(dir, f.Dir), 0o755)
				os.WriteFile(filepath.Join(dir, f.Dir, f.Name), []byte(f.Text), 0o644)
			}
		}
		for k, v := range p.PkgErrors {
			fmt.Println(k, v)
		}
		c.Explanation = "debug dump"
	})
}
