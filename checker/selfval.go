package main

// Thorough tier: rule self-validation. Every patch under /verif/mutants whose
// header names this property is applied to a scratch copy of the repository's
// current working tree and the quick check is run on the copy: a mutant must be
// reported, a benign-* refactoring must not. The outcome is evidence about the
// checker, never a verdict about /repo (a missed mutant does not fail the run).

import (
	"fmt"
	"os"
	"os/exec"
	"path/filepath"
	"sort"
	"strings"
	"sync"
)

func selfValidate(c *Ctx) {
	verifDir := filepath.Dir(c.OutDir)
	pats, _ := filepath.Glob(filepath.Join(verifDir, "mutants", "*.patch"))
	sort.Strings(pats)
	self, err := os.Executable()
	if err != nil {
		return
	}
	type res struct {
		Mutant   string `json:"mutant"`
		Expected string `json:"expected"`
		Got      string `json:"got"`
	}
	var results []res
	detected, missed, stale, benignOK, benignBad := 0, 0, 0, 0, 0
	var mu sync.Mutex
	var wg sync.WaitGroup
	sem := make(chan struct{}, 6)
	for _, pf := range pats {
		name := strings.TrimSuffix(filepath.Base(pf), ".patch")
		b, err := os.ReadFile(pf)
		if err != nil {
			continue
		}
		lines := strings.SplitN(string(b), "\n", 2)
		prop := strings.TrimPrefix(lines[0], "# property: ")
		benign := strings.HasPrefix(name, "benign-")
		if benign {
			if len(name) >= 10 {
				prop = "C" + name[8:10]
			}
		}
		if prop != c.Prop {
			continue
		}
		tmp, err := os.MkdirTemp("", "goccverif-mut-")
		if err != nil {
			continue
		}
		wg.Add(1)
		sem <- struct{}{}
		go func() {
			defer wg.Done()
			defer func() { <-sem }()
			defer os.RemoveAll(tmp)
			record := func(r res) {
				mu.Lock()
				defer mu.Unlock()
				results = append(results, r)
			}
			repoCopy := filepath.Join(tmp, "repo")
			if out, err := exec.Command("rsync", "-a", "--exclude", ".git", c.Repo+"/", repoCopy+"/").CombinedOutput(); err != nil {
				record(res{name, "-", "copy failed: " + string(out)})
				return
			}
			patch := exec.Command("patch", "-p1", "-s", "-d", repoCopy)
			patch.Stdin = strings.NewReader(lines[1])
			if out, err := patch.CombinedOutput(); err != nil {
				mu.Lock()
				stale++
				mu.Unlock()
				record(res{name, "-", "stale (patch does not apply): " + firstLine(string(out))})
				return
			}
			evDir := filepath.Join(tmp, "ev", "evidence")
			os.MkdirAll(evDir, 0o755)
			if kf, err := os.ReadFile(filepath.Join(verifDir, "known_findings.json")); err == nil {
				os.WriteFile(filepath.Join(tmp, "ev", "known_findings.json"), kf, 0o644)
			}
			cmd := exec.Command(self, "-prop", c.Prop, "-tier", "quick", "-repo", repoCopy, "-out", evDir)
			cmd.Env = append(os.Environ(), "VERIF_TIER=quick")
			out, _ := cmd.CombinedOutput()
			got := "silent"
			if cmd.ProcessState != nil && cmd.ProcessState.ExitCode() == 1 && strings.Contains(string(out), "VIOLATION property="+c.Prop) {
				got = "reported"
			} else if cmd.ProcessState != nil && cmd.ProcessState.ExitCode() != 0 {
				got = fmt.Sprintf("exit %d", cmd.ProcessState.ExitCode())
			}
			want := "reported"
			if benign {
				want = "silent"
			}
			record(res{name, want, got})
			mu.Lock()
			defer mu.Unlock()
			switch {
			case benign && got == "silent":
				benignOK++
			case benign:
				benignBad++
			case got == "reported":
				detected++
			default:
				missed++
			}
		}()
	}
	wg.Wait()
	sort.Slice(results, func(i, j int) bool { return results[i].Mutant < results[j].Mutant })
	c.Extra["self_validation"] = map[string]any{
		"mutants_reported": detected, "mutants_missed": missed, "benign_refactorings_silent": benignOK, "benign_refactorings_alarmed": benignBad, "stale_patches": stale,
		"results": results,
		"note":    "each patch is applied to a scratch copy of the current tree and the quick check is run on it; this measures the checker, it is not a verdict on /repo",
	}
	fmt.Printf("self-validation: %d mutants reported, %d missed, %d benign silent, %d benign alarmed, %d stale\n", detected, missed, benignOK, benignBad, stale)
	if missed > 0 || benignBad > 0 {
		for _, r := range results {
			if r.Expected != r.Got && r.Expected != "-" {
				fmt.Printf("WARNING self-validation: %s expected %s, got %s\n", r.Mutant, r.Expected, r.Got)
			}
		}
	}
}
