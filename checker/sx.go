package main

// E2 — finite-world abstract interpretation of loop-free SSA regions.
//
// A region is interpreted once per *world*. A world is supplied by the rule: it
// fixes the abstract inputs (dynamic types of interface operands, the relative
// order of integer symbols, truth of named predicates). Every branch condition
// the region turns out to contain must be decided by the world; otherwise the
// run is UNDECIDED. No path condition is collected and nothing is solved.

import (
	"fmt"
	"go/ast"
	"go/constant"
	"go/token"
	"go/types"
	"sort"
	"strings"

	"golang.org/x/tools/go/ssa"
	"golang.org/x/tools/go/ssa/ssautil"
)

// ---- abstract values -------------------------------------------------------------

type Val interface{}

type VConst struct {
	V constant.Value // nil => nil pointer/interface/slice/map
	T types.Type
}

// VSym: a named integer (or ordered) quantity plus a constant offset.
type VSym struct {
	Name string
	Off  int64
}

// VLin: a linear combination of named integer quantities.
type VLin struct {
	Terms map[string]int64
	Off   int64
}

func linOf(v Val) (VLin, bool) {
	switch x := v.(type) {
	case VSym:
		return VLin{map[string]int64{x.Name: 1}, x.Off}, true
	case VLin:
		return x, true
	case VConst:
		if n, ok := constInt64(x); ok {
			return VLin{map[string]int64{}, n}, true
		}
	}
	return VLin{}, false
}

func linNorm(l VLin) Val {
	t := map[string]int64{}
	for k, c := range l.Terms {
		if c != 0 {
			t[k] = c
		}
	}
	if len(t) == 0 {
		return intConst(l.Off)
	}
	if len(t) == 1 {
		for k, c := range t {
			if c == 1 {
				return VSym{k, l.Off}
			}
		}
	}
	return VLin{t, l.Off}
}

func linAdd(a, b VLin, sign int64) Val {
	t := map[string]int64{}
	for k, c := range a.Terms {
		t[k] += c
	}
	for k, c := range b.Terms {
		t[k] += sign * c
	}
	return linNorm(VLin{t, a.Off + sign*b.Off})
}

// VOpq: an opaque named value (string, slice, struct we do not look into).
type VOpq struct{ Name string }

// VIface: an interface value whose dynamic type the world fixed.
type VIface struct {
	Dyn types.Type
	V   Val
}

type VPtr struct {
	Obj  *Obj
	Path string
}

type VStruct struct {
	T      types.Type
	Fields map[string]Val
}

type VTuple []Val

type VFn struct{ Fn *ssa.Function }

// VAtom: a boolean whose truth the world decides; Key is canonical.
type VAtom struct {
	Key string
	Neg bool
}

// VSlice: a slice value viewed as (backing object, window); only what the
// regions need.
type VSlice struct {
	Name string
	Len  Val
}

type Obj struct {
	Name   string
	cells  map[string]Val
	order  []string
	Local  bool
	stores map[string]bool
}

func newObj(name string, local bool) *Obj {
	return &Obj{Name: name, cells: map[string]Val{}, Local: local, stores: map[string]bool{}}
}

func render(v Val) string {
	switch x := v.(type) {
	case nil:
		return "<none>"
	case VConst:
		if x.V == nil {
			return "nil"
		}
		if x.V.Kind() == constant.String {
			return fmt.Sprintf("%q", constant.StringVal(x.V))
		}
		return x.V.ExactString()
	case VSym:
		switch {
		case x.Off == 0:
			return x.Name
		case x.Off > 0:
			return fmt.Sprintf("%s+%d", x.Name, x.Off)
		default:
			return fmt.Sprintf("%s-%d", x.Name, -x.Off)
		}
	case VLin:
		keys := make([]string, 0, len(x.Terms))
		for k := range x.Terms {
			keys = append(keys, k)
		}
		sort.Strings(keys)
		sb := ""
		for _, k := range keys {
			c := x.Terms[k]
			switch {
			case c == 1:
				sb += "+" + k
			case c == -1:
				sb += "-" + k
			default:
				sb += fmt.Sprintf("%+d*%s", c, k)
			}
		}
		if x.Off != 0 {
			sb += fmt.Sprintf("%+d", x.Off)
		}
		return "(" + strings.TrimPrefix(sb, "+") + ")"
	case VOpq:
		return x.Name
	case VIface:
		if x.Dyn == nil {
			return "nil"
		}
		return typeShort(x.Dyn) + "(" + render(x.V) + ")"
	case VPtr:
		return "&" + x.Obj.Name + x.Path
	case VStruct:
		if x.T == nil {
			x.T = types.NewStruct(nil, nil)
		}
		keys := make([]string, 0, len(x.Fields))
		for k := range x.Fields {
			keys = append(keys, k)
		}
		sort.Strings(keys)
		parts := []string{}
		for _, k := range keys {
			parts = append(parts, k+":"+render(x.Fields[k]))
		}
		return typeShort(x.T) + "{" + strings.Join(parts, ",") + "}"
	case VTuple:
		parts := []string{}
		for _, e := range x {
			parts = append(parts, render(e))
		}
		return "(" + strings.Join(parts, ", ") + ")"
	case VFn:
		return "func:" + x.Fn.Name()
	case VAtom:
		if x.Neg {
			return "!(" + x.Key + ")"
		}
		return x.Key
	case VSlice:
		return x.Name
	}
	return fmt.Sprintf("%v", v)
}

func typeShort(t types.Type) string {
	s := types.TypeString(t, func(p *types.Package) string { return p.Name() })
	return s
}

// ---- oracle / summaries -------------------------------------------------------------

// A World decides what the code asks.
type World interface {
	// Eq / Less on rendered canonical operands; ok=false => the world does not know.
	Eq(x, y Val) (res bool, ok bool)
	Less(x, y Val) (res bool, ok bool)
	// Atom decides a named predicate (a call summary returning VAtom, a bool load).
	Atom(key string) (res bool, ok bool)
}

// A Summary stands for a call. It may record events on the run.
type Summary func(r *Run, call *ssa.CallCommon, args []Val) (Val, error)

type Region struct {
	Fn        *ssa.Function
	Start     *ssa.BasicBlock          // nil => entry
	Cuts      map[*ssa.BasicBlock]bool // arriving here ends the run
	PhiInputs map[string]Val           // values of phis at Start, by phi.Comment
	Params    map[string]Val           // parameter name -> value (default: named symbol/object)
	Summaries map[string]Summary       // by callee full name (ssa Function.String())
	Inline    map[string]bool          // module callees to interpret in place
	Globals   map[string]*Obj
	MaxSteps  int
	// Lazy names a memory cell that is read before written: default
	// VSym{Name: obj+path} for integers, VOpq otherwise.
	Lazy func(obj *Obj, path string, t types.Type) Val
	// ObserveLocal: also report stores to local objects with these names
	Extern map[string]Val // values for SSA values defined outside the region, by Name()/Comment
	// When Start is set the function is first interpreted from its entry to the
	// first arrival at Start (the prologue, decided by PreWorld if given); there
	// the phis of Start are replaced by PhiInputs, AtStart may re-seed memory,
	// events and stores are reset, and the run proper begins.
	PreWorld World
	AtStart  func(r *Run, fr *frame)
	// StalePrologue: the run proper is an arbitrary iteration of the loop at Start, so what the prologue read
	// from memory that the loop (or code called from it) may assign is not what memory holds now. Non-pointer
	// cells of observed objects that the prologue reads lazily are named old(...) and forgotten at Start.
	StalePrologue bool
	storedFields  map[string]bool
	// Prepare runs before parameters are bound (to create objects for them).
	Prepare  func(r *Run)
	lastObjs map[string]*Obj
	// NoAutoInline: do not interpret unknown loop-free helpers of the module in place.
	NoAutoInline bool
	// ObserveLocals: allocations of the region function, by source name, whose stores are reported like
	// those to a parameter object, under the given object name.
	ObserveLocals map[string]string
	// LookupVal gives the value of a map lookup m[k] (default: a named opaque).
	LookupVal func(r *Run, m, k Val, t types.Type) (v Val, has Val)
}

type Outcome struct {
	Term      string // "return", "panic", "cut:<block comment>", "undecided"
	Results   []string
	Events    []string
	Stores    map[string]string // final value of every written cell of non-local objects
	NextPhi   map[string]string // at a cut: value of each phi of the cut block
	Undecided string
	Asked     []string // atoms the world was asked (for diagnostics)
	CutBlock  *ssa.BasicBlock
	Assumed   []string          // assertions (conditions guarding nothing but a panic) taken to hold
	Path      []int             // indices of the region function's blocks, in execution order (after the prologue)
	Env       map[string]string // final value of every phi of the region function, by source name
}

type Run struct {
	reg       *Region
	w         World
	out       *Outcome
	objs      []*Obj
	steps     int
	asked     map[string]bool
	frames    int
	fresh     int
	entered   bool
	mainWorld World
	topFrame  *frame
	alias     map[string]string // renamed loop variable -> the name the rule uses
	stale     []staleCell
}

// markOld wraps every occurrence of one of the names in x (as a whole name) in old(...).
func markOld(x string, names map[string]bool) string {
	isId := func(c byte) bool {
		return c == '_' || c >= '0' && c <= '9' || c >= 'a' && c <= 'z' || c >= 'A' && c <= 'Z'
	}
	for n := range names {
		from := 0
		for {
			i := strings.Index(x[from:], n)
			if i < 0 {
				break
			}
			i += from
			j := i + len(n)
			if (i > 0 && (isId(x[i-1]) || x[i-1] == '.')) || (j < len(x) && isId(x[j])) || strings.HasSuffix(x[:i], "old(") {
				from = j
				continue
			}
			x = x[:i] + "old(" + n + ")" + x[j:]
			from = j + 5
		}
	}
	return x
}

func renameVal(v Val, f func(string) string) Val {
	switch x := v.(type) {
	case VSym:
		return VSym{f(x.Name), x.Off}
	case VLin:
		t := map[string]int64{}
		for k, c := range x.Terms {
			t[f(k)] += c
		}
		return VLin{t, x.Off}
	case VOpq:
		return VOpq{f(x.Name)}
	case VAtom:
		return VAtom{Key: f(x.Key), Neg: x.Neg}
	case VIface:
		if x.V == nil {
			return x
		}
		return VIface{Dyn: x.Dyn, V: renameVal(x.V, f)}
	case VStruct:
		fs := map[string]Val{}
		for k, fv := range x.Fields {
			fs[k] = renameVal(fv, f)
		}
		return VStruct{T: x.T, Fields: fs}
	case VTuple:
		out := make(VTuple, len(x))
		for i, e := range x {
			if e != nil {
				out[i] = renameVal(e, f)
			}
		}
		return out
	case VSlice:
		var l Val
		if x.Len != nil {
			l = renameVal(x.Len, f)
		}
		return VSlice{Name: f(x.Name), Len: l}
	}
	return v
}

type staleCell struct {
	o    *Obj
	path string
}

// the names of loop variables that rules refer to, with their kinds
var loopVarKinds = map[string]string{
	"i": "int", "j": "int", "included": "int", "recoveryState": "int", "from": "int", "offset": "int", "x": "int",
	"again": "bool", "containEmpty": "bool", "symbolsAdded": "bool", "recovered": "bool", "canRecover": "bool", "text": "bool",
	"items": "other", "newList": "other", "nextItems": "other", "closure": "other", "terminals": "other", "out": "other", "err": "other", "actionItem": "other", "res": "other",
}
var knownLoopVar = func() map[string]bool {
	m := map[string]bool{"rangeindex": true}
	for k := range loopVarKinds {
		m[k] = true
	}
	return m
}()

func kindOfType(t types.Type) string {
	if b, ok := t.Underlying().(*types.Basic); ok {
		switch {
		case b.Info()&types.IsBoolean != 0:
			return "bool"
		case b.Info()&types.IsInteger != 0:
			return "int"
		case b.Info()&types.IsString != 0:
			return "string"
		}
	}
	return "other"
}

func kindOfVal(v Val) string {
	switch x := v.(type) {
	case VAtom:
		return "bool"
	case VSym, VLin:
		return "int"
	case VConst:
		if x.T != nil {
			return kindOfType(x.T)
		}
	}
	return "other"
}

type frame struct {
	fn   *ssa.Function
	env  map[ssa.Value]Val
	prev *ssa.BasicBlock
}

type undecided struct{ msg string }

func (r *Run) fail(format string, a ...any) {
	panic(undecided{fmt.Sprintf(format, a...)})
}

func (r *Run) Event(format string, a ...any) {
	r.out.Events = append(r.out.Events, fmt.Sprintf(format, a...))
}

func (r *Run) Fresh(prefix string) Val {
	r.fresh++
	return VOpq{fmt.Sprintf("%s#%d", prefix, r.fresh)}
}

func (r *Run) NewObj(name string, local bool) *Obj {
	// names are unique within a run: later objects of the same name get #n
	base, n := name, 1
	for {
		clash := false
		for _, o := range r.objs {
			if o.Name == name {
				clash = true
				break
			}
		}
		if !clash {
			break
		}
		n++
		name = fmt.Sprintf("%s#%d", base, n)
	}
	o := newObj(name, local)
	r.objs = append(r.objs, o)
	return o
}

// Interpret runs the region in world w.
func Interpret(reg *Region, w World) (out *Outcome) {
	out = &Outcome{Stores: map[string]string{}, NextPhi: map[string]string{}}
	r := &Run{reg: reg, w: w, mainWorld: w, out: out, asked: map[string]bool{}}
	for _, o := range reg.Globals {
		r.objs = append(r.objs, o)
	}
	defer func() {
		if e := recover(); e != nil {
			switch u := e.(type) {
			case undecided:
				out.Term = "undecided"
				out.Undecided = u.msg
				return
			case exitSignal:
				out.Term = "exit:" + u.code
				r.finish()
				return
			case assertPanic:
				out.Term = "panic"
				out.Results = []string{"type assertion " + u.v + " is not " + u.t}
				r.finish()
				return
			case calleePanic:
				out.Term = "panic"
				out.Results = []string{"in " + u.fn}
				r.finish()
				return
			}
			panic(e)
		}
	}()
	if reg.Prepare != nil {
		reg.Prepare(r)
	}
	fr := &frame{fn: reg.Fn, env: map[ssa.Value]Val{}}
	r.topFrame = fr
	for i, p := range reg.Fn.Params {
		// parameters are known to the rules under the names recorded for the reference tree
		name := refParamName(reg.Fn, i)
		if v, ok := reg.Params[name]; ok {
			fr.env[p] = v
		} else if v, ok := reg.Params[p.Name()]; ok {
			fr.env[p] = v
		} else {
			fr.env[p] = r.defaultParamNamed(p, name)
		}
	}
	if reg.Start != nil && reg.PreWorld != nil {
		r.w = reg.PreWorld
	}
	term, vals := r.exec(fr, reg.Fn.Blocks[0], false)
	out.Term = term
	for _, v := range vals {
		out.Results = append(out.Results, render(v))
	}
	r.finish()
	return out
}

func (r *Run) finish() {
	out := r.out
	if r.topFrame != nil {
		out.Env = map[string]string{}
		for v, val := range r.topFrame.env {
			if phi, ok := v.(*ssa.Phi); ok && phi.Comment != "" {
				out.Env[phiNameFor(r.topFrame.fn, phi)] = render(val)
			}
		}
	}
	r.reg.lastObjs = map[string]*Obj{}
	for _, o := range r.objs {
		r.reg.lastObjs[o.Name] = o
	}
	for _, o := range r.objs {
		if o.Local {
			continue
		}
		for _, k := range o.order {
			if o.stores[k] {
				out.Stores[o.Name+k] = render(o.cells[k])
			}
		}
	}
	for k := range r.asked {
		out.Asked = append(out.Asked, k)
	}
	sort.Strings(out.Asked)
}

func (r *Run) defaultParam(p *ssa.Parameter) Val { return r.defaultParamNamed(p, p.Name()) }

func (r *Run) defaultParamNamed(p *ssa.Parameter, name string) Val {
	t := p.Type()
	switch u := t.Underlying().(type) {
	case *types.Pointer:
		_ = u
		o := r.NewObj(name, false)
		return VPtr{o, ""}
	case *types.Basic:
		if u.Info()&types.IsInteger != 0 {
			return VSym{Name: name}
		}
	}
	return VOpq{name}
}

// exec interprets from block b until return / panic / cut.
func (r *Run) exec(fr *frame, b *ssa.BasicBlock, skipPhis bool) (string, []Val) {
	for {
		if fr.fn == r.reg.Fn && b == r.reg.Start && !r.entered {
			// end of the prologue: the run proper starts here
			r.entered = true
			r.w = r.mainWorld
			if len(r.stale) > 0 {
				// what the prologue read from assignable memory is now "the old value": forget the cells and
				// rename the values that were computed from them
				names := map[string]bool{}
				for _, sc := range r.stale {
					delete(sc.o.cells, sc.path)
					names[sc.o.Name+sc.path] = true
				}
				ren := func(x string) string { return markOld(x, names) }
				for k, v := range fr.env {
					fr.env[k] = renameVal(v, ren)
				}
				for _, o := range r.objs {
					for k, v := range o.cells {
						o.cells[k] = renameVal(v, ren)
					}
				}
			}
			// loop variables are given by name; a variable that was renamed is matched by its kind when
			// that is unambiguous (one unmatched name and one unmatched variable of the same kind)
			r.alias = map[string]string{}
			var freePhis []*ssa.Phi
			used := map[string]bool{}
			for _, in := range b.Instrs {
				phi, ok := in.(*ssa.Phi)
				if !ok {
					break
				}
				if v, ok := r.reg.PhiInputs[phiNameFor(fr.fn, phi)]; ok {
					fr.env[phi] = v
					used[phiNameFor(fr.fn, phi)] = true
				} else {
					freePhis = append(freePhis, phi)
				}
			}
			for _, phi := range freePhis {
				var cands []string
				for k, v := range r.reg.PhiInputs {
					if !used[k] && kindOfVal(v) == kindOfType(phi.Type()) {
						cands = append(cands, k)
					}
				}
				same := 0
				for _, q := range freePhis {
					if kindOfType(q.Type()) == kindOfType(phi.Type()) {
						same++
					}
				}
				if len(cands) != 1 || same != 1 {
					r.fail("no input given for loop variable %q", phi.Comment)
				}
				fr.env[phi] = r.reg.PhiInputs[cands[0]]
				used[cands[0]] = true
				r.alias[phi.Comment] = cands[0]
			}
			r.out.Events = nil
			for _, o := range r.objs {
				o.stores = map[string]bool{}
			}
			if r.reg.AtStart != nil {
				r.reg.AtStart(r, fr)
			}
			r.asked = map[string]bool{}
			skipPhis = true
		} else if !skipPhis && fr.fn == r.reg.Fn && r.reg.Cuts[b] && fr.prev != nil && (r.reg.Start == nil || r.entered) {
			// arrived at a cut: record next-iteration values
			for _, in := range b.Instrs {
				phi, ok := in.(*ssa.Phi)
				if !ok {
					break
				}
				for i, p := range b.Preds {
					if p == fr.prev {
						key := phiNameFor(fr.fn, phi)
						if a, ok := r.alias[phi.Comment]; ok && b == r.reg.Start {
							key = a
						}
						r.out.NextPhi[key] = render(r.val(fr, phi.Edges[i]))
					}
				}
			}
			// a loop variable whose name no rule knows (it was renamed) is also reported under the names rules
			// use for variables of its kind, provided it is the only such variable of its kind at this header
			unknown := map[string][]*ssa.Phi{}
			present := map[string]bool{}
			for _, in := range b.Instrs {
				phi, ok := in.(*ssa.Phi)
				if !ok {
					break
				}
				present[phiNameFor(fr.fn, phi)] = true
				if !knownLoopVar[phiNameFor(fr.fn, phi)] {
					unknown[kindOfType(phi.Type())] = append(unknown[kindOfType(phi.Type())], phi)
				}
			}
			for kind, phis := range unknown {
				if len(phis) != 1 {
					continue
				}
				val, ok := r.out.NextPhi[phiNameFor(fr.fn, phis[0])]
				if !ok {
					continue
				}
				for name, k := range loopVarKinds {
					if k == kind && !present[name] {
						if _, taken := r.out.NextPhi[name]; !taken {
							r.out.NextPhi[name] = val
						}
					}
				}
			}
			r.out.CutBlock = b
			return "cut:" + b.Comment, nil
		}
		if fr.fn == r.reg.Fn && (r.reg.Start == nil || r.entered) {
			r.out.Path = append(r.out.Path, b.Index)
		}
		var next *ssa.BasicBlock
		// phis are evaluated simultaneously
		if !skipPhis {
			newv := map[*ssa.Phi]Val{}
			for _, in := range b.Instrs {
				phi, ok := in.(*ssa.Phi)
				if !ok {
					break
				}
				idx := -1
				for i, p := range b.Preds {
					if p == fr.prev {
						idx = i
					}
				}
				if idx < 0 {
					r.fail("phi %s without matching predecessor", phi.Name())
				}
				newv[phi] = r.val(fr, phi.Edges[idx])
			}
			for k, v := range newv {
				fr.env[k] = v
			}
		}
		skipPhis = false
		for _, in := range b.Instrs {
			r.steps++
			max := r.reg.MaxSteps
			if max == 0 {
				max = 20000
			}
			if r.steps > max {
				r.fail("step limit exceeded (loop inside the region?)")
			}
			switch x := in.(type) {
			case *ssa.Phi, *ssa.DebugRef:
				continue
			case *ssa.Jump:
				next = b.Succs[0]
			case *ssa.If:
				cv := r.val(fr, x.Cond)
				// Assertions are taken to hold in the generator's own code only. In the generated code (the
				// instantiated templates) a panic is a result the properties speak about (Scan, Parse, RuneValue
				// must return): there the world has to decide every condition.
				assume := !strings.Contains(fr.fn.String(), "/internal/zz")
				if oq, isOpq := cv.(VOpq); isOpq && assume {
					// the result of a call the rule does not know, used only to guard a panic
					p0, p1 := panicsOnly(b.Succs[0]), panicsOnly(b.Succs[1])
					if p0 != p1 {
						r.out.Assumed = append(r.out.Assumed, oq.Name)
						if p0 {
							next = b.Succs[1]
						} else {
							next = b.Succs[0]
						}
						continue
					}
				}
				if at, isAtom := cv.(VAtom); isAtom && assume {
					// an assertion — a condition the world says nothing about, one of whose outcomes does nothing
					// but panic — is taken to hold: the rules are about what the code does when it does not
					// give up with a panic (which is never a silent wrong result)
					if _, known := r.w.Atom(at.Key); !known {
						p0, p1 := panicsOnly(b.Succs[0]), panicsOnly(b.Succs[1])
						if p0 != p1 {
							r.out.Assumed = append(r.out.Assumed, at.Key)
							if p0 {
								next = b.Succs[1]
							} else {
								next = b.Succs[0]
							}
							continue
						}
					}
				}
				c := r.truth(cv)
				if c {
					next = b.Succs[0]
				} else {
					next = b.Succs[1]
				}
			case *ssa.Return:
				vals := make([]Val, len(x.Results))
				for i, res := range x.Results {
					vals[i] = r.val(fr, res)
				}
				return "return", vals
			case *ssa.Panic:
				return "panic", []Val{r.val(fr, x.X)}
			case *ssa.RunDefers:
				continue
			default:
				r.step(fr, in)
			}
		}
		if next == nil {
			r.fail("block %d has no terminator the engine understands", b.Index)
		}
		fr.prev = b
		b = next
	}
}

func (r *Run) truth(v Val) bool {
	switch x := v.(type) {
	case VConst:
		if x.V != nil && x.V.Kind() == constant.Bool {
			return constant.BoolVal(x.V)
		}
	case VAtom:
		r.asked[x.Key] = true
		res, ok := r.w.Atom(x.Key)
		if !ok {
			r.fail("the world does not decide %q", x.Key)
		}
		return res != x.Neg
	}
	r.fail("branch on a value that is not boolean-decidable: %s", render(v))
	return false
}

func boolConst(b bool) Val { return VConst{V: constant.MakeBool(b), T: types.Typ[types.Bool]} }
func intConst(n int64) Val { return VConst{V: constant.MakeInt64(n), T: types.Typ[types.Int]} }

func (r *Run) val(fr *frame, v ssa.Value) Val {
	if x, ok := fr.env[v]; ok {
		return x
	}
	switch x := v.(type) {
	case *ssa.Const:
		return VConst{V: x.Value, T: x.Type()}
	case *ssa.Global:
		name := x.Name()
		if o, ok := r.reg.Globals[name]; ok {
			return VPtr{o, ""}
		}
		o := r.NewObj(name, false)
		if r.reg.Globals == nil {
			r.reg.Globals = map[string]*Obj{}
		}
		r.reg.Globals[name] = o
		// a package-level variable of a basic type that nothing ever assigns keeps the value of its declaration
		// (a debug switch that is false by default)
		if c, ok := neverAssigned(x); ok {
			o.cells[""] = VConst{V: c.Value, T: c.Type()}
			o.order = append(o.order, "")
		}
		return VPtr{o, ""}
	case *ssa.Function:
		return VFn{x}
	case *ssa.Builtin:
		return VOpq{"builtin:" + x.Name()}
	case *ssa.FreeVar:
		if e, ok := r.reg.Extern[x.Name()]; ok {
			return e
		}
		return VOpq{x.Name()}
	}
	// defined outside the region
	if e, ok := r.reg.Extern[v.Name()]; ok {
		return e
	}
	if in, ok := v.(ssa.Instruction); ok {
		if phi, ok := in.(*ssa.Phi); ok {
			if e, ok := r.reg.Extern[phi.Comment]; ok {
				return e
			}
		}
	}
	r.fail("value %s (%T) defined outside the region has no given meaning", v.Name(), v)
	return nil
}

func isInt(t types.Type) bool {
	b, ok := t.Underlying().(*types.Basic)
	return ok && b.Info()&types.IsInteger != 0
}

// assignable: may the cell at this path change after its object was made? A field is taken to be fixed when it
// is unexported and no function of the region's package stores to a field of that name except through a fresh
// allocation (a constructor's composite literal): the lexer's src. Exported fields (Context) belong to the user.
func (r *Run) assignable(path string) bool {
	name := strings.TrimPrefix(path, ".")
	if i := strings.IndexAny(name, ".["); i >= 0 {
		name = name[:i]
	}
	if name == "" || ast.IsExported(name) {
		return true
	}
	if r.reg.storedFields == nil {
		r.reg.storedFields = map[string]bool{}
		if pkg := r.reg.Fn.Pkg; pkg != nil {
			var visit func(f *ssa.Function)
			seen := map[*ssa.Function]bool{}
			visit = func(f *ssa.Function) {
				if f == nil || seen[f] {
					return
				}
				seen[f] = true
				for _, b := range f.Blocks {
					for _, in := range b.Instrs {
						st, ok := in.(*ssa.Store)
						if !ok {
							continue
						}
						var a ssa.Value = st.Addr
						for {
							if ia, ok := a.(*ssa.IndexAddr); ok {
								a = ia.X
								continue
							}
							break
						}
						if fa, ok := a.(*ssa.FieldAddr); ok {
							if al, isAlloc := fa.X.(*ssa.Alloc); isAlloc && !isParamSpill(al) {
								continue
							}
							r.reg.storedFields[fieldVar(fa).Name()] = true
						}
					}
				}
				for _, an := range f.AnonFuncs {
					visit(an)
				}
			}
			for _, m := range pkg.Members {
				switch x := m.(type) {
				case *ssa.Function:
					visit(x)
				case *ssa.Type:
					for _, T := range []types.Type{x.Type(), types.NewPointer(x.Type())} {
						ms := pkg.Prog.MethodSets.MethodSet(T)
						for i := 0; i < ms.Len(); i++ {
							visit(pkg.Prog.MethodValue(ms.At(i)))
						}
					}
				}
			}
		}
	}
	return r.reg.storedFields[name]
}

func (r *Run) isGlobal(o *Obj) bool {
	for _, g := range r.reg.Globals {
		if g == o {
			return true
		}
	}
	return false
}

func (r *Run) lazy(o *Obj, path string, t types.Type) Val {
	if r.reg.Lazy != nil {
		if v := r.reg.Lazy(o, path, t); v != nil {
			return v
		}
	}
	if st, ok := t.Underlying().(*types.Struct); ok {
		vs := VStruct{T: t, Fields: map[string]Val{}}
		for i := 0; i < st.NumFields(); i++ {
			f := st.Field(i)
			vs.Fields[f.Name()] = r.load(o, path+"."+f.Name(), f.Type())
		}
		return vs
	}
	if r.reg.StalePrologue && r.reg.Start != nil && !r.entered && !o.Local && !r.isGlobal(o) && r.assignable(path) {
		// (package-level tables are read-only after init: R17.1)
		if _, isPtr := t.Underlying().(*types.Pointer); !isPtr {
			r.stale = append(r.stale, staleCell{o, path})
		}
	}
	if isInt(t) {
		return VSym{Name: o.Name + path}
	}
	if b, ok := t.Underlying().(*types.Basic); ok && b.Kind() == types.Bool {
		return VAtom{Key: o.Name + path}
	}
	if _, ok := t.Underlying().(*types.Pointer); ok {
		no := r.NewObj("*"+o.Name+path, o.Local)
		return VPtr{no, ""}
	}
	return VOpq{o.Name + path}
}

func (r *Run) load(o *Obj, path string, t types.Type) Val {
	if v, ok := o.cells[path]; ok {
		return v
	}
	if st, ok := t.Underlying().(*types.Struct); ok {
		// assemble from field cells (some may have been written individually)
		vs := VStruct{T: t, Fields: map[string]Val{}}
		for i := 0; i < st.NumFields(); i++ {
			f := st.Field(i)
			vs.Fields[f.Name()] = r.load(o, path+"."+f.Name(), f.Type())
		}
		return vs
	}
	v := r.lazy(o, path, t)
	o.cells[path] = v
	o.order = append(o.order, path)
	return v
}

func (r *Run) store(o *Obj, path string, v Val) {
	if vs, ok := v.(VStruct); ok {
		keys := make([]string, 0, len(vs.Fields))
		for k := range vs.Fields {
			keys = append(keys, k)
		}
		sort.Strings(keys)
		for _, k := range keys {
			r.store(o, path+"."+k, vs.Fields[k])
		}
		return
	}
	// a write to an aggregate cell invalidates nothing else: paths are exact
	if _, ok := o.cells[path]; !ok {
		o.order = append(o.order, path)
	}
	o.cells[path] = v
	o.stores[path] = true
	if !o.Local {
		r.Event("store %s%s = %s", o.Name, path, render(v))
	}
}

// isParamSpill: the cell go/ssa gives a parameter or named result that a closure (a defer, say) captures; it is the
// variable itself, not an object the function creates
func isParamSpill(a *ssa.Alloc) bool {
	fn := a.Parent()
	if fn == nil || a.Comment == "" {
		return false
	}
	for _, p := range fn.Params {
		if p.Name() == a.Comment {
			return true
		}
	}
	if sig := fn.Signature; sig != nil {
		for i := 0; i < sig.Results().Len(); i++ {
			if n := sig.Results().At(i).Name(); n != "" && n != "_" && n == a.Comment {
				// only the declaration-time cell: named results are allocated in the entry block
				return a.Block() == fn.Blocks[0]
			}
		}
	}
	return false
}

func (r *Run) step(fr *frame, in ssa.Instruction) {
	switch x := in.(type) {
	case *ssa.Alloc:
		name := x.Comment
		if name == "" {
			name = x.Name()
		}
		var o *Obj
		if nm, ok := r.reg.ObserveLocals[x.Comment]; ok && fr.fn == r.reg.Fn {
			// a local the rule wants to watch (a named result that is built up in place)
			o = r.NewObj(nm, false)
		} else if x.Heap && x.Comment != "varargs" && !isParamSpill(x) {
			// escaping allocation (returned / stored): observed like a parameter object
			o = r.NewObj("new:"+name, false)
		} else {
			o = r.NewObj("local:"+name, true)
		}
		fr.env[x] = VPtr{o, ""}
		// zero value on first read is handled lazily by type: give explicit zeros
		r.zeroInit(o, "", x.Type().Underlying().(*types.Pointer).Elem())
	case *ssa.FieldAddr:
		p, ok := r.val(fr, x.X).(VPtr)
		if !ok {
			// a pointer the world names only symbolically: the struct it points to is a named object whose
			// fields are read lazily (one object per name within a run)
			switch sv := r.val(fr, x.X).(type) {
			case VSym, VOpq:
				nm := "*" + render(sv)
				var so *Obj
				for _, o := range r.objs {
					if o.Name == nm {
						so = o
					}
				}
				if so == nil {
					so = r.NewObj(nm, false)
				}
				p, ok = VPtr{so, ""}, true
			}
		}
		if !ok {
			r.fail("field address of non-pointer %s", render(r.val(fr, x.X)))
		}
		st := x.X.Type().Underlying().(*types.Pointer).Elem().Underlying().(*types.Struct)
		fr.env[x] = VPtr{p.Obj, p.Path + "." + st.Field(x.Field).Name()}
	case *ssa.Field:
		sv, ok := r.val(fr, x.X).(VStruct)
		if !ok {
			r.fail("field of non-struct value %s", render(r.val(fr, x.X)))
		}
		st := x.X.Type().Underlying().(*types.Struct)
		fr.env[x] = sv.Fields[st.Field(x.Field).Name()]
	case *ssa.IndexAddr:
		base := r.val(fr, x.X)
		idx := r.val(fr, x.Index)
		switch bv := base.(type) {
		case VPtr: // pointer to array
			fr.env[x] = VPtr{bv.Obj, bv.Path + "[" + render(idx) + "]"}
		case VOpq: // opaque slice: element cells live in an object named after it
			o := r.sliceObj(bv.Name)
			fr.env[x] = VPtr{o, "[" + render(idx) + "]"}
		case VSlice:
			o := r.sliceObj(bv.Name)
			fr.env[x] = VPtr{o, "[" + render(idx) + "]"}
		default:
			r.fail("index address into %s", render(base))
		}
	case *ssa.Index:
		base := r.val(fr, x.X)
		idx := r.val(fr, x.Index)
		fr.env[x] = VOpq{render(base) + "[" + render(idx) + "]"}
		if isInt(x.Type()) {
			fr.env[x] = VSym{Name: render(base) + "[" + render(idx) + "]"}
		}
	case *ssa.UnOp:
		fr.env[x] = r.unop(fr, x)
	case *ssa.BinOp:
		fr.env[x] = r.binop(x.Op, r.val(fr, x.X), r.val(fr, x.Y), x)
	case *ssa.Store:
		p, ok := r.val(fr, x.Addr).(VPtr)
		if !ok {
			r.fail("store through non-pointer %s", render(r.val(fr, x.Addr)))
		}
		r.store(p.Obj, p.Path, r.val(fr, x.Val))
	case *ssa.ChangeType:
		fr.env[x] = r.val(fr, x.X)
	case *ssa.Convert:
		v := r.val(fr, x.X)
		if isInt(x.Type()) && isInt(x.X.Type()) {
			fr.env[x] = v
		} else if c, ok := v.(VConst); ok && c.V != nil && isInt(x.X.Type()) && isInt(x.Type()) {
			fr.env[x] = VConst{V: c.V, T: x.Type()}
		} else {
			fr.env[x] = VOpq{typeShort(x.Type()) + "(" + render(v) + ")"}
		}
	case *ssa.ChangeInterface:
		fr.env[x] = r.val(fr, x.X)
	case *ssa.MakeInterface:
		fr.env[x] = VIface{Dyn: x.X.Type(), V: r.val(fr, x.X)}
	case *ssa.TypeAssert:
		fr.env[x] = r.typeAssert(fr, x)
	case *ssa.Extract:
		t, ok := r.val(fr, x.Tuple).(VTuple)
		if !ok || x.Index >= len(t) {
			r.fail("extract from non-tuple %s", render(r.val(fr, x.Tuple)))
		}
		fr.env[x] = t[x.Index]
	case *ssa.Call:
		fr.env[x] = r.call(fr, x)
	case *ssa.Slice:
		base := r.val(fr, x.X)
		lo, hi := "", ""
		if x.Low != nil {
			lo = render(r.val(fr, x.Low))
		}
		if x.High != nil {
			hi = render(r.val(fr, x.High))
		}
		fr.env[x] = VOpq{render(base) + "[" + lo + ":" + hi + "]"}
	case *ssa.MakeSlice:
		fr.env[x] = VSlice{Name: fmt.Sprintf("make(%s,%s)", typeShort(x.Type()), render(r.val(fr, x.Len))), Len: r.val(fr, x.Len)}
	case *ssa.Lookup:
		m := r.val(fr, x.X)
		k := r.val(fr, x.Index)
		if r.reg.LookupVal != nil {
			et := x.Type()
			if tup, ok := et.(*types.Tuple); ok {
				et = tup.At(0).Type()
			}
			if v, has := r.reg.LookupVal(r, m, k, et); v != nil {
				if x.CommaOk {
					fr.env[x] = VTuple{v, has}
				} else {
					fr.env[x] = v
				}
				return
			}
		}
		name := render(m) + "[" + render(k) + "]"
		var v Val = VOpq{name}
		if isInt(x.Type()) {
			v = VSym{Name: name}
		}
		if x.CommaOk {
			fr.env[x] = VTuple{v, VAtom{Key: "has " + name}}
			if tup, ok := x.Type().(*types.Tuple); ok && isInt(tup.At(0).Type()) {
				fr.env[x] = VTuple{VSym{Name: name}, VAtom{Key: "has " + name}}
			}
		} else {
			fr.env[x] = v
		}
	case *ssa.Range:
		fr.env[x] = VOpq{"iter(" + render(r.val(fr, x.X)) + ")"}
	case *ssa.Next:
		it := render(r.val(fr, x.Iter))
		if v, ok := r.reg.Extern["next:"+it]; ok {
			fr.env[x] = v
		} else {
			fr.env[x] = VTuple{VAtom{Key: "more " + it}, VOpq{"key " + it}, VOpq{"val " + it}}
		}
	case *ssa.MapUpdate:
		r.Event("mapupdate %s[%s] = %s", render(r.val(fr, x.Map)), render(r.val(fr, x.Key)), render(r.val(fr, x.Value)))
	case *ssa.MakeMap:
		fr.env[x] = r.Fresh("map")
	default:
		r.fail("instruction %T (%s) is outside the engine's vocabulary", in, in)
	}
}

func (r *Run) sliceObj(name string) *Obj {
	for _, o := range r.objs {
		if o.Name == name {
			return o
		}
	}
	return r.NewObj(name, false)
}

func (r *Run) zeroInit(o *Obj, path string, t types.Type) {
	set := func(v Val) {
		if _, ok := o.cells[path]; !ok {
			o.order = append(o.order, path)
		}
		o.cells[path] = v
	}
	switch u := t.Underlying().(type) {
	case *types.Struct:
		for i := 0; i < u.NumFields(); i++ {
			r.zeroInit(o, path+"."+u.Field(i).Name(), u.Field(i).Type())
		}
	case *types.Basic:
		switch {
		case u.Info()&types.IsInteger != 0:
			set(intConst(0))
		case u.Kind() == types.Bool:
			set(boolConst(false))
		case u.Kind() == types.String:
			set(VConst{V: constant.MakeString(""), T: t})
		}
	case *types.Pointer, *types.Slice, *types.Map, *types.Interface, *types.Signature:
		set(VConst{V: nil, T: t})
	case *types.Array:
		// elements are zero-initialised lazily
	}
}

func (r *Run) unop(fr *frame, x *ssa.UnOp) Val {
	v := r.val(fr, x.X)
	switch x.Op {
	case token.MUL:
		p, ok := v.(VPtr)
		if !ok {
			r.fail("load through non-pointer %s", render(v))
		}
		return r.load(p.Obj, p.Path, x.Type())
	case token.NOT:
		switch b := v.(type) {
		case VConst:
			return boolConst(!constant.BoolVal(b.V))
		case VAtom:
			return VAtom{b.Key, !b.Neg}
		}
	case token.SUB:
		if c, ok := v.(VConst); ok && c.V != nil {
			return VConst{V: constant.UnaryOp(token.SUB, c.V, 0), T: c.T}
		}
	}
	r.fail("unary %s on %s", x.Op, render(v))
	return nil
}

func constInt64(v Val) (int64, bool) {
	c, ok := v.(VConst)
	if !ok || c.V == nil {
		return 0, false
	}
	if c.V.Kind() != constant.Int {
		return 0, false
	}
	n, exact := constant.Int64Val(c.V)
	return n, exact
}

func (r *Run) binop(op token.Token, a, b Val, x *ssa.BinOp) Val {
	ca, aok := a.(VConst)
	cb, bok := b.(VConst)
	switch op {
	case token.ADD, token.SUB:
		if aok && bok && ca.V != nil && cb.V != nil {
			return VConst{V: constant.BinaryOp(ca.V, op, cb.V), T: ca.T}
		}
		if la, ok := linOf(a); ok {
			if lb, ok := linOf(b); ok {
				sign := int64(1)
				if op == token.SUB {
					sign = -1
				}
				return linAdd(la, lb, sign)
			}
		}
		// symbol ± symbol: opaque arithmetic (named), still comparable by the world
		if x != nil && isInt(x.Type()) {
			return VSym{Name: "(" + render(a) + op.String() + render(b) + ")"}
		}
		return VOpq{"(" + render(a) + op.String() + render(b) + ")"}
	case token.MUL, token.QUO, token.REM, token.AND, token.OR, token.XOR, token.SHL, token.SHR, token.AND_NOT:
		if aok && bok && ca.V != nil && cb.V != nil && ca.V.Kind() == constant.Int && cb.V.Kind() == constant.Int {
			if op == token.SHL || op == token.SHR {
				n, _ := constant.Uint64Val(cb.V)
				return VConst{V: constant.Shift(ca.V, op, uint(n)), T: ca.T}
			}
			return VConst{V: constant.BinaryOp(ca.V, op, cb.V), T: ca.T}
		}
		return VSym{Name: "(" + render(a) + op.String() + render(b) + ")"}
	case token.EQL, token.NEQ:
		res := r.eq(a, b)
		if op == token.NEQ {
			return r.not(res)
		}
		return res
	case token.LSS:
		return r.less(a, b)
	case token.GTR:
		return r.less(b, a)
	case token.LEQ:
		return r.not(r.less(b, a))
	case token.GEQ:
		return r.not(r.less(a, b))
	}
	r.fail("binary %s on %s, %s", op, render(a), render(b))
	return nil
}

func (r *Run) not(v Val) Val {
	switch b := v.(type) {
	case VConst:
		return boolConst(!constant.BoolVal(b.V))
	case VAtom:
		return VAtom{b.Key, !b.Neg}
	case VOpq:
		return VOpq{"!" + b.Name}
	}
	r.fail("negation of %s", render(v))
	return nil
}

func (r *Run) eq(a, b Val) Val {
	ca, aok := a.(VConst)
	cb, bok := b.(VConst)
	if aok && bok {
		if ca.V == nil || cb.V == nil {
			return boolConst(ca.V == nil && cb.V == nil)
		}
		return boolConst(constant.Compare(ca.V, token.EQL, cb.V))
	}
	// nil tests
	if aok && ca.V == nil {
		return r.isNil(b)
	}
	if bok && cb.V == nil {
		return r.isNil(a)
	}
	if sa, ok := a.(VSym); ok {
		if sb, ok := b.(VSym); ok && sa.Name == sb.Name {
			return boolConst(sa.Off == sb.Off)
		}
	}
	if ia, ok := a.(VIface); ok {
		if ib, ok := b.(VIface); ok {
			if ia.Dyn == nil || ib.Dyn == nil {
				return boolConst(ia.Dyn == nil && ib.Dyn == nil)
			}
			if !types.Identical(ia.Dyn, ib.Dyn) {
				return boolConst(false)
			}
			return r.eq(ia.V, ib.V)
		}
	}
	if pa, ok := a.(VPtr); ok {
		if pb, ok := b.(VPtr); ok {
			return boolConst(pa.Obj == pb.Obj && pa.Path == pb.Path)
		}
	}
	if res, ok := r.w.Eq(a, b); ok {
		return boolConst(res)
	}
	x, y := render(a), render(b)
	if y < x {
		x, y = y, x
	}
	key := x + " == " + y
	r.asked[key] = true
	if res, ok := r.w.Atom(key); ok {
		return boolConst(res)
	}
	// left open: whoever branches on it must have the world decide it (or it guards an assertion)
	return VAtom{Key: key}
}

func (r *Run) isNil(v Val) Val {
	switch x := v.(type) {
	case VIface:
		return boolConst(x.Dyn == nil)
	case VPtr, VFn, VSlice:
		return boolConst(false)
	case VConst:
		return boolConst(x.V == nil)
	}
	key := render(v) + " == nil"
	r.asked[key] = true
	if res, ok := r.w.Atom(key); ok {
		return boolConst(res)
	}
	r.fail("the world does not decide %q", key)
	return nil
}

func (r *Run) less(a, b Val) Val {
	if na, ok := constInt64(a); ok {
		if nb, ok := constInt64(b); ok {
			return boolConst(na < nb)
		}
	}
	if sa, ok := a.(VSym); ok {
		if sb, ok := b.(VSym); ok && sa.Name == sb.Name {
			return boolConst(sa.Off < sb.Off)
		}
	}
	if res, ok := r.w.Less(a, b); ok {
		return boolConst(res)
	}
	key := render(a) + " < " + render(b)
	r.asked[key] = true
	if res, ok := r.w.Atom(key); ok {
		return boolConst(res)
	}
	return VAtom{Key: key}
}

func (r *Run) typeAssert(fr *frame, x *ssa.TypeAssert) Val {
	v := r.val(fr, x.X)
	iv, ok := v.(VIface)
	if !ok {
		r.fail("type assertion on a value whose dynamic type the world did not fix: %s", render(v))
	}
	match := false
	var res Val
	if iv.Dyn != nil {
		if types.IsInterface(x.AssertedType) {
			match = types.Implements(iv.Dyn, x.AssertedType.Underlying().(*types.Interface))
			res = iv
		} else {
			match = types.Identical(iv.Dyn, x.AssertedType)
			res = iv.V
		}
	}
	if x.CommaOk {
		if !match {
			res = VOpq{"zero"}
			if isInt(x.AssertedType) {
				res = intConst(0)
			}
		}
		return VTuple{res, boolConst(match)}
	}
	if !match {
		// failed single-value assertion panics
		panic(assertPanic{render(v), typeShort(x.AssertedType)})
	}
	return res
}

type assertPanic struct{ v, t string }

func (r *Run) call(fr *frame, x *ssa.Call) Val {
	cc := &x.Call
	args := make([]Val, len(cc.Args))
	for i, a := range cc.Args {
		args[i] = r.val(fr, a)
	}
	if bi, ok := cc.Value.(*ssa.Builtin); ok {
		switch bi.Name() {
		case "len":
			switch a := args[0].(type) {
			case VConst:
				if a.V != nil && a.V.Kind() == constant.String {
					return intConst(int64(len(constant.StringVal(a.V))))
				}
			case VSlice:
				return a.Len
			}
			return VSym{Name: "len(" + render(args[0]) + ")"}
		case "cap":
			return VSym{Name: "cap(" + render(args[0]) + ")"}
		}
		if s, ok := r.reg.Summaries["builtin:"+bi.Name()]; ok {
			v, err := s(r, cc, args)
			if err != nil {
				r.fail("%v", err)
			}
			return v
		}
		r.fail("builtin %s has no summary", bi.Name())
	}
	var callee *ssa.Function
	name := ""
	if cc.IsInvoke() {
		recv := r.val(fr, cc.Value)
		iv, ok := recv.(VIface)
		name = "invoke:" + cc.Method.Name()
		if ok && iv.Dyn != nil {
			// resolve by dynamic type
			ms := fr.fn.Prog.MethodSets.MethodSet(iv.Dyn)
			if sel := ms.Lookup(cc.Method.Pkg(), cc.Method.Name()); sel != nil {
				callee = fr.fn.Prog.MethodValue(sel)
				if fo, ok := sel.Obj().(*types.Func); ok {
					if d := fr.fn.Prog.FuncValue(fo); d != nil {
						callee = d
					}
				}
				// receiver value
				args = append([]Val{iv.V}, args...)
			}
		}
		if callee == nil {
			if s, ok := r.reg.Summaries[name]; ok {
				v, err := s(r, cc, append([]Val{recv}, args...))
				if err != nil {
					r.fail("%v", err)
				}
				return v
			}
			r.fail("dynamic call %s on %s has no summary", cc.Method.Name(), render(recv))
		}
	} else {
		callee = cc.StaticCallee()
		if callee == nil {
			fv := r.val(fr, cc.Value)
			if f, ok := fv.(VFn); ok {
				callee = f.Fn
			} else {
				name = "dyn:" + render(fv)
				if s, ok := r.reg.Summaries["dyn"]; ok {
					v, err := s(r, cc, append([]Val{fv}, args...))
					if err != nil {
						r.fail("%v", err)
					}
					return v
				}
				r.fail("call of function value %s has no summary", render(fv))
			}
		}
	}
	name = callee.String()
	if s, ok := r.reg.Summaries[name]; ok {
		v, err := s(r, cc, args)
		if err != nil {
			r.fail("%v", err)
		}
		return v
	}
	if s, ok := r.reg.Summaries["*."+callee.Name()]; ok {
		v, err := s(r, cc, args)
		if err != nil {
			r.fail("%v", err)
		}
		return v
	}
	if r.reg.Inline[name] || r.reg.Inline["*"] && callee.Blocks != nil {
		if callee.Blocks == nil {
			r.fail("cannot inline %s: no body", name)
		}
		r.frames++
		if r.frames > 12 {
			r.fail("inlining depth exceeded at %s", name)
		}
		nf := &frame{fn: callee, env: map[ssa.Value]Val{}}
		for i, p := range callee.Params {
			if i < len(args) {
				nf.env[p] = args[i]
			}
		}
		term, vals := r.exec(nf, callee.Blocks[0], false)
		r.frames--
		switch term {
		case "return":
			if len(vals) == 1 {
				return vals[0]
			}
			return VTuple(vals)
		case "panic":
			panic(calleePanic{name, vals})
		}
		r.fail("inlined %s ended with %s", name, term)
	}
	// a helper of the module that the rule does not know, without loops of its own: interpreted in place, so
	// that extracting a few lines into a function (or back) does not change what a rule sees
	if r.reg.NoAutoInline == false && autoInlinable(callee) && r.frames < 6 {
		r.frames++
		nf := &frame{fn: callee, env: map[ssa.Value]Val{}}
		for i, p := range callee.Params {
			if i < len(args) {
				nf.env[p] = args[i]
			}
		}
		term, vals := r.exec(nf, callee.Blocks[0], false)
		r.frames--
		switch term {
		case "return":
			if len(vals) == 1 {
				return vals[0]
			}
			return VTuple(vals)
		case "panic":
			panic(calleePanic{name, vals})
		}
		r.fail("inlined %s ended with %s", name, term)
	}
	if purityOracle != nil && purityOracle(callee) {
		// an effect-free helper the rule does not know: its result is an opaque
		// function of its arguments
		parts := make([]string, len(args))
		for i, a := range args {
			parts[i] = render(a)
		}
		v := VOpq{callee.Name() + "(" + strings.Join(parts, ",") + ")"}
		if callee.Signature.Results().Len() == 1 && isInt(callee.Signature.Results().At(0).Type()) {
			return VSym{Name: v.Name}
		}
		if callee.Signature.Results().Len() > 1 {
			r.fail("call to %s (pure, several results) has no summary", name)
		}
		return v
	}
	// a diagnostic print (to the standard error stream, or through package log) does not take part in what
	// the rules decide: it is skipped. Prints to os.Stdout are NOT skipped: stdout is observable (C11, C12).
	if isDiagnosticPrint(name, args) {
		return VTuple{VSym{Name: "nprinted"}, VIface{}}
	}
	r.fail("call to %s has no summary", name)
	return nil
}

func isDiagnosticPrint(name string, args []Val) bool {
	switch name {
	case "fmt.Fprintf", "fmt.Fprintln", "fmt.Fprint":
		return len(args) > 0 && strings.Contains(render(args[0]), "os.Stderr")
	case "log.Printf", "log.Println", "log.Print":
		return true
	}
	return false
}

// purityOracle, when set, lets the interpreter treat unknown effect-free
// callees as opaque pure functions instead of giving up.
var purityOracle func(f *ssa.Function) bool

// exitSignal: a summary may end the run (os.Exit).
type exitSignal struct{ code string }

// Exit is for summaries of functions that do not return.
func (r *Run) Exit(code string) {
	panic(exitSignal{code})
}

// SetCell seeds a memory cell of a named object.
func (r *Run) SetCell(obj, path string, v Val) {
	for _, o := range r.objs {
		if o.Name == obj {
			if _, ok := o.cells[path]; !ok {
				o.order = append(o.order, path)
			}
			o.cells[path] = v
			return
		}
	}
	o := r.NewObj(obj, false)
	o.cells[path] = v
	o.order = append(o.order, path)
}

// GlobalLoad reads a package-level variable (lazily named like any cell).
func (r *Run) GlobalLoad(name string, t types.Type) Val {
	if r.reg.Globals == nil {
		r.reg.Globals = map[string]*Obj{}
	}
	o, ok := r.reg.Globals[name]
	if !ok {
		o = r.NewObj(name, false)
		r.reg.Globals[name] = o
	}
	return r.load(o, "", t)
}

// ClearCell forgets a memory cell so that the next read names it lazily.
func (r *Run) ClearCell(obj, path string) {
	for _, o := range r.objs {
		if o.Name == obj {
			for k := range o.cells {
				if k == path || strings.HasPrefix(k, path+".") {
					delete(o.cells, k)
				}
			}
		}
	}
}

// VarargElems returns the rendered elements of a variadic argument slice that
// was built in place (new [n]T; stores; slice).
func (r *Run) VarargElems(v Val) []string {
	o, ok := v.(VOpq)
	if !ok {
		if c, ok := v.(VConst); ok && c.V == nil {
			return nil
		}
		return []string{render(v)}
	}
	name := strings.TrimSuffix(strings.TrimPrefix(o.Name, "&"), "[:]")
	for _, ob := range r.objs {
		if ob.Name == name {
			keys := make([]string, 0, len(ob.cells))
			for k := range ob.cells {
				keys = append(keys, k)
			}
			sort.Strings(keys)
			out := []string{}
			for _, k := range keys {
				out = append(out, render(ob.cells[k]))
			}
			return out
		}
	}
	return []string{o.Name}
}

// SprintfSummary models fmt.Sprintf as an opaque value that records format and operands.
func SprintfSummary(r *Run, cc *ssa.CallCommon, args []Val) (Val, error) {
	parts := []string{render(args[0])}
	if len(args) > 1 {
		parts = append(parts, r.VarargElems(args[1])...)
	}
	return VOpq{"Sprintf(" + strings.Join(parts, "|") + ")"}, nil
}

// JoinSummary models path.Join as an opaque value listing its elements.
func JoinSummary(r *Run, cc *ssa.CallCommon, args []Val) (Val, error) {
	return VOpq{"Join(" + strings.Join(r.VarargElems(args[0]), ",") + ")"}, nil
}

type calleePanic struct {
	fn   string
	vals []Val
}

// InterpretSafe is Interpret (kept as the entry point rules use).
func InterpretSafe(reg *Region, w World) *Outcome { return Interpret(reg, w) }

// ---- worlds ---------------------------------------------------------------------

// MapWorld: integer symbols get concrete representative values (E3), atoms
// get truth values; anything else is unknown.
type MapWorld struct {
	Strs  map[string]string // concrete strings for opaque string values
	Ints  map[string]int64
	Atoms map[string]bool
	// AtomFn is asked when Atoms has no entry.
	AtomFn func(key string) (bool, bool)
	// IntFn is asked when Ints has no entry for a symbol.
	IntFn func(name string) (int64, bool)
}

func (w *MapWorld) intOf(v Val) (int64, bool) {
	switch x := v.(type) {
	case VConst:
		return constInt64(x)
	case VSym:
		if n, ok := w.Ints[x.Name]; ok {
			return n + x.Off, true
		}
		if w.IntFn != nil {
			if n, ok := w.IntFn(x.Name); ok {
				return n + x.Off, true
			}
		}
	case VLin:
		t := x.Off
		for k, c := range x.Terms {
			n, ok := w.Ints[k]
			if !ok {
				return 0, false
			}
			t += c * n
		}
		return t, true
	}
	return 0, false
}

func (w *MapWorld) strOf(v Val) (string, bool) {
	switch x := v.(type) {
	case VConst:
		if x.V != nil && x.V.Kind() == constant.String {
			return constant.StringVal(x.V), true
		}
	case VOpq:
		if s, ok := w.Strs[x.Name]; ok {
			return s, true
		}
	}
	return "", false
}

func (w *MapWorld) Eq(a, b Val) (bool, bool) {
	if x, ok := w.strOf(a); ok {
		if y, ok := w.strOf(b); ok {
			return x == y, true
		}
	}
	if x, ok := w.intOf(a); ok {
		if y, ok := w.intOf(b); ok {
			return x == y, true
		}
	}
	return false, false
}

func (w *MapWorld) Less(a, b Val) (bool, bool) {
	if x, ok := w.intOf(a); ok {
		if y, ok := w.intOf(b); ok {
			return x < y, true
		}
	}
	return false, false
}

func (w *MapWorld) Atom(key string) (bool, bool) {
	if v, ok := w.Atoms[key]; ok {
		return v, true
	}
	if w.AtomFn != nil {
		return w.AtomFn(key)
	}
	return false, false
}

// ---- loop structure helpers -------------------------------------------------------

// loopHeaders returns the blocks that are targets of back edges.
func loopHeaders(fn *ssa.Function) []*ssa.BasicBlock {
	var out []*ssa.BasicBlock
	for _, b := range fn.Blocks {
		for _, p := range b.Preds {
			if b.Dominates(p) {
				out = append(out, b)
				break
			}
		}
	}
	return out
}

func blockByComment(fn *ssa.Function, c string) *ssa.BasicBlock {
	for _, b := range fn.Blocks {
		if b.Comment == c {
			return b
		}
	}
	return nil
}

var neverAssignedMemo = map[*ssa.Global]*ssa.Const{}
var neverAssignedDone = map[*ssa.Global]bool{}

// neverAssigned: g has a basic type, no function takes its address for anything but loading, and the only
// store to it (if any) is a constant in its package's initialiser. Returns that constant (or the zero value).
func neverAssigned(g *ssa.Global) (*ssa.Const, bool) {
	if neverAssignedDone[g] {
		c := neverAssignedMemo[g]
		return c, c != nil
	}
	neverAssignedDone[g] = true
	elem := g.Type().Underlying().(*types.Pointer).Elem()
	if _, ok := elem.Underlying().(*types.Basic); !ok {
		return nil, false
	}
	var val *ssa.Const
	for _, mem := range g.Pkg.Members {
		fn, ok := mem.(*ssa.Function)
		if !ok {
			continue
		}
		fns := append([]*ssa.Function{fn}, fn.AnonFuncs...)
		for _, f := range fns {
			for _, b := range f.Blocks {
				for _, in := range b.Instrs {
					for _, op := range in.Operands(nil) {
						if *op != ssa.Value(g) {
							continue
						}
						switch x := in.(type) {
						case *ssa.UnOp: // load
						case *ssa.Store:
							c, isConst := x.Val.(*ssa.Const)
							if x.Addr != ssa.Value(g) || !isConst || f.Name() != "init" || val != nil {
								return nil, false
							}
							val = c
						default:
							return nil, false
						}
					}
				}
			}
		}
	}
	// methods of types of the package may also touch it
	for _, fn := range allFunctionsOf(g.Pkg) {
		for _, b := range fn.Blocks {
			for _, in := range b.Instrs {
				for _, op := range in.Operands(nil) {
					if *op == ssa.Value(g) {
						if _, isLoad := in.(*ssa.UnOp); !isLoad {
							if st, isStore := in.(*ssa.Store); !(isStore && fn.Name() == "init" && st.Addr == ssa.Value(g)) {
								return nil, false
							}
						}
					}
				}
			}
		}
	}
	if val == nil {
		val = ssa.NewConst(nil, elem) // zero value
		if b, ok := elem.Underlying().(*types.Basic); ok && b.Info()&types.IsBoolean != 0 {
			val = ssa.NewConst(constant.MakeBool(false), elem)
		}
	}
	if !g.Object().Exported() {
		neverAssignedMemo[g] = val
		return val, true
	}
	return nil, false
}

func allFunctionsOf(pk *ssa.Package) []*ssa.Function {
	var out []*ssa.Function
	for fn := range ssautilAll(pk.Prog) {
		if fn.Pkg == pk {
			out = append(out, fn)
		}
	}
	return out
}

var allFnsMemo = map[*ssa.Program]map[*ssa.Function]bool{}

func ssautilAll(prog *ssa.Program) map[*ssa.Function]bool {
	if m, ok := allFnsMemo[prog]; ok {
		return m
	}
	m := ssautil.AllFunctions(prog)
	allFnsMemo[prog] = m
	return m
}

var autoInlineMemo = map[*ssa.Function]bool{}

// autoInlinable: a function of the analysed module with a body, no loops and no recursion through itself.
func autoInlinable(f *ssa.Function) bool {
	if v, ok := autoInlineMemo[f]; ok {
		return v
	}
	ok := f.Blocks != nil && f.Pkg != nil && strings.Contains(f.Pkg.Pkg.Path(), "goccmack/gocc") && len(loopHeaders(f)) == 0
	if ok {
		for _, b := range f.Blocks {
			for _, in := range b.Instrs {
				if ci, isCall := in.(ssa.CallInstruction); isCall && ci.Common().StaticCallee() == f {
					ok = false
				}
				if _, isDefer := in.(*ssa.Defer); isDefer {
					ok = false
				}
			}
		}
	}
	autoInlineMemo[f] = ok
	return ok
}

// panicsOnly: the block computes a message and panics (possibly through one more straight-line block).
func panicsOnly(b *ssa.BasicBlock) bool {
	for i := 0; i < 3 && b != nil; i++ {
		if len(b.Instrs) == 0 {
			return false
		}
		switch b.Instrs[len(b.Instrs)-1].(type) {
		case *ssa.Panic:
			return true
		case *ssa.Jump:
			b = b.Succs[0]
		default:
			return false
		}
	}
	return false
}
