package main

import (
	"fmt"
	"go/types"
	"sort"
	"strconv"
	"strings"

	"golang.org/x/tools/go/ssa"
)

func init() {
	register("C20", "other", runC20)
	register("C13", "other", runC13)
}

type decoderCopy struct {
	name string // for messages
	pkg  string
	top  string // RuneValue / LitToRune
}

var decoderCopies = []decoderCopy{
	{"gocc's own decoder (internal/util)", "internal/util", "LitToRune"},
	{"generated util package", gmRoot + "/util", "RuneValue"},
}

// Go's escape table (language specification, "Rune literals").
var goNamedEscapes = map[byte]string{'a': `'\a'`, 'b': `'\b'`, 'f': `'\f'`, 'n': `'\n'`, 'r': `'\r'`, 't': `'\t'`, 'v': `'\v'`, '\\': `'\\'`, '\'': `'\''`}

type numEscape struct {
	digits, base, max int64
	prefix            int64 // bytes between the backslash and the first digit
}

var goNumericEscapes = map[byte]numEscape{
	'0': {3, 8, 255, 0}, '1': {3, 8, 255, 0}, '2': {3, 8, 255, 0}, '3': {3, 8, 255, 0}, '4': {3, 8, 255, 0}, '5': {3, 8, 255, 0}, '6': {3, 8, 255, 0}, '7': {3, 8, 255, 0},
	'x': {2, 16, 255, 1}, 'u': {4, 16, 0x10FFFF, 1}, 'U': {8, 16, 0x10FFFF, 1},
}

func checkEscapeDecoder(c *Ctx, p *Prog, dc decoderCopy) {
	fn := p.Func(dc.pkg, "escapeCharVal")
	if fn == nil {
		c.Undecided("R20.1", dc.name+": escapeCharVal", "function not found")
		return
	}
	hs := loopHeaders(fn)
	if len(hs) != 1 {
		c.Undecided("R20.1", dc.name+": escapeCharVal", "expected one loop (digit accumulation)")
		return
	}
	head := hs[0]
	pos := p.FnPos(fn)
	// dispatch on the byte after the backslash
	nOK, nAll := 0, 0
	var bad []string
	for b := 0; b < 256; b++ {
		reg := &Region{Fn: fn, Cuts: cutSet(head), Summaries: map[string]Summary{"fmt.Sprintf": SprintfSummary}}
		out := InterpretSafe(reg, &MapWorld{Ints: map[string]int64{"lit[2]": int64(b)}})
		nAll++
		ok := false
		if lit, isNamed := goNamedEscapes[byte(b)]; isNamed {
			v, _, _, err := strconv.UnquoteChar(lit[1:len(lit)-1], '\'')
			ok = err == nil && out.Term == "return" && len(out.Results) == 1 && out.Results[0] == fmt.Sprint(int64(v))
		} else if ne, isNum := goNumericEscapes[byte(b)]; isNum {
			ok = strings.HasPrefix(out.Term, "cut:") && out.NextPhi["i"] == fmt.Sprint(ne.digits) && out.Env["base"] == fmt.Sprint(ne.base) && out.Env["max"] == fmt.Sprint(ne.max) && out.NextPhi["offset"] == fmt.Sprint(2+ne.prefix) && (out.NextPhi["x"] == "0" || out.NextPhi["x"] == "")
		} else {
			ok = out.Term == "panic"
		}
		if ok {
			nOK++
		} else if len(bad) < 4 {
			bad = append(bad, fmt.Sprintf("\\%c (%d): term=%s results=%v next=%v base=%s max=%s %s", rune(b), b, out.Term, out.Results, out.NextPhi, out.Env["base"], out.Env["max"], out.Undecided))
		}
	}
	c.Ob("R20.1", dc.name+": escape dispatch", nOK == nAll, fmt.Sprintf("%d of 256 values of the byte after the backslash behave as Go's table says (named escapes a b f n r t v \\ ' give Go's values; octal 3 digits base 8 max 255; \\x 2 digits base 16 max 255; \\u 4 and \\U 8 digits base 16 max 0x10FFFF; anything else is refused). %v", nOK, bad), pos)

	// one step of the digit loop: x' = x*base + d, offset advances, i decreases; bad digits refused
	for _, wd := range []struct {
		name   string
		d      int64
		base   int64
		refuse bool
	}{{"digit below base", 7, 8, false}, {"digit = base", 8, 8, true}, {"digit above base", 16, 16, true}, {"hex digit", 15, 16, false}} {
		reg := &Region{Fn: fn, Start: head, Cuts: cutSet(head),
			PhiInputs: map[string]Val{"i": VSym{Name: "I"}, "offset": VSym{Name: "OFF"}, "x": VSym{Name: "X"}},
			Extern:    map[string]Val{"base": VSym{Name: "BASE"}, "max": VSym{Name: "MAX"}},
			PreWorld:  &MapWorld{Ints: map[string]int64{"lit[2]": 'x'}},
			Summaries: map[string]Summary{
				"fmt.Sprintf": SprintfSummary,
				"unicode/utf8.DecodeRune": func(r *Run, cc *ssa.CallCommon, args []Val) (Val, error) {
					return VTuple{VSym{Name: "CH"}, VSym{Name: "SIZE"}}, nil
				},
				"*.digitVal": func(r *Run, cc *ssa.CallCommon, args []Val) (Val, error) { return VSym{Name: "D"}, nil },
			},
			AtStart: func(r *Run, fr *frame) {
				// base and max are fixed before the loop; give them symbolic names
				for v := range fr.env {
					if phi, ok := v.(*ssa.Phi); ok {
						switch phi.Comment {
						case "base":
							fr.env[v] = VSym{Name: "BASE"}
						case "max":
							fr.env[v] = VSym{Name: "MAX"}
						}
					}
				}
			},
		}
		w := &MapWorld{Ints: map[string]int64{"I": 2, "OFF": 3, "len(lit)": 9, "D": wd.d, "BASE": wd.base}}
		out := InterpretSafe(reg, w)
		var ok bool
		if wd.refuse {
			ok = out.Term == "panic"
		} else {
			ok = strings.HasPrefix(out.Term, "cut:") && out.NextPhi["i"] == "I-1" && out.NextPhi["offset"] == "(OFF+SIZE)" && out.NextPhi["x"] == "((X*BASE)+D)"
		}
		c.Ob("R20.1", dc.name+": digit loop, "+wd.name, ok, fmt.Sprintf("term=%s next=%v %s; required: refuse a digit >= base, otherwise x' = x*base + d, offset' = offset + size, i' = i-1", out.Term, out.NextPhi, out.Undecided), pos)
	}
	// after the loop: range check
	for _, wd := range []struct {
		x, max int64
		refuse bool
	}{{0, 255, false}, {255, 255, false}, {256, 255, true}, {0xD7FF, 0x10FFFF, false}, {0xD800, 0x10FFFF, true}, {0xDFFF, 0x10FFFF, true}, {0xE000, 0x10FFFF, false}, {0x10FFFF, 0x10FFFF, false}, {0x110000, 0x10FFFF, true}} {
		reg := &Region{Fn: fn, Start: head, Cuts: cutSet(head),
			PhiInputs: map[string]Val{"i": VSym{Name: "I"}, "offset": VSym{Name: "OFF"}, "x": VSym{Name: "X"}},
			PreWorld:  &MapWorld{Ints: map[string]int64{"lit[2]": 'x'}},
			Summaries: map[string]Summary{"fmt.Sprintf": SprintfSummary},
			AtStart: func(r *Run, fr *frame) {
				for v := range fr.env {
					if phi, ok := v.(*ssa.Phi); ok && phiNameFor(fr.fn, phi) == "max" {
						fr.env[v] = VSym{Name: "MAX"}
					}
				}
			},
		}
		out := InterpretSafe(reg, &MapWorld{Ints: map[string]int64{"I": 0, "X": wd.x, "MAX": wd.max}})
		var ok bool
		if wd.refuse {
			ok = out.Term == "panic"
		} else {
			ok = out.Term == "return" && len(out.Results) == 1 && (out.Results[0] == "X" || out.Results[0] == "rune(X)" || out.Results[0] == "int32(X)")
		}
		c.Ob("R20.1", fmt.Sprintf("%s: result check x=%#x max=%#x", dc.name, wd.x, wd.max), ok, fmt.Sprintf("term=%s results=%v %s; required: values above max and surrogates are refused, everything else is returned unchanged", out.Term, out.Results, out.Undecided), pos)
	}
	// R20.2 digitVal
	dv := p.Func(dc.pkg, "digitVal")
	if dv == nil {
		c.Undecided("R20.2", dc.name+": digitVal", "function not found")
	} else {
		nb := 0
		first := ""
		for ch := int64(0); ch < 300; ch++ {
			reg := &Region{Fn: dv, Params: map[string]Val{"ch": VSym{Name: "ch"}}}
			out := InterpretSafe(reg, &MapWorld{Ints: map[string]int64{"ch": ch}})
			want := int64(16)
			switch {
			case '0' <= ch && ch <= '9':
				want = ch - '0'
			case 'a' <= ch && ch <= 'f':
				want = ch - 'a' + 10
			case 'A' <= ch && ch <= 'F':
				want = ch - 'A' + 10
			}
			got, okv := (&MapWorld{Ints: map[string]int64{"ch": ch}}).intOf(parseSymTerm(strings.Join(out.Results, "")))
			if out.Term != "return" || !okv || got != want {
				nb++
				if first == "" {
					first = fmt.Sprintf("digitVal(%d)=%v %s, Go's digit value is %d", ch, out.Results, out.Undecided, want)
				}
			}
		}
		c.Ob("R20.2", dc.name+": digitVal", nb == 0, fmt.Sprintf("300 character values; %d differ from: 0-9 -> 0..9, a-f/A-F -> 10..15, else 16. %s", nb, first), p.FnPos(dv))
	}
	// top-level: escape iff lit[1] is a backslash, else exactly one UTF-8 rune between the quotes
	top := p.Func(dc.pkg, dc.top)
	if top == nil {
		c.Undecided("R20.1", dc.name+": "+dc.top, "function not found")
		return
	}
	for _, wd := range []struct {
		name string
		b1   int64
		size int64
		want string
		r    int64
	}{{"escape", '\\', 0, "escaped", 'x'}, {"plain rune of the right size", 'x', 3, "R", 0x20ac}, {"size mismatch", 'x', 2, "panic", 0x20ac},
		{"the character U+FFFD itself (three bytes, also what DecodeRune returns for an error)", 0xef, 3, "R", 0xfffd}} {
		reg := &Region{Fn: top, Summaries: map[string]Summary{
			"*.escapeCharVal": func(r *Run, cc *ssa.CallCommon, args []Val) (Val, error) { return VSym{Name: "escaped"}, nil },
			"unicode/utf8.DecodeRune": func(r *Run, cc *ssa.CallCommon, args []Val) (Val, error) {
				if render(args[0]) != "lit[1:]" {
					return nil, fmt.Errorf("DecodeRune applied to %s, not to lit[1:]", render(args[0]))
				}
				return VTuple{VSym{Name: "R"}, VSym{Name: "SIZE"}}, nil
			},
			"fmt.Sprintf": SprintfSummary,
		}}
		out := InterpretSafe(reg, &MapWorld{Ints: map[string]int64{"lit[1]": wd.b1, "SIZE": wd.size, "len(lit)": 5, "R": wd.r}})
		got := out.Term
		if out.Term == "return" && len(out.Results) == 1 {
			got = out.Results[0]
		}
		c.Ob("R20.1", dc.name+": "+dc.top+", "+wd.name, got == wd.want, fmt.Sprintf("got %s %s; required %s", got, out.Undecided, wd.want), p.FnPos(top))
	}
	// R20.4
	for _, nm := range []struct{ fn, lib string }{{"IntValue", "strconv.ParseInt"}, {"UintValue", "strconv.ParseUint"}} {
		f := p.Func(dc.pkg, nm.fn)
		if f == nil {
			c.Undecided("R20.4", dc.name+": "+nm.fn, "function not found")
			continue
		}
		called := ""
		reg := &Region{Fn: f, Summaries: map[string]Summary{
			nm.lib: func(r *Run, cc *ssa.CallCommon, args []Val) (Val, error) {
				called = fmt.Sprintf("%s(%s,%s,%s)", nm.lib, render(args[0]), render(args[1]), render(args[2]))
				return VTuple{VOpq{"N"}, VOpq{"E"}}, nil
			},
		}}
		out := InterpretSafe(reg, &MapWorld{})
		ok := out.Term == "return" && strings.Join(out.Results, ",") == "N,E" && called == nm.lib+"(string(lit),10,64)"
		c.Ob("R20.4", dc.name+": "+nm.fn, ok, fmt.Sprintf("calls %s and returns %v %s; required: exactly strconv's result for base 10, 64 bits", called, out.Results, out.Undecided), p.FnPos(f))
	}
}

func runC20(c *Ctx) {
	p := c.RepoProg()
	if !gmHealth(c, p, "R20.0") {
		return
	}
	for _, dc := range decoderCopies {
		checkEscapeDecoder(c, p, dc)
	}
	c.Assumptions = append(c.Assumptions, "the literal handed to the decoder is a syntactically valid rune literal (quotes at both ends, enough digits): the scanners guarantee the shape",
		"the digit loop runs i times: its exit condition (i > 0 and offset inside the literal) is read as written, not proven to consume exactly the digits of every literal")
	c.Trusted = append(c.Trusted, "go/ssa", "checker/sx.go", "strconv.UnquoteChar as the reference for Go's named escapes")
	c.Explanation = "C20, partial: both escape decoders (gocc's internal/util and the generated util package) are decided independently against Go's table: the dispatch on the byte after the backslash for all 256 values (named escapes give Go's values as computed by strconv; octal, \\x, \\u, \\U get the digit count, base, maximum and prefix length of the language specification; anything else is refused), one step of the digit loop (x*base + d, refusal of digits >= base), the final range check (above maximum and surrogates refused), digitVal for 300 character values, the top-level choice between escape and a single UTF-8 rune of the right size, and IntValue/UintValue = strconv.ParseInt/ParseUint(…, 10, 64). Since both copies satisfy the same tables, gocc and the generated package read every literal as the same code point. NOT decided: the accumulated value of the digit loop for every literal (only its step and parameters)."
}

// ---- C13 ---------------------------------------------------------------------------------

func runC13(c *Ctx) {
	p := c.RepoProg()
	// R13.1: no position / spelling can reach the AST (type level)
	tok := p.Pkg("internal/frontend/token")
	if tok == nil {
		c.Undecided("R13.1", "frontend token", "package missing")
	} else {
		sp := p.SSAPkg("internal/frontend/token")
		have := strings.Join(structFieldNames(sp, "Token"), ",")
		c.Ob("R13.1", "frontend token.Token fields", have == "Type,Lit", "fields "+have+"; the token handed to the AST constructors must carry only its type and text, no position")
	}
	if astPk := p.Pkg("internal/ast"); astPk != nil {
		var offenders []string
		offenders = astTypesWithPosition(p)
		c.Ob("R13.1", "no ast type holds a source position", len(offenders) == 0, fmt.Sprintf("types of package ast containing token.Position: %v", offenders))
	}
	// R13.2: the raw spelling of a character literal is never read
	var readers []string
	for _, fn := range sortedFuncs(p.Reach) {
		if strings.Contains(fn.String(), "/internal/zz") {
			continue
		}
		for _, b := range fn.Blocks {
			for _, in := range b.Instrs {
				u, ok := in.(*ssa.UnOp)
				if !ok {
					continue
				}
				if fa, ok := u.X.(*ssa.FieldAddr); ok && isNamedStruct(fa.X.Type(), "LexCharLit") && fieldVar(fa).Name() == "Lit" {
					if onlyDiagnosed(u, map[ssa.Value]bool{}) {
						continue // read only to be printed on the standard error stream
					}
					readers = append(readers, p.FnName(fn))
				}
			}
		}
	}
	c.Ob("R13.2", "LexCharLit.Lit (raw spelling) is never read", len(readers) == 0, fmt.Sprintf("readers: %v — every consumer must use Val or its canonical rendering", readers))
	// canonical rendering is computed from the value
	for _, ctor := range []string{"newLexCharLit", "newLexCharLitFromRune"} {
		fn := p.Func("internal/ast", ctor)
		if fn == nil {
			c.Undecided("R13.2", ctor, "function not found")
			continue
		}
		reg := &Region{Fn: fn, Summaries: map[string]Summary{
			"*.LitToRune":    func(r *Run, cc *ssa.CallCommon, args []Val) (Val, error) { return VSym{Name: "VALUE"}, nil },
			"*.RuneToString": pureSummary("RuneToString"),
		}, Params: map[string]Val{"c": VSym{Name: "VALUE"}}}
		if ctor == "newLexCharLit" {
			reg.Prepare = func(r *Run) {
				o := r.NewObj("tokobj", false)
				reg.Params["tok"] = VIface{Dyn: typesPointerTo(p, "internal/frontend/token", "Token"), V: VPtr{o, ""}}
			}
		}
		out := InterpretSafe(reg, &MapWorld{})
		ok := out.Term == "return"
		val, s := "", ""
		for k, v := range out.Stores {
			if strings.HasSuffix(k, ".Val") {
				val = v
			}
			if strings.HasSuffix(k, ".s") {
				s = v
			}
		}
		c.Ob("R13.2", ctor+": canonical form", ok && val == "VALUE" && s == "RuneToString(VALUE)", fmt.Sprintf("Val=%s s=%s %s; required: the node stores the decoded value and renders it from the value", val, s, out.Undecided), p.FnPos(fn))
	}
	// R13.3: decoding per Go's table (the C20 rules on gocc's own copy)
	checkEscapeDecoder(c, p, decoderCopies[0])
	// R13.4: NewStringLit drops exactly the first and the last byte
	if fn := p.Func("internal/ast", "NewStringLit"); fn != nil {
		reg := &Region{Fn: fn}
		reg.Prepare = func(r *Run) {
			o := r.NewObj("tokobj", false)
			reg.Params = map[string]Val{"tok": VIface{Dyn: typesPointerTo(p, "internal/frontend/token", "Token"), V: VPtr{o, ""}}}
		}
		out := InterpretSafe(reg, &MapWorld{})
		got := ""
		if len(out.Results) > 0 {
			got = out.Results[0]
		}
		c.Ob("R13.4", "NewStringLit", out.Term == "return" && got == "ast.SyntaxStringLit(tokobj.Lit[1:len(tokobj.Lit)-1])", fmt.Sprintf("result %s %s; required: the literal without its first and last byte, whatever the quote character", got, out.Undecided), p.FnPos(fn))
	} else {
		c.Undecided("R13.4", "NewStringLit", "function not found")
	}
	c.Assumptions = append(c.Assumptions, "NOT decided: that white space and comments never produce or split tokens and that the literal scanners stop where they should (skipWhitespace, scanComment, scanString, scanRawString, scanChar are loops over the input)")
	c.Trusted = append(c.Trusted, "go/types", "go/ssa", "checker/sx.go")
	checkScanComment(c, p, "R13.4")
	checkSkipWhitespace(c, p, "R13.5")
	c.Explanation = "C13, thin: decided is that layout and spelling have no channel into the generated output other than the sequence of (type, text) pairs: the front-end token has no position field and no type of package ast holds a position (R13.1); a character literal's raw spelling is stored but never read — every consumer uses the decoded value or the rendering computed from it (R13.2); decoding follows Go's table (R13.3, shared with C20); a string literal's content is its text without the first and last byte whatever the quote character (R13.4). NOT decided: the scanner's loops (white space, comments, literal ends), which is why this is a thin claim."
}

func containsNamed(t types.Type, pkgSuffix, name string, seen map[types.Type]bool) bool {
	if seen[t] {
		return false
	}
	seen[t] = true
	if n, ok := t.(*types.Named); ok {
		if n.Obj().Name() == name && n.Obj().Pkg() != nil && strings.HasSuffix(n.Obj().Pkg().Path(), pkgSuffix) {
			return true
		}
	}
	switch u := t.Underlying().(type) {
	case *types.Pointer:
		return containsNamed(u.Elem(), pkgSuffix, name, seen)
	case *types.Slice:
		return containsNamed(u.Elem(), pkgSuffix, name, seen)
	case *types.Array:
		return containsNamed(u.Elem(), pkgSuffix, name, seen)
	case *types.Map:
		return containsNamed(u.Key(), pkgSuffix, name, seen) || containsNamed(u.Elem(), pkgSuffix, name, seen)
	case *types.Struct:
		for i := 0; i < u.NumFields(); i++ {
			if containsNamed(u.Field(i).Type(), pkgSuffix, name, seen) {
				return true
			}
		}
	}
	return false
}

func astTypesWithPosition(p *Prog) []string {
	pk := p.Pkg("internal/ast")
	var out []string
	sc := pk.Types.Scope()
	for _, n := range sc.Names() {
		if tn, ok := sc.Lookup(n).(*types.TypeName); ok {
			if containsNamed(tn.Type(), "internal/frontend/token", "Position", map[types.Type]bool{}) {
				out = append(out, n)
			}
		}
	}
	return out
}

func typesPointerTo(p *Prog, rel, name string) types.Type {
	t := pkgType(p, rel, name)
	if t == nil {
		return nil
	}
	return types.NewPointer(t)
}

// ---- R13.4: where a comment ends (doc: _lineComment : '/' '/' {.} '\n' ; _blockComment : '/' '*' {. | '*'} '*' '/' ;) ----

func checkScanComment(c *Ctx, p *Prog, rule string) {
	fn := p.Func("internal/frontend/scanner", "*Scanner.scanComment")
	if fn == nil {
		c.Undecided(rule, "scanner scanComment", "function not found")
		return
	}
	hs := loopHeaders(fn)
	if len(hs) != 2 {
		c.Undecided(rule, "scanner scanComment", fmt.Sprintf("expected two loops (line comment, block comment), found %d", len(hs)), p.FnPos(fn))
		return
	}
	recv := fn.Params[0].Name()
	mk := func(chs []int64) (*Region, *MapWorld, *int) {
		n := 0
		ints := map[string]int64{}
		for i, v := range chs {
			ints[fmt.Sprintf("CH%d", i)] = v
		}
		consume := func(r *Run, cc *ssa.CallCommon, args []Val) (Val, error) {
			n++
			r.Event("consume")
			r.SetCell(recv, ".ch", VSym{Name: fmt.Sprintf("CH%d", n)})
			return VTuple{}, nil
		}
		reg := &Region{Fn: fn, Cuts: cutSet(hs...), Summaries: map[string]Summary{
			"*.next":   consume,
			"*.expect": consume,
			"*.error":  func(r *Run, cc *ssa.CallCommon, args []Val) (Val, error) { r.Event("error"); return VTuple{}, nil },
		}, Lazy: func(o *Obj, path string, t types.Type) Val {
			if o.Name == recv && path == ".ch" {
				return VSym{Name: "CH0"}
			}
			return nil
		}}
		return reg, &MapWorld{Ints: ints, IntFn: func(s string) (int64, bool) { return 7, strings.HasSuffix(s, ".Column") }}, &n
	}
	only := func(out *Outcome, pre string) string { return evs(out, pre) }
	// entry
	for _, wd := range []struct {
		name string
		ch   int64
		head *ssa.BasicBlock
		want string
	}{{"after '/' comes '/': line comment", '/', hs[0], ""}, {"after '/' comes '*': block comment, the '*' is consumed before the end is looked for", '*', hs[1], "consume"}} {
		reg, w, _ := mk([]int64{wd.ch, 'x', 'y'})
		out := InterpretSafe(reg, w)
		stepOb(c, out, rule, "scanComment entry: "+wd.name, termOf(out) == "cut" && out.CutBlock == wd.head && only(out, "consume")+only(out, "error") == wd.want, fmt.Sprintf("%s events=[%s] %s; required events [%s]", termOf(out), evs(out), out.Undecided, wd.want), p.FnPos(fn))
	}
	// block comment loop
	for _, wd := range []struct {
		name string
		chs  []int64
		want string
	}{
		{"end of input", []int64{-1}, "error|return"},
		{"'*' followed by '/'", []int64{'*', '/', 'x'}, "consume; consume|return"},
		{"'*' followed by something else", []int64{'*', 'x'}, "consume|cut"},
		{"'*' followed by '*'", []int64{'*', '*'}, "consume|cut"},
		{"'/' (no star before it)", []int64{'/', '*'}, "consume|cut"},
		{"any other character", []int64{'q', '/'}, "consume|cut"},
	} {
		reg, w, _ := mk(wd.chs)
		reg.Start = hs[1]
		reg.PreWorld = &MapWorld{Ints: map[string]int64{"CH0": '*', "CH1": 'x'}}
		// the prologue consumed one character: renumber
		reg.AtStart = func(r *Run, fr *frame) { r.SetCell(recv, ".ch", VSym{Name: "CH0"}) }
		n0 := 0
		reg.Summaries["*.next"] = func(r *Run, cc *ssa.CallCommon, args []Val) (Val, error) {
			n0++
			r.Event("consume")
			r.SetCell(recv, ".ch", VSym{Name: fmt.Sprintf("CH%d", n0)})
			return VTuple{}, nil
		}
		reg.Summaries["*.expect"] = reg.Summaries["*.next"]
		reg.AtStart = func(r *Run, fr *frame) { n0 = 0; r.SetCell(recv, ".ch", VSym{Name: "CH0"}) }
		out := InterpretSafe(reg, w)
		t := termOf(out)
		if strings.HasPrefix(t, "return") {
			t = "return"
		}
		got := evs(out, "consume", "error") + "|" + t
		stepOb(c, out, rule, "block comment, next is "+wd.name, got == wd.want && (t != "cut" || out.CutBlock == hs[1]), fmt.Sprintf("got %s %s; required %s — the comment ends with the first '*' '/' after the opening '/' '*'", got, out.Undecided, wd.want), p.FnPos(fn))
	}
	// line comment loop
	for _, wd := range []struct {
		name string
		chs  []int64
		want string
	}{
		{"end of input", []int64{-1}, "error|return"},
		{"a character followed by a line break", []int64{'x', '\n'}, "consume|return"},
		{"a character followed by another", []int64{'x', 'y'}, "consume|cut"},
	} {
		reg, w, _ := mk(wd.chs)
		reg.Start = hs[0]
		reg.PreWorld = &MapWorld{Ints: map[string]int64{"CH0": '/'}}
		n0 := 0
		reg.Summaries["*.next"] = func(r *Run, cc *ssa.CallCommon, args []Val) (Val, error) {
			n0++
			r.Event("consume")
			r.SetCell(recv, ".ch", VSym{Name: fmt.Sprintf("CH%d", n0)})
			return VTuple{}, nil
		}
		reg.AtStart = func(r *Run, fr *frame) { n0 = 0; r.SetCell(recv, ".ch", VSym{Name: "CH0"}) }
		out := InterpretSafe(reg, w)
		t := termOf(out)
		if strings.HasPrefix(t, "return") {
			t = "return"
		}
		got := evs(out, "consume", "error") + "|" + t
		stepOb(c, out, rule, "line comment, next is "+wd.name, got == wd.want && (t != "cut" || out.CutBlock == hs[0]), fmt.Sprintf("got %s %s; required %s — the comment runs up to, not including, the line break; without one it is not terminated", got, out.Undecided, wd.want), p.FnPos(fn))
	}
}

// R13.5: what counts as white space (user guide: space, tab, line feed, carriage return)
func checkSkipWhitespace(c *Ctx, p *Prog, rule string) {
	fn := p.Func("internal/frontend/scanner", "*Scanner.skipWhitespace")
	if fn == nil {
		c.Undecided(rule, "scanner skipWhitespace", "function not found")
		return
	}
	hs := loopHeaders(fn)
	if len(hs) != 1 {
		c.Undecided(rule, "scanner skipWhitespace", "expected one loop", p.FnPos(fn))
		return
	}
	recv := fn.Params[0].Name()
	vals := map[int64]bool{' ': true, '\t': true, '\n': true, '\r': true, -1: true, 'a': true, '/': true, 0x0b: true, 0x0c: true, 0xa0: true, 0x2028: true}
	for _, k := range comparedConstants(fn) {
		vals[k] = true
		vals[k-1] = true
		vals[k+1] = true
	}
	var keys []int64
	for k := range vals {
		keys = append(keys, k)
	}
	sort.Slice(keys, func(i, j int) bool { return keys[i] < keys[j] })
	bad := 0
	first := ""
	for _, ch := range keys {
		n := 0
		reg := &Region{Fn: fn, Start: hs[0], Cuts: cutSet(hs[0]), Summaries: map[string]Summary{
			"*.next": func(r *Run, cc *ssa.CallCommon, args []Val) (Val, error) { n++; return VTuple{}, nil }},
			Lazy: func(o *Obj, path string, t types.Type) Val {
				if o.Name == recv && path == ".ch" {
					return intConst(ch)
				}
				return nil
			}}
		out := InterpretSafe(reg, &MapWorld{})
		ws := ch == ' ' || ch == '\t' || ch == '\n' || ch == '\r'
		ok := (ws && termOf(out) == "cut" && n == 1) || (!ws && strings.HasPrefix(termOf(out), "return") && n == 0)
		if !ok {
			bad++
			if first == "" {
				first = fmt.Sprintf("character %d: %s after %d consumed %s", ch, termOf(out), n, out.Undecided)
			}
		}
	}
	c.Ob(rule, "scanner skipWhitespace", bad == 0, fmt.Sprintf("%d characters tried (the constants the code compares with, their neighbours, EOF and other Unicode spaces); %d disagree with: exactly space, tab, line feed and carriage return are skipped, one per round. %s", len(keys), bad, first), p.FnPos(fn))
}

// onlyDiagnosed: every use of v ends, through conversions and the argument list of the call, in a print to the
// standard error stream.
func onlyDiagnosed(v ssa.Value, seen map[ssa.Value]bool) bool {
	if seen[v] {
		return true
	}
	seen[v] = true
	refs := v.Referrers()
	if refs == nil || len(*refs) == 0 {
		return true
	}
	for _, in := range *refs {
		switch x := in.(type) {
		case *ssa.MakeInterface:
			if !onlyDiagnosed(x, seen) {
				return false
			}
		case *ssa.ChangeType:
			if !onlyDiagnosed(x, seen) {
				return false
			}
		case *ssa.Convert:
			if !onlyDiagnosed(x, seen) {
				return false
			}
		case *ssa.Store:
			// into the argument list of a variadic call
			al := rootAlloc(x.Addr)
			if al == nil || al.Comment != "varargs" || x.Val != v {
				return false
			}
			if !onlyDiagnosed(al, seen) {
				return false
			}
		case *ssa.IndexAddr:
			// the slot of the argument list (its uses are the store above)
		case *ssa.Slice:
			if !onlyDiagnosed(x, seen) {
				return false
			}
		case *ssa.Call:
			if !isStderrPrint(&x.Call) {
				return false
			}
		case *ssa.DebugRef:
		default:
			return false
		}
	}
	return true
}
