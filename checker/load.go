package main

// E0 — loader: go/packages + go/ssa + VTA call graph of a Go module.

import (
	"fmt"
	"go/ast"
	"go/token"
	"go/types"
	"os"
	"path/filepath"
	"sort"
	"strings"

	"golang.org/x/tools/go/callgraph"
	"golang.org/x/tools/go/callgraph/cha"
	"golang.org/x/tools/go/callgraph/vta"
	"golang.org/x/tools/go/packages"
	"golang.org/x/tools/go/ssa"
	"golang.org/x/tools/go/ssa/ssautil"
)

const gomod = "github.com/goccmack/gocc"

type Prog struct {
	Dir       string
	ModPath   string
	Fset      *token.FileSet
	Pkgs      map[string]*packages.Package // by import path, module packages only
	All       []*packages.Package
	SSA       *ssa.Program
	CG        *callgraph.Graph
	Reach     map[*ssa.Function]bool // module functions reachable from main + inits
	AllFns    map[*ssa.Function]bool
	PkgErrors map[string][]string // type errors of overlay-only packages (fixtures, generated model)
	GM        *GM
}

// LoadProg loads the module rooted at dir (pattern patterns), builds SSA; the
// call graph is built when wantCG is set.
func LoadProg(dir, modPath string, wantCG bool, patterns ...string) (*Prog, error) {
	return LoadProgOverlay(dir, modPath, wantCG, nil, patterns...)
}

// LoadProgOverlay is LoadProg with virtual files (used for the embedded
// positive fixtures, which live in a package that exists only in the overlay).
func LoadProgOverlay(dir, modPath string, wantCG bool, overlay map[string][]byte, patterns ...string) (*Prog, error) {
	os.Unsetenv("GOWORK")
	os.Setenv("GOWORK", "off")
	cfg := &packages.Config{
		Mode:    packages.LoadAllSyntax,
		Dir:     dir,
		Tests:   false,
		Overlay: overlay,
		Env:     append(os.Environ(), "GOFLAGS=-mod=mod", "GOPROXY=off", "GOSUMDB=off", "GOTOOLCHAIN=local", "GOWORK=off"),
	}
	pkgs, err := packages.Load(cfg, patterns...)
	if err != nil {
		return nil, err
	}
	p := &Prog{Dir: dir, ModPath: modPath, Pkgs: map[string]*packages.Package{}}
	var errs []string
	p.PkgErrors = map[string][]string{}
	packages.Visit(pkgs, nil, func(pk *packages.Package) {
		for _, e := range pk.Errors {
			if strings.Contains(pk.PkgPath, "/internal/zz") {
				p.PkgErrors[pk.PkgPath] = append(p.PkgErrors[pk.PkgPath], e.Error())
			} else {
				errs = append(errs, e.Error())
			}
		}
		if pk.PkgPath == modPath || strings.HasPrefix(pk.PkgPath, modPath+"/") {
			p.Pkgs[pk.PkgPath] = pk
		}
		p.All = append(p.All, pk)
	})
	if len(errs) > 0 {
		sort.Strings(errs)
		if len(errs) > 8 {
			errs = errs[:8]
		}
		return nil, fmt.Errorf("type/load errors: %s", strings.Join(errs, "; "))
	}
	if len(pkgs) == 0 || len(p.Pkgs) == 0 {
		return nil, fmt.Errorf("no packages loaded from %s", dir)
	}
	p.Fset = pkgs[0].Fset
	prog, _ := ssautil.AllPackages(pkgs, ssa.InstantiateGenerics)
	prog.Build()
	p.SSA = prog
	p.AllFns = ssautil.AllFunctions(prog)
	if wantCG {
		p.CG = vta.CallGraph(p.AllFns, cha.CallGraph(prog))
		p.Reach = map[*ssa.Function]bool{}
		var roots []*ssa.Function
		for _, pk := range prog.AllPackages() {
			if pk.Pkg.Name() == "main" && p.isMod(pk.Pkg.Path()) {
				if f := pk.Func("main"); f != nil {
					roots = append(roots, f)
				}
			}
			if p.isMod(pk.Pkg.Path()) {
				if f := pk.Func("init"); f != nil {
					roots = append(roots, f)
				}
			}
		}
		seen := map[*ssa.Function]bool{}
		var walk func(f *ssa.Function)
		walk = func(f *ssa.Function) {
			if f == nil || seen[f] {
				return
			}
			seen[f] = true
			if n := p.CG.Nodes[f]; n != nil {
				for _, e := range n.Out {
					walk(e.Callee.Func)
				}
			}
			for _, an := range f.AnonFuncs {
				walk(an)
			}
		}
		for _, r := range roots {
			walk(r)
		}
		for f := range seen {
			if f.Pkg != nil && p.isMod(f.Pkg.Pkg.Path()) {
				p.Reach[f] = true
			} else if f.Pkg == nil && f.Origin() != nil && f.Origin().Pkg != nil && p.isMod(f.Origin().Pkg.Pkg.Path()) {
				p.Reach[f] = true
			}
		}
	}
	return p, nil
}

func (p *Prog) isMod(path string) bool {
	return path == p.ModPath || strings.HasPrefix(path, p.ModPath+"/")
}

// IsModFn reports whether f is source code of the module.
func (p *Prog) IsModFn(f *ssa.Function) bool {
	if f == nil {
		return false
	}
	if f.Pkg != nil {
		return p.isMod(f.Pkg.Pkg.Path())
	}
	if f.Parent() != nil {
		return p.IsModFn(f.Parent())
	}
	if o := f.Object(); o != nil && o.Pkg() != nil {
		return p.isMod(o.Pkg().Path())
	}
	return false
}

func (p *Prog) Pkg(rel string) *packages.Package {
	path := p.ModPath
	if rel != "" {
		path += "/" + rel
	}
	return p.Pkgs[path]
}

func (p *Prog) SSAPkg(rel string) *ssa.Package {
	pk := p.Pkg(rel)
	if pk == nil {
		return nil
	}
	return p.SSA.Package(pk.Types)
}

// Func finds a package-level function or, with "T.m" / "*T.m", a method.
func (p *Prog) Func(rel, name string) *ssa.Function {
	sp := p.SSAPkg(rel)
	if sp == nil {
		return nil
	}
	if i := strings.LastIndex(name, "."); i >= 0 {
		tn, mn := strings.TrimPrefix(name[:i], "*"), name[i+1:]
		obj := sp.Pkg.Scope().Lookup(tn)
		if obj == nil {
			return nil
		}
		T := obj.Type()
		for _, t := range []types.Type{T, types.NewPointer(T)} {
			ms := p.SSA.MethodSets.MethodSet(t)
			if sel := ms.Lookup(sp.Pkg, mn); sel != nil {
				f := p.SSA.MethodValue(sel)
				// unwrap synthetic pointer wrappers to the declared method
				if f != nil && f.Synthetic != "" {
					if fo, ok := sel.Obj().(*types.Func); ok {
						if d := p.SSA.FuncValue(fo); d != nil {
							return d
						}
					}
				}
				return f
			}
		}
		return nil
	}
	return sp.Func(name)
}

func (p *Prog) Pos(pos token.Pos) string {
	if !pos.IsValid() {
		return "-"
	}
	ps := p.Fset.Position(pos)
	rel, err := filepath.Rel(p.Dir, ps.Filename)
	if err != nil || strings.HasPrefix(rel, "..") {
		rel = ps.Filename
	}
	return fmt.Sprintf("%s:%d", rel, ps.Line)
}

func (p *Prog) FnPos(f *ssa.Function) string {
	if f == nil {
		return "-"
	}
	return p.Pos(f.Pos())
}

// FnName is a stable, readable key for a function: pkgrel.(Recv).Name
func (p *Prog) FnName(f *ssa.Function) string {
	if f == nil {
		return "<nil>"
	}
	s := f.String()
	s = strings.ReplaceAll(s, p.ModPath+"/", "")
	s = strings.ReplaceAll(s, p.ModPath, "main")
	return s
}

// FuncDecl returns the syntax of a package-level function/method by name.
func (p *Prog) FuncDecl(rel, name string) (*ast.FuncDecl, *packages.Package) {
	pk := p.Pkg(rel)
	if pk == nil {
		return nil, nil
	}
	recv := ""
	if i := strings.LastIndex(name, "."); i >= 0 {
		recv, name = strings.TrimPrefix(name[:i], "*"), name[i+1:]
	}
	for _, f := range pk.Syntax {
		for _, d := range f.Decls {
			fd, ok := d.(*ast.FuncDecl)
			if !ok || fd.Name.Name != name {
				continue
			}
			if recv == "" && fd.Recv == nil {
				return fd, pk
			}
			if recv != "" && fd.Recv != nil && len(fd.Recv.List) == 1 {
				t := fd.Recv.List[0].Type
				if st, ok := t.(*ast.StarExpr); ok {
					t = st.X
				}
				if id, ok := t.(*ast.Ident); ok && id.Name == recv {
					return fd, pk
				}
			}
		}
	}
	return nil, pk
}

// StringConst returns the value of a package-level string constant or of a
// package-level string var initialised with a literal (and never reassigned —
// the caller checks that with NoStoresTo).
func (p *Prog) StringConst(rel, name string) (string, bool) {
	pk := p.Pkg(rel)
	if pk == nil {
		return "", false
	}
	obj := pk.Types.Scope().Lookup(name)
	if obj == nil {
		return "", false
	}
	switch o := obj.(type) {
	case *types.Const:
		return constString(o)
	case *types.Var:
		for _, f := range pk.Syntax {
			for _, d := range f.Decls {
				gd, ok := d.(*ast.GenDecl)
				if !ok {
					continue
				}
				for _, s := range gd.Specs {
					vs, ok := s.(*ast.ValueSpec)
					if !ok {
						continue
					}
					for i, n := range vs.Names {
						if pk.TypesInfo.Defs[n] == o && i < len(vs.Values) {
							if tv, ok := pk.TypesInfo.Types[vs.Values[i]]; ok && tv.Value != nil {
								return constValString(tv)
							}
						}
					}
				}
			}
		}
	}
	return "", false
}
