package main

import (
	"fmt"
	"go/types"
	"strings"
	"text/template/parse"

	"golang.org/x/tools/go/ssa"
)

func init() { register("C09", "other", runC09) }

// executeData: the value handed to (*template.Template).Execute in fn (or in a
// function it calls inside the same package).
func executeData(p *Prog, fn *ssa.Function, depth int) ssa.Value {
	if fn == nil || depth > 2 {
		return nil
	}
	for _, b := range fn.Blocks {
		for _, in := range b.Instrs {
			if call, ok := in.(*ssa.Call); ok {
				if f := call.Call.StaticCallee(); f != nil && f.String() == "(*text/template.Template).Execute" {
					return call.Call.Args[2]
				}
			}
		}
	}
	// the template may be executed by a helper of the same package
	for _, b := range fn.Blocks {
		for _, in := range b.Instrs {
			if call, ok := in.(*ssa.Call); ok {
				if f := call.Call.StaticCallee(); f != nil && f.Pkg == fn.Pkg && f != fn {
					if v := executeData(p, f, depth+1); v != nil {
						return v
					}
				}
			}
		}
	}
	return nil
}

// rootResolver builds the resolver for "." of a template from the Execute data value.
func (a *spliceAnalysis) rootResolver(data ssa.Value) func(path []string, elems bool) []piece {
	var v ssa.Value = data
	if mi, ok := v.(*ssa.MakeInterface); ok {
		v = mi.X
	}
	if c, ok := v.(*ssa.Const); ok && c.Value == nil {
		return func(path []string, elems bool) []piece { return one(clUnknown, "template executed with nil data") }
	}
	t0 := v.Type()
	return func(path []string, elems bool) []piece {
		t := t0
		vals := []ssa.Value{v}
		lastKey := ""
		for _, step := range path {
			if pt, ok := t.Underlying().(*types.Pointer); ok {
				t = pt.Elem()
			}
			switch step {
			case "[]":
				switch u := t.Underlying().(type) {
				case *types.Slice:
					if b, ok := u.Elem().Underlying().(*types.Basic); ok && b.Kind() == types.String {
						var alts [][]piece
						for _, sv := range vals {
							if _, isMake := sv.(*ssa.MakeSlice); isMake && lastKey != "" {
								continue // filled through the field: see elemsOfStores below
							}
							alts = append(alts, a.elemPieces(sv, 0))
						}
						if lastKey != "" {
							if ps := a.elemsWrittenThroughField(lastKey); ps != nil {
								alts = append(alts, ps)
							}
						}
						if len(alts) == 0 {
							return one(clUnknown, "no producer for the string slice")
						}
						return altsOf(alts)
					}
					t = u.Elem()
					vals = nil
				default:
					return one(clUnknown, "range over non-slice "+t.String())
				}
			default:
				st, ok := t.Underlying().(*types.Struct)
				if !ok {
					return one(clUnknown, "field ."+step+" of non-struct "+t.String())
				}
				found := false
				for i := 0; i < st.NumFields(); i++ {
					if st.Field(i).Name() == step {
						key := structKey(t) + "." + step
						lastKey = key
						vals = a.storeIx[key]
						t = st.Field(i).Type()
						found = true
					}
				}
				if !found {
					return one(clUnknown, "data type "+t.String()+" has no field "+step)
				}
			}
		}
		if isInt(t) {
			return one(clDigits, "integer field")
		}
		if b, ok := t.Underlying().(*types.Basic); ok && b.Kind() == types.Bool {
			return one(clDigits, "boolean field")
		}
		if len(vals) == 0 {
			return one(clUnknown, "no producer found for "+strings.Join(path, "."))
		}
		var alts [][]piece
		for _, sv := range vals {
			alts = append(alts, a.pieces(sv, 0))
		}
		return altsOf(alts)
	}
}

func checkSpliceSafety(c *Ctx, p *Prog, rule string) map[string][]spliceFinding {
	a := newSpliceAnalysis(p)
	all := map[string][]spliceFinding{}
	// F2: the lexical part never has imports, so the Imports list of the transition table is empty
	oa := newOrderAnalysis(c, p)
	importsEmpty := false
	if nf := p.Func("internal/lexer/symbols", "NewSymbols"); nf != nil {
		for _, b := range nf.Blocks {
			for _, in := range b.Instrs {
				if r, ok := in.(*ssa.Range); ok {
					if _, isMap := r.X.Type().Underlying().(*types.Map); isMap && oa.mapNeverFilled(r.X) {
						importsEmpty = true
					}
				}
			}
		}
	}
	nActions := 0
	for i := range tmplRegistry {
		spec := &tmplRegistry[i]
		if spec.Dead {
			continue
		}
		text, ok := p.GM.Texts[specKey(spec)]
		if !ok {
			c.Undecided(rule, specKey(spec), "template text not available")
			continue
		}
		st0 := lexState{}
		if !spec.IsTmpl {
			// written verbatim: no insertion points; the instantiated model type-checks (R09.2)
			c.Ob(rule, specKey(spec)+": verbatim", true, "written as is; no insertion point")
			continue
		}
		tree, err := parse.Parse(spec.Const, text, "", "", map[string]any{"printf": fmt.Sprintf})
		if err != nil {
			c.Undecided(rule, specKey(spec), "template does not parse: "+err.Error())
			continue
		}
		fn := p.Func(spec.Pkg, spec.UsedIn)
		data := executeData(p, fn, 0)
		if data == nil {
			c.Undecided(rule, specKey(spec), "no Execute call found in "+spec.UsedIn)
			continue
		}
		w := &tmplWalker{a: a, spec: spec}
		env := &tmplEnv{dot: a.rootResolver(data), vars: map[string]func(path []string, elems bool) []piece{}}
		env.vars["$"] = env.dot
		ends := w.walk(tree[spec.Const].Root, []lexState{st0}, env)
		nActions += w.actions
		for _, pr := range w.problems {
			c.Undecided(rule, specKey(spec), pr)
		}
		for _, end := range ends {
			if end.ctx != cCode && end.ctx != cLine {
				c.Ob(rule, specKey(spec)+": end of file", false, "the template can end inside "+end.String())
			}
		}
		var kept []spliceFinding
		for _, f := range w.findings {
			if importsEmpty && strings.Contains(f.Action, "$imp.") {
				continue // list provably empty: the grammar of grammars has no import production (C11 empty-map rule)
			}
			kept = append(kept, f)
		}
		all[specKey(spec)] = kept
		seen := map[string]bool{}
		for _, f := range kept {
			key := fmt.Sprintf("%s %s in %s", strings.TrimPrefix(f.Template, "internal/"), f.Action, f.Context)
			if seen[key] {
				continue
			}
			seen[key] = true
			c.Ob(rule, key, false, fmt.Sprintf("inserts %s text (%s) inside %s: %s", f.Class, f.Origin, f.Context, f.Why))
		}
		c.Ob(rule, specKey(spec)+": all insertion points", len(kept) == 0, fmt.Sprintf("%d actions walked with their lexical context; %d unsafe insertions", w.actions, len(kept)))
		c.Sample(map[string]any{"rule": rule, "template": specKey(spec), "actions": w.actions, "unsafe": len(kept)})
	}
	if nActions < 40 {
		c.Undecided(rule, "vacuity", fmt.Sprintf("only %d template actions walked (46 confirmed by hand)", nActions))
	}
	c.Note("%s: %d template actions classified by lexical context x string class", rule, nActions)
	return all
}

func runC09(c *Ctx) {
	p := c.RepoProg()
	checkSpliceSafety(c, p, "R09.1")
	gmHealth(c, p, "R09.2")
	checkOutputCompleteness(c, p, "R09.3")
	checkErrorDiscipline(c, p, "R09.4")
	// action text becomes Go only if every $-reference is rewritten, whatever surrounds it
	checkSDTVal(c, p, "R09.5")
	// a recovered panic would turn an aborted generation into status zero
	checkExitCodes(c, p, "R09.6")
	checkPackagePath(c, p, "R09.7")
	checkModuleSearch(c, p, "R09.7")
	checkEmovesTerminates(c, p, "R09.8")
	// every loop and recursion of the generator is of a terminating kind (table in c09term.go); the worklist
	// arguments rest on the step rules: a round is repeated only when something new was added
	checkGeneratorLoops(c, p, "R09.9")
	checkFirstSteps(c, p, "R09.9s")
	checkLR1Steps(c, p, "R09.9s")
	checkItemSetOps(c, p, "R09.9s")
	checkLexSubsetSteps(c, p, "R09.9s")
	checkLexDependents(c, p, "R09.9s")
	c.Assumptions = append(c.Assumptions, "the -p package path is a valid import path; the file header and the action expressions are valid Go (the property's premise)",
		"termination: every loop of the generator is a range loop, a counted loop with an invariant bound, a consuming scanner loop that leaves at end of input, or is listed with its argument (worklists: a round is repeated only after a duplicate-free collection over a finite universe has grown); the finiteness of those universes (items, item sets, FIRST sets) is argued in DESIGN, not checked; the front end's own Parse loop is assumed to terminate",
		"go/format either fails or returns an equivalent program")
	c.Trusted = append(c.Trusted, "text/template/parse (template syntax trees)", "go/ssa", "the lexical-context machine and class table in checker/splice.go")
	c.Explanation = "C09, partial: 'status zero means complete, compilable output' is decided structurally. R09.1: every insertion point of every template is walked with the Go lexical context it lands in (code, string, raw string, comment) and the class of text its producers can put there (numbers, %q-quoted, identifiers, canonical rune renderings, import paths, user Go, arbitrary terminal spellings), the producers being found in the generator's SSA (stores to the data struct fields, constant printf formats expanded verb by verb); a context x class matrix says which insertions can break the token structure. R09.2: the instantiated templates type-check in all debug/zip variants. R09.3: on every path of main that returns normally the token and util generators run, the lexer generator is skipped exactly under -no_lexer, the parser generator exactly without a syntax part, and every generator calls all its writers unconditionally. R09.4: no error of template execution, formatting or file writing is dropped on a path to status zero. R09.6: no recover(), no zero exit code. R09.7: the package path is derived from the output directory. R09.8/R09.9: termination of the generator, loop by loop (see assumptions)."
}

// ---- R09.3 output completeness ------------------------------------------------------------------

// returnPostDominators: post-dominators in the graph restricted to blocks that
// can reach a normal return (panicking blocks never lead to status zero).
func returnPostDominators(fn *ssa.Function) [][]bool {
	n := len(fn.Blocks)
	live := make([]bool, n)
	for changed := true; changed; {
		changed = false
		for _, b := range fn.Blocks {
			if live[b.Index] {
				continue
			}
			if len(b.Instrs) > 0 {
				if _, ok := b.Instrs[len(b.Instrs)-1].(*ssa.Return); ok {
					live[b.Index] = true
					changed = true
					continue
				}
			}
			for _, s := range b.Succs {
				if live[s.Index] {
					live[b.Index] = true
					changed = true
				}
			}
		}
	}
	pd := make([][]bool, n)
	for i, b := range fn.Blocks {
		pd[i] = make([]bool, n)
		_, isRet := b.Instrs[len(b.Instrs)-1].(*ssa.Return)
		if isRet {
			pd[i][i] = true
		} else {
			for j := range pd[i] {
				pd[i][j] = true
			}
		}
	}
	for changed := true; changed; {
		changed = false
		for i := n - 1; i >= 0; i-- {
			b := fn.Blocks[i]
			if _, isRet := b.Instrs[len(b.Instrs)-1].(*ssa.Return); isRet || !live[i] {
				continue
			}
			nw := make([]bool, n)
			for j := range nw {
				nw[j] = true
			}
			any := false
			for _, s := range b.Succs {
				if !live[s.Index] {
					continue
				}
				any = true
				for j := range nw {
					nw[j] = nw[j] && pd[s.Index][j]
				}
			}
			if !any {
				continue
			}
			nw[i] = true
			for j := range nw {
				if nw[j] != pd[i][j] {
					changed = true
				}
			}
			pd[i] = nw
		}
	}
	return pd
}

// guardsOf: the branch conditions on which block b depends, in the
// return-restricted graph.
func guardsOf(fn *ssa.Function, b *ssa.BasicBlock) []*ssa.If {
	pd := returnPostDominators(fn)
	var out []*ssa.If
	for _, br := range fn.Blocks {
		iff, ok := br.Instrs[len(br.Instrs)-1].(*ssa.If)
		if !ok || br == b {
			continue
		}
		for _, s := range br.Succs {
			if pd[s.Index][b.Index] && !pd[br.Index][b.Index] {
				out = append(out, iff)
				break
			}
		}
	}
	return out
}

func describeCond(p *Prog, v ssa.Value) string {
	switch x := v.(type) {
	case *ssa.UnOp:
		return x.Op.String() + describeCond(p, x.X)
	case *ssa.BinOp:
		return describeCond(p, x.X) + " " + x.Op.String() + " " + describeCond(p, x.Y)
	case *ssa.Call:
		if x.Call.IsInvoke() {
			return x.Call.Method.Name() + "()"
		}
		if f := x.Call.StaticCallee(); f != nil {
			return f.Name() + "()"
		}
	case *ssa.Const:
		if x.Value == nil {
			return "nil"
		}
		return x.Value.ExactString()
	case *ssa.Field:
		return "." + x.X.Type().Underlying().(*types.Struct).Field(x.Field).Name()
	case *ssa.FieldAddr:
		return "." + fieldVar(x).Name()
	case *ssa.Extract:
		return describeCond(p, x.Tuple)
	}
	if u, ok := v.(*ssa.UnOp); ok {
		return describeCond(p, u.X)
	}
	return v.Name()
}

func checkOutputCompleteness(c *Ctx, p *Prog, rule string) {
	mainFn := p.Func("", "main")
	if mainFn == nil {
		c.Undecided(rule, "main.main", "function not found")
		return
	}
	if mainTableDecided(p) {
		checkMainTable(c, p, rule, "complete")
		checkGenWriters(c, p, rule)
		return
	}
	want := map[string]string{
		"internal/token/gen.Gen":        "",
		"internal/util/gen.Gen":         "",
		"internal/lexer/gen/golang.Gen": "!NoLexer()",
		"internal/parser/gen.Gen":       ".SyntaxPart != nil",
	}
	found := map[string]bool{}
	for _, call := range generatorCalls(mainFn) {
		f := call.Call.StaticCallee()
		name := strings.TrimPrefix(f.String(), gomod+"/")
		w, ok := want[name]
		if !ok {
			continue
		}
		found[name] = true
		var conds []string
		for _, g := range guardsOf(mainFn, call.Block()) {
			// which way? the call is on the true side iff the true successor leads to it
			pd := returnPostDominators(mainFn)
			onTrue := pd[g.Block().Succs[0].Index][call.Block().Index]
			d := describeCond(p, g.Cond)
			if !onTrue {
				d = "!" + d
			}
			conds = append(conds, d)
		}
		got := strings.Join(conds, " && ")
		got = strings.ReplaceAll(got, "!!", "")
		ok2 := got == w || (w == ".SyntaxPart != nil" && strings.Contains(got, "SyntaxPart") && strings.Contains(got, "!= nil") && len(conds) == 1)
		c.Ob(rule, "main: "+name, ok2, fmt.Sprintf("runs under condition [%s]; required [%s] on every path that returns normally", got, w), p.Pos(call.Pos()))
	}
	for n := range want {
		if !found[n] {
			c.Ob(rule, "main: "+n, false, "generator is never called from main")
		}
	}
	checkGenWriters(c, p, rule)
}

// ---- R09.4 generator error discipline -----------------------------------------------------------------

func returnsNilErrorOnly(f *ssa.Function, idx int) bool {
	if f == nil || f.Blocks == nil {
		return false
	}
	for _, b := range f.Blocks {
		if ret, ok := b.Instrs[len(b.Instrs)-1].(*ssa.Return); ok {
			if idx >= len(ret.Results) {
				return false
			}
			k, isC := ret.Results[idx].(*ssa.Const)
			if !isC || k.Value != nil {
				return false
			}
		}
	}
	return true
}

// errorHandled: the error value reaches a panic, a non-zero exit or a return.
func errorHandled(p *Prog, fn *ssa.Function, v ssa.Value, depth int, seen map[ssa.Value]bool) bool {
	if seen[v] || depth > 6 || v.Referrers() == nil {
		return false
	}
	seen[v] = true
	for _, r := range *v.Referrers() {
		switch x := r.(type) {
		case *ssa.Return:
			return true
		case *ssa.Panic:
			return true
		case *ssa.MakeInterface:
			if errorHandled(p, fn, x, depth+1, seen) {
				return true
			}
		case *ssa.Phi:
			if errorHandled(p, fn, x, depth+1, seen) {
				return true
			}
		case *ssa.Call:
			// handed to a helper of the module that deals with it (tests it and exits, panics or returns it)
			if callee := x.Call.StaticCallee(); callee != nil && p.IsModFn(callee) && callee.Blocks != nil {
				for k, a := range x.Call.Args {
					if a == v && k < len(callee.Params) && errorHandled(p, callee, callee.Params[k], depth+1, seen) {
						return true
					}
				}
			}
		case *ssa.Store:
			// stored into a named result / local: follow loads of the same address
			if al, ok := x.Addr.(*ssa.Alloc); ok {
				for _, rr := range *al.Referrers() {
					if ld, ok := rr.(*ssa.UnOp); ok && ld.Op.String() == "*" {
						if errorHandled(p, fn, ld, depth+1, seen) {
							return true
						}
					}
				}
			}
		case *ssa.BinOp:
			// err != nil -> branch whose region panics, exits non-zero or returns the error
			for _, rr := range *x.Referrers() {
				iff, ok := rr.(*ssa.If)
				if !ok {
					continue
				}
				pd := postDominators(fn)
				b := iff.Block()
				for _, y := range fn.Blocks {
					dep := false
					for _, s := range b.Succs {
						if pd[s.Index][y.Index] && !pd[b.Index][y.Index] {
							dep = true
						}
					}
					if !dep {
						continue
					}
					for _, in := range y.Instrs {
						switch z := in.(type) {
						case *ssa.Panic:
							return true
						case *ssa.Return:
							for _, res := range z.Results {
								if types.Identical(res.Type(), errorType()) {
									if k, isC := res.(*ssa.Const); !isC || k.Value != nil {
										return true
									}
								}
							}
						case *ssa.Call:
							if f := z.Call.StaticCallee(); f != nil {
								if f.String() == "os.Exit" {
									if k, ok := z.Call.Args[0].(*ssa.Const); ok && k.Value != nil && k.Int64() != 0 {
										return true
									}
								}
								if p.IsModFn(f) && alwaysExits(f) {
									return true
								}
							}
							if alwaysExitsValue(p, z.Call.Value) {
								return true
							}
						}
					}
				}
			}
		}
	}
	return false
}

// alwaysExits: every path of f ends in os.Exit(non-zero) (f never returns normally in effect).
func alwaysExits(f *ssa.Function) bool {
	if f == nil || f.Blocks == nil {
		return false
	}
	for _, b := range f.Blocks {
		if _, ok := b.Instrs[len(b.Instrs)-1].(*ssa.Return); !ok {
			continue
		}
		hasExit := false
		// the exit call must dominate the return
		for _, d := range f.Blocks {
			if !d.Dominates(b) {
				continue
			}
			for _, in := range d.Instrs {
				if call, ok := in.(*ssa.Call); ok {
					if g := call.Call.StaticCallee(); g != nil && g.String() == "os.Exit" {
						if k, ok := call.Call.Args[0].(*ssa.Const); ok && k.Value != nil && k.Int64() != 0 {
							hasExit = true
						}
					}
				}
			}
		}
		if !hasExit {
			return false
		}
	}
	return true
}

// alwaysExitsValue: a call through flag.Usage, which main sets to a function that always exits.
func alwaysExitsValue(p *Prog, v ssa.Value) bool {
	u, ok := v.(*ssa.UnOp)
	if !ok {
		return false
	}
	g, ok := u.X.(*ssa.Global)
	if !ok || g.Pkg == nil || g.Pkg.Pkg.Path() != "flag" || g.Name() != "Usage" {
		return false
	}
	mainFn := p.Func("", "main")
	if mainFn == nil {
		return false
	}
	// the store to flag.Usage is in main's entry block and stores a function that always exits
	for _, in := range mainFn.Blocks[0].Instrs {
		if st, ok := in.(*ssa.Store); ok && st.Addr == ssa.Value(g) {
			if f, ok := st.Val.(*ssa.Function); ok && alwaysExits(f) {
				return true
			}
		}
	}
	return false
}

var errorExceptions = map[string]string{
	"(*internal/config.ConfigRecord).getFlags -> defaultPackage": "only a default for the -p flag; the same derivation is repeated (and checked) when -o changes the output directory, and an empty package path is reported by config.New",
	"internal/ast.NewGrammar -> NewLexPart":                      "called with nil production list: the only error path of NewLexPart is a duplicate definition, which needs productions",
}

func checkErrorDiscipline(c *Ctx, p *Prog, rule string) {
	n, nErr := 0, 0
	for _, fn := range sortedFuncs(p.Reach) {
		if fn.Pkg == nil || strings.Contains(fn.String(), "/internal/zz") {
			continue
		}
		path := fn.Pkg.Pkg.Path()
		inScope := strings.Contains(path, "/gen") || strings.HasSuffix(path, "/internal/io") || strings.HasSuffix(path, "/internal/config") || path == gomod || strings.HasSuffix(path, "/util/md") || strings.HasSuffix(path, "/internal/ast")
		if !inScope {
			continue
		}
		for _, b := range fn.Blocks {
			for _, in := range b.Instrs {
				call, ok := in.(*ssa.Call)
				if !ok {
					continue
				}
				n++
				sig, ok := call.Call.Value.Type().Underlying().(*types.Signature)
				if call.Call.IsInvoke() {
					sig = call.Call.Method.Type().(*types.Signature)
					ok = true
				}
				if !ok {
					continue
				}
				res := sig.Results()
				for i := 0; i < res.Len(); i++ {
					if !types.Identical(res.At(i).Type(), errorType()) {
						continue
					}
					callee := call.Call.StaticCallee()
					cname := "dynamic"
					if callee != nil {
						cname = callee.Name()
						full := callee.String()
						// printing into memory buffers / standard streams cannot fail in a way that matters
						if strings.HasPrefix(full, "fmt.Fprint") || strings.HasPrefix(full, "fmt.Print") || strings.HasPrefix(full, "(*strings.Builder).") || strings.HasPrefix(full, "(*bytes.Buffer).") {
							continue
						}
						if p.IsModFn(callee) && returnsNilErrorOnly(callee, i) {
							continue
						}
						if full == "errors.New" || full == "fmt.Errorf" {
							continue // constructs an error value; nothing can fail here
						}
					}
					nErr++
					var ev ssa.Value = call
					if res.Len() > 1 {
						ev = nil
						for _, r := range *call.Referrers() {
							if ex, ok := r.(*ssa.Extract); ok && ex.Index == i {
								ev = ex
							}
						}
					}
					key := p.FnName(fn) + " -> " + cname
					handled := ev != nil && errorHandled(p, fn, ev, 0, map[ssa.Value]bool{})
					if !handled && ev != nil && strings.HasSuffix(path, "/internal/config") && comparedWithNil(ev) {
						// configuration probing: the error selects a fallback (go.mod lookup, GOPATH);
						// config.New's own verdict is what main acts on
						handled = true
					}
					if !handled {
						if why, ok := errorExceptions[key]; ok {
							c.Ob(rule, key+" (named exception)", true, why, p.Pos(call.Pos()))
							continue
						}
					}
					c.Ob(rule, key, handled, "an error returned here must reach a panic, a non-zero exit or a return that does; otherwise gocc can exit 0 with incomplete output", p.Pos(call.Pos()))
				}
			}
		}
	}
	c.Note("%s: %d calls inspected, %d return an error that needs handling", rule, n, nErr)
	if nErr < 15 {
		c.Undecided(rule, "vacuity", fmt.Sprintf("only %d error-returning calls found in generator/io/config/main code", nErr))
	}
}

func comparedWithNil(v ssa.Value) bool {
	if v.Referrers() == nil {
		return false
	}
	for _, r := range *v.Referrers() {
		switch x := r.(type) {
		case *ssa.BinOp:
			if isNilConst(x.X) || isNilConst(x.Y) {
				return true
			}
		case *ssa.Phi:
			if comparedWithNil(x) {
				return true
			}
		}
	}
	return false
}

// ---- R09.7: the import path the generated files use is the one of the directory they are written to ----

func checkPackagePath(c *Ctx, p *Prog, rule string) {
	fn := p.Func("internal/config", "*ConfigRecord.getFlags")
	if fn == nil {
		c.Undecided(rule, "config getFlags", "function not found")
		return
	}
	for _, wd := range []struct {
		name          string
		sameDir, fail bool
		malformed     bool
	}{{"output directory = working directory", true, false, false}, {"output directory elsewhere", false, false, false}, {"output directory elsewhere, no module / GOPATH root found", false, true, false},
		{"output directory whose path is not a well-formed import path", false, false, true}, {"-p value that is not a well-formed import path", true, false, true}} {
		checked := false
		var calls []string
		sm := map[string]Summary{
			"*.Bool": func(r *Run, cc *ssa.CallCommon, args []Val) (Val, error) {
				return VPtr{r.NewObj("flag:"+render(args[0]), false), ""}, nil
			},
			"*.StringVar": func(r *Run, cc *ssa.CallCommon, args []Val) (Val, error) {
				// the flag package writes the default now and the user's value in Parse
				if pv, ok := args[0].(VPtr); ok {
					r.SetCell(pv.Obj.Name, pv.Path, VOpq{"flagvalue(-" + strings.Trim(render(args[1]), `"`) + ")"})
				}
				return VTuple{}, nil
			},
			"*.Parse": func(r *Run, cc *ssa.CallCommon, args []Val) (Val, error) { return VTuple{}, nil },
			"*.Args": func(r *Run, cc *ssa.CallCommon, args []Val) (Val, error) {
				return VSlice{Name: "ARGS", Len: intConst(1)}, nil
			},
			"*.Arg": func(r *Run, cc *ssa.CallCommon, args []Val) (Val, error) { return VOpq{"ARG0"}, nil },
			"*.getOutDir": func(r *Run, cc *ssa.CallCommon, args []Val) (Val, error) {
				return VOpq{"OUTDIR"}, nil
			},
			"*.defaultPackage": func(r *Run, cc *ssa.CallCommon, args []Val) (Val, error) {
				calls = append(calls, "defaultPackage("+render(args[0])+")")
				if wd.fail && render(args[0]) == "OUTDIR" {
					return VTuple{VOpq{"nopkg"}, VIface{Dyn: types.Typ[types.String], V: VOpq{"ERR"}}}, nil
				}
				return VTuple{VOpq{"pkgof(" + render(args[0]) + ")"}, VIface{}}, nil
			},
			"*.CheckImportPath": func(r *Run, cc *ssa.CallCommon, args []Val) (Val, error) {
				checked = true
				if wd.malformed {
					return VIface{Dyn: types.Typ[types.String], V: VOpq{"malformed"}}, nil
				}
				return VIface{}, nil
			},
			"*.Errorf": func(r *Run, cc *ssa.CallCommon, args []Val) (Val, error) {
				return VIface{Dyn: types.Typ[types.String], V: VOpq{"error"}}, nil
			},
			"*.New": func(r *Run, cc *ssa.CallCommon, args []Val) (Val, error) {
				return VIface{Dyn: types.Typ[types.String], V: VOpq{"error"}}, nil
			},
		}
		reg := &Region{Fn: fn, Summaries: sm}
		w := &MapWorld{Strs: map[string]string{"OUTDIR": "/w/out", "this.workingDir": "/w"}, AtomFn: func(k string) (bool, bool) { return false, true }}
		if wd.sameDir {
			w.Strs["OUTDIR"] = "/w"
		}
		out := InterpretSafe(reg, w)
		pkg := out.Stores["this.pkg"]
		var ok bool
		var want string
		switch {
		case wd.malformed:
			want = "an error is returned: no import of <package>/token can resolve"
			ok = out.Term == "return" && checked && len(out.Results) == 1 && out.Results[0] != "nil" && !strings.Contains(out.Results[0], "nil:")
		case wd.sameDir:
			want = "the package stays what -p says (default: the working directory's package)"
			ok = out.Term == "return" && (pkg == "" || pkg == "flagvalue(-p)") // not overwritten
		case wd.fail:
			want = "an error is returned (or the user's -p value is used as it is)"
			ok = out.Term == "return" && len(out.Results) == 1 && ((out.Results[0] != "nil" && !strings.Contains(out.Results[0], "nil:")) || pkg == "" || pkg == "flagvalue(-p)")
		default:
			want = "the package is the import path of the output directory: defaultPackage(outDir)"
			ok = out.Term == "return" && pkg == "pkgof(OUTDIR)"
		}
		stepOb(c, out, rule, "config getFlags: "+wd.name, ok, fmt.Sprintf("%s this.pkg=%q calls=%v %s; required: %s — the generated files import <pkg>/token, <pkg>/errors, ... and are written below the output directory", termOf(out), pkg, calls, out.Undecided, want), p.FnPos(fn))
	}
}

// R09.7b: the module whose path prefixes the import paths is the module the OUTPUT directory belongs to: the
// search for go.mod starts at the directory defaultPackage was asked about, not at the process's directory
// (a directory below the working directory may be a module of its own).
func checkModuleSearch(c *Ctx, p *Prog, rule string) {
	dp := p.Func("internal/config", "defaultPackage")
	cm := p.Func("internal/config", "currentModule")
	if dp == nil || cm == nil {
		c.Undecided(rule, "config: module search", "defaultPackage / currentModule not found")
		return
	}
	passes := false
	for _, b := range dp.Blocks {
		for _, in := range b.Instrs {
			if call, ok := in.(*ssa.Call); ok && call.Call.StaticCallee() == cm {
				for _, a := range call.Call.Args {
					if pa, ok := a.(*ssa.Parameter); ok && pa.Parent() == dp {
						passes = true
					}
				}
			}
		}
	}
	getwd := false
	for _, b := range cm.Blocks {
		for _, in := range b.Instrs {
			if call, ok := in.(*ssa.Call); ok {
				if f := call.Call.StaticCallee(); f != nil && f.String() == "os.Getwd" {
					getwd = true
				}
			}
		}
	}
	startsAtParam := false
	for _, h := range loopHeaders(cm) {
		for _, in := range h.Instrs {
			phi, ok := in.(*ssa.Phi)
			if !ok {
				break
			}
			for k, e := range phi.Edges {
				if !h.Dominates(h.Preds[k]) {
					if pa, ok := e.(*ssa.Parameter); ok && pa.Parent() == cm {
						startsAtParam = true
					}
				}
			}
		}
	}
	c.Ob(rule, "config: go.mod is searched upwards from the directory whose package is wanted", passes && startsAtParam && !getwd,
		fmt.Sprintf("defaultPackage hands its directory to currentModule=%v; the search starts at that parameter=%v; currentModule asks os.Getwd=%v — required true, true, false: with go.mod (module demo) and tools/go.mod (module other), `gocc -o tools/out` must generate imports of other/out/..., not demo/tools/out/...", passes, startsAtParam, getwd), p.FnPos(cm))
}

// checkGenWriters: inside the generators every writer is called, and every writer writes its file.
func checkGenWriters(c *Ctx, p *Prog, rule string) {
	// inside the generators every writer is called unconditionally
	for _, g := range []struct {
		pkg, fn string
		n       int
	}{{"internal/lexer/gen/golang", "Gen", 3}, {"internal/parser/gen", "Gen", 7}, {"internal/token/gen", "Gen", 2}, {"internal/util/gen", "Gen", 2}} {
		fn := p.Func(g.pkg, g.fn)
		if fn == nil {
			c.Undecided(rule, g.pkg+".Gen", "function not found")
			continue
		}
		n, cond := 0, 0
		for _, b := range fn.Blocks {
			for _, in := range b.Instrs {
				if call, ok := in.(*ssa.Call); ok {
					if f := call.Call.StaticCallee(); f != nil && p.IsModFn(f) && strings.Contains(f.Pkg.Pkg.Path(), "/gen") {
						n++
						if len(guardsOf(fn, b)) > 0 {
							cond++
						}
					}
				}
			}
		}
		c.Ob(rule, g.pkg+".Gen calls all its writers", n == g.n && cond == 0, fmt.Sprintf("%d writer calls (%d expected), %d of them conditional", n, g.n, cond), p.FnPos(fn))
	}
	// every writer reaches io.WriteFile unconditionally (panics aside)
	oa := newOrderAnalysis(c, p)
	oa.findWriters()
	nW := 0
	for _, fn := range sortedFuncs(p.Reach) {
		if fn.Pkg == nil || !strings.Contains(fn.Pkg.Pkg.Path(), "/gen/golang") {
			continue
		}
		for _, b := range fn.Blocks {
			for _, in := range b.Instrs {
				call, ok := in.(*ssa.Call)
				if !ok {
					continue
				}
				f := call.Call.StaticCallee()
				if f == nil {
					continue
				}
				if _, isW := oa.writers[f]; !isW {
					continue
				}
				nW++
				gs := guardsOf(fn, b)
				// the zip switch selects between two writers of the same file: allowed
				okG := true
				for _, g := range gs {
					if _, isParam := g.Cond.(*ssa.Parameter); !isParam {
						okG = false
					}
				}
				c.Ob(rule, p.FnName(fn)+" writes its file", okG, fmt.Sprintf("the file write depends on %d conditions other than the zip switch", len(gs)), p.Pos(call.Pos()))
			}
		}
	}
	if nW < 14 {
		c.Undecided(rule, "vacuity", fmt.Sprintf("only %d file writes found in the generator packages (14 confirmed by hand)", nW))
	}
}
