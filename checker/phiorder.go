package main

// Reference names of loop variables. Rules name the loop variables of the code they interpret (the "again" flag,
// the counter "i", ...). A pure renaming must not change what a rule sees, so the names of the loop-carried
// variables of every loop of the module, in the order go/ssa lists them, are recorded from the tree the rules
// were written against (phiorders.json, regenerated with `goccverif -prop PHIORDERS`). When a loop of the
// analysed tree has the same number of loop-carried variables with the same kinds in the same order, a variable
// whose name differs from the recorded one is presented to the rules under the recorded name.

import (
	_ "embed"
	"encoding/json"
	"fmt"
	"os"
	"sort"
	"strings"

	"golang.org/x/tools/go/ssa"
)

//go:embed phiorders.json
var phiOrdersJSON []byte

var phiOrders = func() map[string][]string {
	m := map[string][]string{}
	json.Unmarshal(phiOrdersJSON, &m)
	return m
}()

// a block is identified by its rank among the blocks of the function that have phis (loop headers and merges)
func phiOrderKey(fn *ssa.Function, h *ssa.BasicBlock) string {
	k := 0
	for _, x := range fn.Blocks {
		if x == h {
			break
		}
		if len(headerPhis(x)) > 0 {
			k++
		}
	}
	return relName(fn.String()) + "#" + fmt.Sprint(k)
}

func headerPhis(h *ssa.BasicBlock) []*ssa.Phi {
	var out []*ssa.Phi
	for _, in := range h.Instrs {
		phi, ok := in.(*ssa.Phi)
		if !ok {
			break
		}
		out = append(out, phi)
	}
	return out
}

var phiRenameMemo = map[*ssa.BasicBlock]map[string]string{}

// phiRename: current name -> recorded name, for the loop-carried variables of header h that were renamed.
func phiRename(fn *ssa.Function, h *ssa.BasicBlock) map[string]string {
	if m, ok := phiRenameMemo[h]; ok {
		return m
	}
	out := map[string]string{}
	phiRenameMemo[h] = out
	ref, ok := phiOrders[phiOrderKey(fn, h)]
	phis := headerPhis(h)
	if !ok || len(ref) != len(phis) {
		return out
	}
	cur := map[string]bool{}
	for _, p := range phis {
		cur[p.Comment] = true
	}
	tmp := map[string]string{}
	for i, p := range phis {
		name, kind, _ := strings.Cut(ref[i], ":")
		if kind != kindOfType(p.Type()) {
			return out
		}
		if name != p.Comment {
			if cur[name] {
				return out // the recorded name is in use for another variable: not a pure renaming
			}
			tmp[p.Comment] = name
		}
	}
	for k, v := range tmp {
		out[k] = v
	}
	return out
}

func phiNameFor(fn *ssa.Function, phi *ssa.Phi) string {
	if n, ok := phiRename(fn, phi.Block())[phi.Comment]; ok {
		return n
	}
	return phi.Comment
}

// refParamName: the recorded name of parameter i of fn, when fn has the recorded number of parameters with
// the recorded kinds; otherwise the current name.
func refParamName(fn *ssa.Function, i int) string {
	cur := fn.Params[i].Name()
	ref, ok := phiOrders["params:"+relName(fn.String())]
	if !ok || len(ref) != len(fn.Params) {
		return cur
	}
	names := map[string]bool{}
	for _, p := range fn.Params {
		names[p.Name()] = true
	}
	for k, p := range fn.Params {
		name, kind, _ := strings.Cut(ref[k], ":")
		if kind != kindOfType(p.Type()) {
			return cur
		}
		if name != p.Name() && names[name] {
			return cur // the recorded name now belongs to another parameter
		}
	}
	name, _, _ := strings.Cut(ref[i], ":")
	return name
}

func init() { register("PHIORDERS", "other", runPhiOrders) }

// runPhiOrders writes checker/phiorders.json for the tree under analysis (maintenance command, not a check).
func runPhiOrders(c *Ctx) {
	p := c.RepoProg()
	out := map[string][]string{}
	for fn := range p.AllFns {
		if fn.Blocks == nil || !p.IsModFn(fn) {
			continue
		}
		if len(fn.Params) > 0 {
			var ps []string
			for _, q := range fn.Params {
				ps = append(ps, q.Name()+":"+kindOfType(q.Type()))
			}
			out["params:"+relName(fn.String())] = ps
		}
		for _, h := range fn.Blocks {
			var names []string
			for _, phi := range headerPhis(h) {
				names = append(names, phi.Comment+":"+kindOfType(phi.Type()))
			}
			if len(names) > 0 {
				out[phiOrderKey(fn, h)] = names
			}
		}
	}
	keys := make([]string, 0, len(out))
	for k := range out {
		keys = append(keys, k)
	}
	sort.Strings(keys)
	b, _ := json.MarshalIndent(out, "", " ")
	path := os.Getenv("PHIORDERS_OUT")
	if path == "" {
		path = "/verif/checker/phiorders.json"
	}
	os.WriteFile(path, b, 0o644)
	fmt.Printf("wrote %s: %d loops\n", path, len(keys))
}
