package main

import (
	"fmt"
	"go/token"
	"go/types"
	"sort"
	"strings"

	"golang.org/x/tools/go/ssa"
)

func init() { register("C17", "other", runC17) }

// hasRefs: values of type t can point into memory (so a copy still aliases).
func hasRefs(t types.Type, seen map[types.Type]bool) bool {
	if seen[t] {
		return false
	}
	seen[t] = true
	switch u := t.Underlying().(type) {
	case *types.Pointer, *types.Slice, *types.Map, *types.Chan, *types.Signature, *types.Interface:
		return true
	case *types.Struct:
		for i := 0; i < u.NumFields(); i++ {
			if hasRefs(u.Field(i).Type(), seen) {
				return true
			}
		}
	case *types.Array:
		return hasRefs(u.Elem(), seen)
	case *types.Basic:
		return u.Kind() == types.UnsafePointer
	}
	return false
}

// effectAnalysis finds writes to memory reachable from package-level variables.
type effectAnalysis struct {
	p       *Prog
	fns     []*ssa.Function
	inSet   map[*ssa.Function]bool
	gd      map[ssa.Value]string // value -> the global it derives from (value points into global memory)
	lc      map[ssa.Value]string // address of local memory that holds references into global memory
	retGD   map[*ssa.Function]string
	changed bool
	globals map[string]bool
}

// read-only external functions: receiving a pointer into a global is harmless
var readOnlyExternal = map[string]bool{
	"fmt.Sprintf": true, "fmt.Sprint": true, "fmt.Sprintln": true, "fmt.Printf": true, "fmt.Println": true, "fmt.Print": true, "fmt.Errorf": true,
	"fmt.Fprintf": true, "fmt.Fprint": true, "fmt.Fprintln": true,
	"strings.Join": true, "strconv.Quote": true, "bytes.Equal": true, "unicode/utf8.DecodeRune": true, "strconv.ParseInt": true, "strconv.ParseUint": true, "strconv.ParseFloat": true,
	"bytes.NewBuffer": false,
}

func (e *effectAnalysis) mark(v ssa.Value, g string) {
	if g == "" || v == nil {
		return
	}
	if _, ok := e.gd[v]; !ok {
		e.gd[v] = g
		e.changed = true
	}
}

// markLC marks addr, and the local object it is derived from, as local memory
// holding a reference into global memory.
func (e *effectAnalysis) markLC(addr ssa.Value, g string) {
	if g == "" || addr == nil {
		return
	}
	for {
		if _, ok := e.lc[addr]; !ok {
			e.lc[addr] = g
			e.changed = true
		}
		switch x := addr.(type) {
		case *ssa.FieldAddr:
			addr = x.X
			continue
		case *ssa.IndexAddr:
			addr = x.X
			continue
		}
		return
	}
}

func (e *effectAnalysis) of(v ssa.Value) string {
	if g, ok := v.(*ssa.Global); ok {
		e.globals[g.String()] = true
		return g.String()
	}
	return e.gd[v]
}

func (e *effectAnalysis) propagate() {
	for iter := 0; iter < 100; iter++ {
		e.changed = false
		for _, fn := range e.fns {
			for _, b := range fn.Blocks {
				for _, in := range b.Instrs {
					switch x := in.(type) {
					case *ssa.Store:
						// a reference into global memory parked in local memory
						// (go/ssa spills value receivers and address-taken locals)
						if g := e.of(x.Val); g != "" && e.of(x.Addr) == "" {
							e.markLC(x.Addr, g)
						}
					case *ssa.FieldAddr:
						e.mark(x, e.of(x.X))
						e.markLC(x, e.lc[x.X])
					case *ssa.IndexAddr:
						e.mark(x, e.of(x.X))
						e.markLC(x, e.lc[x.X])
					case *ssa.Field:
						if hasRefs(x.Type(), map[types.Type]bool{}) {
							e.mark(x, e.of(x.X))
						}
					case *ssa.Index:
						if hasRefs(x.Type(), map[types.Type]bool{}) {
							e.mark(x, e.of(x.X))
						}
					case *ssa.Lookup:
						if hasRefs(x.Type(), map[types.Type]bool{}) {
							e.mark(x, e.of(x.X))
						}
					case *ssa.Slice:
						e.mark(x, e.of(x.X))
					case *ssa.UnOp:
						if x.Op == token.MUL && hasRefs(x.Type(), map[types.Type]bool{}) {
							e.mark(x, e.of(x.X))
							e.mark(x, e.lc[x.X])
						}
					case *ssa.Phi:
						for _, ed := range x.Edges {
							e.mark(x, e.of(ed))
						}
					case *ssa.Convert:
						e.mark(x, e.of(x.X))
					case *ssa.ChangeType:
						e.mark(x, e.of(x.X))
					case *ssa.ChangeInterface:
						e.mark(x, e.of(x.X))
					case *ssa.MakeInterface:
						if hasRefs(x.X.Type(), map[types.Type]bool{}) {
							e.mark(x, e.of(x.X))
						}
					case *ssa.TypeAssert:
						e.mark(x, e.of(x.X))
					case *ssa.Extract:
						e.mark(x, e.of(x.Tuple))
					case *ssa.Range:
						e.mark(x, e.of(x.X))
					case *ssa.Next:
						e.mark(x, e.of(x.Iter))
					case *ssa.MakeClosure:
						f := x.Fn.(*ssa.Function)
						for i, bnd := range x.Bindings {
							e.mark(f.FreeVars[i], e.of(bnd))
						}
					case *ssa.Return:
						for _, r := range x.Results {
							if g := e.of(r); g != "" && e.retGD[fn] == "" {
								e.retGD[fn] = g
								e.changed = true
							}
						}
					case *ssa.Call:
						if bi, ok := x.Call.Value.(*ssa.Builtin); ok {
							if bi.Name() == "append" {
								e.mark(x, e.of(x.Call.Args[0]))
							}
							continue
						}
						callees, _ := e.callees(&x.Call)
						for _, callee := range callees {
							actual := x.Call.Args
							if x.Call.IsInvoke() {
								actual = append([]ssa.Value{x.Call.Value}, actual...)
							}
							for i, prm := range callee.Params {
								if i < len(actual) && hasRefs(prm.Type(), map[types.Type]bool{}) {
									e.mark(prm, e.of(actual[i]))
								}
							}
							if g := e.retGD[callee]; g != "" && hasRefs(x.Type(), map[types.Type]bool{}) {
								e.mark(x, g)
							}
						}
					}
				}
			}
		}
		if !e.changed {
			break
		}
	}
}

// callees resolves a call to analysed functions. closed reports that the set
// is complete: a static call into the analysed set, or an interface call whose
// interface has an unexported method, so that only types of the declaring
// package (all analysed) can implement it.
func (e *effectAnalysis) callees(cc *ssa.CallCommon) (out []*ssa.Function, closed bool) {
	if f := cc.StaticCallee(); f != nil {
		if e.inSet[f] {
			return []*ssa.Function{f}, true
		}
		return nil, false
	}
	if !cc.IsInvoke() {
		return nil, false
	}
	iface, ok := cc.Value.Type().Underlying().(*types.Interface)
	if !ok {
		return nil, false
	}
	sealed := false
	for i := 0; i < iface.NumMethods(); i++ {
		if !iface.Method(i).Exported() {
			sealed = true
		}
	}
	if !sealed || cc.Method.Pkg() == nil {
		return nil, false
	}
	sc := cc.Method.Pkg().Scope()
	for _, n := range sc.Names() {
		tn, ok := sc.Lookup(n).(*types.TypeName)
		if !ok || tn.IsAlias() {
			continue
		}
		if _, isI := tn.Type().Underlying().(*types.Interface); isI {
			continue
		}
		for _, T := range []types.Type{tn.Type(), types.NewPointer(tn.Type())} {
			if types.Implements(T, iface) {
				if sel := e.p.SSA.MethodSets.MethodSet(T).Lookup(cc.Method.Pkg(), cc.Method.Name()); sel != nil {
					if f := e.p.SSA.MethodValue(sel); f != nil {
						// unwrap to the declared method when it is in the analysed set
						if fo, ok := sel.Obj().(*types.Func); ok {
							if d := e.p.SSA.FuncValue(fo); d != nil && e.inSet[d] {
								f = d
							}
						}
						if !e.inSet[f] {
							return nil, false
						}
						out = append(out, f)
					}
				}
				break
			}
		}
	}
	return out, len(out) > 0
}

type effViolation struct {
	Fn, Pos, What, Global string
}

func (e *effectAnalysis) violations() (out []effViolation, nStores int) {
	p := e.p
	for _, fn := range e.fns {
		if fn.Name() == "init" || strings.HasPrefix(fn.Name(), "init#") {
			continue
		}
		// anonymous functions created by package-level initialisers run in init
		add := func(in ssa.Instruction, what, g string) {
			out = append(out, effViolation{p.FnName(fn), p.Pos(in.Pos()), what, g})
		}
		for _, b := range fn.Blocks {
			for _, in := range b.Instrs {
				switch x := in.(type) {
				case *ssa.Store:
					nStores++
					if g := e.of(x.Addr); g != "" {
						add(x, "store through "+x.Addr.Name(), g)
					}
				case *ssa.MapUpdate:
					nStores++
					if g := e.of(x.Map); g != "" {
						add(x, "map update", g)
					}
				case *ssa.Call:
					if bi, ok := x.Call.Value.(*ssa.Builtin); ok {
						switch bi.Name() {
						case "append", "copy", "clear", "delete":
							nStores++
							if g := e.of(x.Call.Args[0]); g != "" {
								add(x, bi.Name()+" on memory reachable from a package-level variable", g)
							}
						}
						continue
					}
					if cs, closed := e.callees(&x.Call); closed && len(cs) > 0 {
						continue
					}
					callee := x.Call.StaticCallee()
					name := "dynamic call"
					if x.Call.IsInvoke() {
						name = "dynamic call of " + x.Call.Method.Name() + " on " + x.Call.Value.Type().String()
					}
					if callee != nil {
						name = callee.String()
						if readOnlyExternal[name] {
							continue
						}
					}
					args := x.Call.Args
					if x.Call.IsInvoke() {
						args = append([]ssa.Value{x.Call.Value}, args...)
					}
					for _, arg := range args {
						if g := e.of(arg); g != "" && hasRefs(arg.Type(), map[types.Type]bool{}) {
							// the process's standard streams are meant to be shared: *os.File serialises writes
							if (g == "os.Stderr" || g == "os.Stdout") && callee != nil && strings.HasPrefix(name, "(*os.File).Write") {
								continue
							}
							add(x, "memory reachable from a package-level variable is handed to "+name+", which may write to it", g)
						}
					}
				}
			}
		}
	}
	return
}

func newEffectAnalysis(p *Prog, fns []*ssa.Function) *effectAnalysis {
	e := &effectAnalysis{p: p, fns: fns, inSet: map[*ssa.Function]bool{}, gd: map[ssa.Value]string{}, lc: map[ssa.Value]string{}, retGD: map[*ssa.Function]string{}, globals: map[string]bool{}}
	for _, f := range fns {
		e.inSet[f] = true
	}
	return e
}

// pkgFunctions: all functions with bodies of a package, including methods and
// anonymous functions.
func pkgFunctions(p *Prog, sp *ssa.Package) []*ssa.Function {
	var out []*ssa.Function
	seen := map[*ssa.Function]bool{}
	var add func(f *ssa.Function)
	add = func(f *ssa.Function) {
		if f == nil || seen[f] || f.Blocks == nil {
			return
		}
		seen[f] = true
		out = append(out, f)
		for _, an := range f.AnonFuncs {
			add(an)
		}
	}
	for f := range p.AllFns {
		if f.Pkg == sp || (f.Pkg == nil && f.Parent() != nil && f.Parent().Pkg == sp) {
			if f.Synthetic != "" && f.Name() != "init" {
				continue
			}
			add(f)
		}
	}
	sortFuncs(out)
	return out
}

// mutatedParams: indices of parameters whose pointee a function may write
// (store / append / copy through a value derived from the parameter).
var (
	mutMemo   = map[*ssa.Function]map[int]bool{}
	mutActive = map[*ssa.Function]bool{}
)

func mutatedParams(fn *ssa.Function) map[int]bool {
	if m, ok := mutMemo[fn]; ok {
		return m
	}
	if mutActive[fn] {
		return map[int]bool{} // recursion: decided by the outer call
	}
	mutActive[fn] = true
	m := mutatedParams1(fn)
	delete(mutActive, fn)
	mutMemo[fn] = m
	return m
}

func mutatedParams1(fn *ssa.Function) map[int]bool {
	der := map[ssa.Value]int{}
	for i, prm := range fn.Params {
		der[prm] = i
	}
	for changed := true; changed; {
		changed = false
		for _, b := range fn.Blocks {
			for _, in := range b.Instrs {
				v, ok := in.(ssa.Value)
				if !ok {
					continue
				}
				if _, done := der[v]; done {
					continue
				}
				var src ssa.Value
				switch x := in.(type) {
				case *ssa.Slice:
					src = x.X
				case *ssa.IndexAddr:
					src = x.X
				case *ssa.FieldAddr:
					src = x.X
				case *ssa.Field:
					// a slice-, pointer- or map-valued field of a struct passed by value still points into the
					// caller's memory
					if sharesMemory(x.Type()) {
						src = x.X
					}
				case *ssa.UnOp:
					// a slice, pointer or map loaded through the parameter shares its backing store with it:
					// append(tok.Lit[:n], ...) writes into the token's literal when the capacity allows
					if x.Op == token.MUL && sharesMemory(x.Type()) {
						src = x.X
					}
				case *ssa.Phi:
					for _, e := range x.Edges {
						if _, ok := der[e]; ok {
							src = e
						}
					}
				case *ssa.Call:
					if bi, ok := x.Call.Value.(*ssa.Builtin); ok && bi.Name() == "append" {
						src = x.Call.Args[0]
					}
				}
				if src != nil {
					if i, ok := der[src]; ok {
						der[v] = i
						changed = true
					}
				}
			}
		}
	}
	out := map[int]bool{}
	for _, b := range fn.Blocks {
		for _, in := range b.Instrs {
			switch x := in.(type) {
			case *ssa.Store:
				if i, ok := der[x.Addr]; ok {
					out[i] = true
				}
			case *ssa.Call:
				if bi, ok := x.Call.Value.(*ssa.Builtin); ok && (bi.Name() == "append" || bi.Name() == "copy") {
					if i, ok := der[x.Call.Args[0]]; ok {
						out[i] = true
					}
				}
				// handed on to a function of the program that writes through that parameter
				if callee := x.Call.StaticCallee(); callee != nil && len(callee.Blocks) > 0 && !x.Call.IsInvoke() {
					var cm map[int]bool
					for ai, a := range x.Call.Args {
						if i, ok := der[a]; ok {
							if cm == nil {
								cm = mutatedParams(callee)
							}
							if cm[ai] {
								out[i] = true
							}
						}
					}
				}
			}
		}
	}
	return out
}

func sharesMemory(t types.Type) bool {
	switch t.Underlying().(type) {
	case *types.Slice, *types.Pointer, *types.Map:
		return true
	}
	return false
}

// locallyAllocated: v stems only from make/new/composite literals of fn.
func locallyAllocated(v ssa.Value, seen map[ssa.Value]bool) bool {
	if seen[v] {
		return true
	}
	seen[v] = true
	switch x := v.(type) {
	case *ssa.MakeSlice, *ssa.Alloc, *ssa.MakeMap:
		return true
	case *ssa.Slice:
		return locallyAllocated(x.X, seen)
	case *ssa.Phi:
		for _, e := range x.Edges {
			if !locallyAllocated(e, seen) {
				return false
			}
		}
		return true
	case *ssa.Call:
		if bi, ok := x.Call.Value.(*ssa.Builtin); ok && bi.Name() == "append" {
			return locallyAllocated(x.Call.Args[0], seen)
		}
	}
	return false
}

func runC17(c *Ctx) {
	p := c.RepoProg()
	if !gmHealth(c, p, "R17.0") {
		return
	}
	var fns []*ssa.Function
	nPk := 0
	for _, d := range p.GM.Dirs() {
		sp := p.SSAPkg(gmRoot + "/" + d)
		if sp == nil {
			continue
		}
		nPk++
		fns = append(fns, pkgFunctions(p, sp)...)
		// R17.3 imports
		for _, imp := range sp.Pkg.Imports() {
			bad := imp.Path() == "unsafe" || imp.Path() == "reflect" || imp.Path() == "sync/atomic" || imp.Path() == "sync"
			if bad {
				c.Ob("R17.3", d+" imports "+imp.Path(), false, "generated package imports a package that can bypass the effect analysis or signals shared mutable state")
			}
		}
		c.Ob("R17.3", d+": imports", true, fmt.Sprintf("%d imports, none of unsafe/reflect/sync/sync/atomic", len(sp.Pkg.Imports())))
	}
	// fixtures
	var fix []*ssa.Function
	if sp := p.SSAPkg(fixturePkg); sp != nil {
		for _, f := range pkgFunctions(p, sp) {
			if strings.HasPrefix(f.Name(), "C17") || strings.HasPrefix(f.Name(), "c17") {
				fix = append(fix, f)
			}
		}
	}
	e := newEffectAnalysis(p, append(append([]*ssa.Function{}, fns...), fix...))
	e.propagate()
	viol, nStores := e.violations()
	fixHit := map[string]bool{}
	perFn := map[string][]effViolation{}
	for _, v := range viol {
		short := v.Fn[strings.LastIndex(v.Fn, ".")+1:]
		if strings.Contains(v.Fn, fixturePkg) {
			fixHit[short] = true
			continue
		}
		perFn[v.Fn] = append(perFn[v.Fn], v)
	}
	names := make([]string, 0, len(perFn))
	for n := range perFn {
		names = append(names, n)
	}
	sort.Strings(names)
	for _, n := range names {
		v := perFn[n][0]
		c.Ob("R17.1", strings.TrimPrefix(n, gmRoot+"/")+": "+v.What, false,
			fmt.Sprintf("generated code writes to shared package-level state %s outside init (%d site(s) in this function)", relName(v.Global), len(perFn[n])), v.Pos)
	}
	gl := make([]string, 0, len(e.globals))
	for g := range e.globals {
		if strings.Contains(g, gmRoot) {
			gl = append(gl, strings.TrimPrefix(relName(g), gmRoot+"/"))
		}
	}
	sort.Strings(gl)
	c.Ob("R17.1", "all generated functions", len(perFn) == 0,
		fmt.Sprintf("%d functions of %d generated packages (all debug/zip variants): %d stores/map updates/append/copy sites examined, %d write to memory reachable from a package-level variable outside init", len(fns), nPk, nStores, len(viol)-countFix(viol)))
	c.Sample(map[string]any{"rule": "R17.1", "globals_seen": gl, "functions": len(fns), "write_sites": nStores})
	if len(fns) < 150 || nStores < 100 {
		c.Undecided("R17.1", "vacuity", fmt.Sprintf("only %d functions / %d write sites analysed", len(fns), nStores))
	}
	wantGlobals := []string{"actionTab", "gotoTab", "productionsTable", "TransTab", "ActTab", "TokMap"}
	for _, w := range wantGlobals {
		found := false
		for _, g := range gl {
			if strings.HasSuffix(g, "."+w) {
				found = true
			}
		}
		if !found {
			c.Undecided("R17.1", "table "+w, "expected package-level table not seen by the analysis (renamed? then the rule must be re-anchored)")
		}
	}
	for _, f := range []struct {
		n    string
		want bool
	}{{"C17Lazy", true}, {"c17bump", true}, {"C17ReadOnly", false}, {"C17Sort", true}, {"C17Local", false}} {
		c.Ob("FIX17", f.n, fixHit[f.n] == f.want, fmt.Sprintf("fixture expected flagged=%v got %v", f.want, fixHit[f.n]))
	}

	// R17.2: functions that edit a parameter in place must be given fresh memory
	nCalls := 0
	for _, fn := range fns {
		for _, b := range fn.Blocks {
			for _, in := range b.Instrs {
				call, ok := in.(*ssa.Call)
				if !ok {
					continue
				}
				callee := call.Call.StaticCallee()
				if callee == nil || !e.inSet[callee] || callee.Blocks == nil {
					continue
				}
				mp := mutatedParams(callee)
				for i := range mp {
					if i >= len(call.Call.Args) {
						continue
					}
					if _, isPtrRecv := callee.Params[i].Type().Underlying().(*types.Pointer); isPtrRecv && callee.Signature.Recv() != nil && i == 0 {
						continue // a method updating its own receiver object: instance state
					}
					nCalls++
					arg := call.Call.Args[i]
					ok := locallyAllocated(arg, map[ssa.Value]bool{})
					name := strings.TrimPrefix(p.FnName(fn), gmRoot+"/") + " -> " + callee.Name()
					c.Ob("R17.2", name, ok, fmt.Sprintf("%s edits its argument %d in place; the caller must pass memory it has just allocated (got %s)", callee.Name(), i, arg.Name()), p.Pos(call.Pos()))
				}
			}
		}
	}
	if nCalls < 1 {
		c.Undecided("R17.2", "vacuity", "no call to a parameter-mutating function found (Error -> DescribeExpected expected)")
	}
	// R17.3 closures in tables capture nothing
	nClos := 0
	for _, fn := range fns {
		for _, b := range fn.Blocks {
			for _, in := range b.Instrs {
				if mc, ok := in.(*ssa.MakeClosure); ok {
					nClos++
					if fn.Name() == "init" {
						c.Ob("R17.3", strings.TrimPrefix(p.FnName(fn), gmRoot+"/")+": closure "+mc.Fn.Name(), len(mc.Bindings) == 0, "function values stored in package-level tables must not capture variables", p.Pos(mc.Pos()))
					}
				}
			}
		}
	}
	c.Note("R17.3: %d closures created in generated code", nClos)
	c.Assumptions = append(c.Assumptions, "user-written action code, Context values and Scanner implementations are outside the generated code and outside this property",
		"standard-library functions listed as read-only do not write through their arguments",
		"package initialisation (init, package-level initialisers) happens before any goroutine uses the package (Go memory model)")
	c.Trusted = append(c.Trusted, "go/ssa of the instantiated templates", "the placeholder tables of the generated model have the shape of real tables (checked by R09.2 / C02 rules)")
	c.Explanation = "C17 decided as an effect property of the generated code for all grammars at once: the templates are instantiated with placeholder tables (all debug/zip variants), and for every function of the nine resulting packages the analysis computes which SSA values point into memory reachable from package-level variables (through field/index/slice/load chains, phis, conversions, parameters bound at call sites, returned values, closure captures). No store, map update, append, copy, clear, delete or hand-over to a possibly-writing external function may use such a value outside init. R17.2: functions that edit a parameter in place (DescribeExpected) receive freshly allocated memory. R17.3: no unsafe/reflect/sync imports; table closures capture nothing. Consequently all mutable state is reachable only from the Lexer/Parser/Error objects a goroutine owns. Not decided: behaviour of user action code; data races inside the standard library."
}

func countFix(vs []effViolation) int {
	n := 0
	for _, v := range vs {
		if strings.Contains(v.Fn, fixturePkg) {
			n++
		}
	}
	return n
}
