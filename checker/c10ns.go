package main

// R10.7 (also run by C01, C02, C03, C06, C07): one string names one symbol. The symbol table is keyed by
// spelling and Add ignores a spelling it already has, so a string literal must be refused when it is
// spelled like something else: a reserved symbol (INVALID, the end marker, error, empty) or a production —
// also one that is defined further down. Otherwise the literal silently becomes that other symbol.

import (
	"fmt"
	"go/types"
	"strings"

	"golang.org/x/tools/go/ssa"
)

func checkSymbolNamespace(c *Ctx, p *Prog, rule string) {
	symPkg := "internal/parser/symbols"
	fn := p.Func(symPkg, "NewSymbols")
	if fn == nil {
		c.Undecided(rule, "parser NewSymbols", "function not found")
		return
	}
	// (a) every production is registered before any string literal is compared with the productions
	var updates, checks []*ssa.BasicBlock
	for _, b := range fn.Blocks {
		for _, in := range b.Instrs {
			switch x := in.(type) {
			case *ssa.MapUpdate:
				if ld, ok := x.Map.(*ssa.UnOp); ok {
					if fa, ok := ld.X.(*ssa.FieldAddr); ok && fieldVar(fa).Name() == "ntIdMap" {
						updates = append(updates, b)
					}
				}
			case *ssa.Lookup:
				if ld, ok := x.X.(*ssa.UnOp); ok {
					if fa, ok := ld.X.(*ssa.FieldAddr); ok && fieldVar(fa).Name() == "ntIdMap" {
						// the conflict test is the lookup whose positive outcome leads to a panic
						if leadsToPanic(b) {
							checks = append(checks, b)
						}
					}
				}
			}
		}
	}
	if len(updates) == 0 || len(checks) == 0 {
		c.Undecided(rule, "parser NewSymbols: production names", fmt.Sprintf("found %d registrations of production names and %d conflict tests against them", len(updates), len(checks)), p.FnPos(fn))
	} else {
		late := false
		for _, chk := range checks {
			seen := map[*ssa.BasicBlock]bool{}
			stack := []*ssa.BasicBlock{chk}
			for len(stack) > 0 {
				b := stack[len(stack)-1]
				stack = stack[:len(stack)-1]
				if seen[b] {
					continue
				}
				seen[b] = true
				stack = append(stack, b.Succs...)
			}
			for _, u := range updates {
				if seen[u] {
					late = true
				}
			}
		}
		c.Ob(rule, "parser NewSymbols: a string literal is compared with ALL production names", !late, "a production name can still be registered after a string literal has been tested against the registered names: a literal spelled like a production that is defined further down (S : \"A\" A ; A : ... ;) passes the test and silently becomes that nonterminal, so the terminal gets no number", p.FnPos(fn))
	}
	// (b) reserved spellings
	hs := loopHeaders(fn)
	if len(hs) < 2 {
		c.Undecided(rule, "parser NewSymbols: reserved spellings", "expected a loop over the productions and one over the symbols of a body", p.FnPos(fn))
		return
	}
	inner := hs[len(hs)-1]
	strLitT := pkgType(p, "internal/ast", "SyntaxStringLit")
	tokIdT := pkgType(p, "internal/ast", "SyntaxTokId")
	for _, wd := range []struct {
		spelling string
		literal  bool
		refuse   bool
	}{{"INVALID", true, true}, {"␚", true, true}, {"error", true, true}, {"empty", true, true}, {"plus", true, false}, {"error", false, false}, {"empty", false, false}} {
		var adds []string
		dyn := types.Type(strLitT)
		kind := "string literal"
		if !wd.literal {
			dyn = tokIdT
			kind = "unquoted symbol"
		}
		reg := &Region{Fn: fn, Start: inner, Cuts: cutSet(hs...), PhiInputs: map[string]Val{"rangeindex": VSym{Name: "k"}},
			PreWorld: &MapWorld{IntFn: func(s string) (int64, bool) { return 2, strings.HasPrefix(s, "len(") }, AtomFn: func(k string) (bool, bool) { return false, true },
				Strs: map[string]string{}},
			Summaries: map[string]Summary{
				"*.Add": func(r *Run, cc *ssa.CallCommon, args []Val) (Val, error) {
					adds = append(adds, strings.Join(r.VarargElems(args[1]), ","))
					return VTuple{}, nil
				},
				"invoke:SymbolString": func(r *Run, cc *ssa.CallCommon, args []Val) (Val, error) { return VOpq{"SPELLING"}, nil },
				"*.SymbolString":      func(r *Run, cc *ssa.CallCommon, args []Val) (Val, error) { return VOpq{"SPELLING"}, nil },
				"*.Type":              func(r *Run, cc *ssa.CallCommon, args []Val) (Val, error) { return VSym{Name: "TYPE"}, nil },
				"*.Sprintf":           func(r *Run, cc *ssa.CallCommon, args []Val) (Val, error) { return VOpq{"message"}, nil },
				"builtin:append":      func(r *Run, cc *ssa.CallCommon, args []Val) (Val, error) { return VOpq{"appended"}, nil },
			},
			AtStart:   func(r *Run, fr *frame) { adds = nil },
			LookupVal: func(r *Run, m, k Val, t types.Type) (Val, Val) { return intConst(0), boolConst(false) },
			Lazy: func(o *Obj, path string, t types.Type) Val {
				if strings.HasSuffix(o.Name, ".Symbols") || strings.Contains(path, "Symbols[") {
					return VIface{Dyn: dyn, V: VOpq{"SYM"}}
				}
				return nil
			}}
		out := InterpretSafe(reg, &MapWorld{Ints: map[string]int64{"k": 0}, Strs: map[string]string{"SPELLING": wd.spelling}, IntFn: func(s string) (int64, bool) { return 3, strings.HasPrefix(s, "len(") }})
		name := fmt.Sprintf("parser NewSymbols: %s spelled %s", kind, wd.spelling)
		if wd.refuse {
			stepOb(c, out, rule, name, out.Term == "panic", fmt.Sprintf("%s adds=%v %s; required: refused — the symbol table would merge the literal with the reserved symbol of that spelling (INVALID: the lexer's 'nothing matched' number; the end marker; error: the recovery symbol; empty: the marker of an empty alternative)", termOf(out), adds, out.Undecided), p.FnPos(fn))
		} else {
			stepOb(c, out, rule, name, termOf(out) == "cut" && len(adds) == 1, fmt.Sprintf("%s adds=%v %s; required: entered into the symbol table", termOf(out), adds, out.Undecided), p.FnPos(fn))
		}
	}
	// (c) a production cannot take the name of the invalid token
	{
		reg := &Region{Fn: fn, Start: hs[0], Cuts: cutSet(hs...), PhiInputs: map[string]Val{"rangeindex": VSym{Name: "k"}},
			PreWorld: &MapWorld{IntFn: func(s string) (int64, bool) { return 2, strings.HasPrefix(s, "len(") }, AtomFn: func(k string) (bool, bool) { return false, true }},
			Summaries: map[string]Summary{"*.Add": func(r *Run, cc *ssa.CallCommon, args []Val) (Val, error) { return VTuple{}, nil },
				"builtin:append": func(r *Run, cc *ssa.CallCommon, args []Val) (Val, error) { return VOpq{"appended"}, nil }},
			LookupVal: func(r *Run, m, k Val, t types.Type) (Val, Val) { return intConst(0), boolConst(false) },
			Lazy: func(o *Obj, path string, t types.Type) Val {
				if strings.HasSuffix(path, ".Id") {
					return VOpq{"PRODNAME"}
				}
				return nil
			}}
		out := InterpretSafe(reg, &MapWorld{Ints: map[string]int64{"k": 0}, Strs: map[string]string{"PRODNAME": "INVALID"}, IntFn: func(s string) (int64, bool) { return 3, strings.HasPrefix(s, "len(") }})
		stepOb(c, out, rule, "parser NewSymbols: production named INVALID", out.Term == "panic", fmt.Sprintf("%s %s; required: refused — as a nonterminal INVALID drops out of the terminal list and every token number moves down by one, while the generated token package fixes INVALID = 0 and EOF = 1", termOf(out), out.Undecided), p.FnPos(fn))
	}
}

// leadsToPanic: one of the successors of b (transitively through straight-line blocks) ends in a panic.
func leadsToPanic(b *ssa.BasicBlock) bool {
	for _, s := range b.Succs {
		cur := s
		for i := 0; i < 4 && cur != nil; i++ {
			if len(cur.Instrs) > 0 {
				if _, ok := cur.Instrs[len(cur.Instrs)-1].(*ssa.Panic); ok {
					return true
				}
			}
			if len(cur.Succs) == 1 {
				cur = cur.Succs[0]
			} else {
				cur = nil
			}
		}
	}
	return false
}
