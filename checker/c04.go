package main

import (
	"fmt"
	"go/constant"
	"strings"

	"golang.org/x/tools/go/ssa"
)

func init() { register("C04", "other", runC04) }

const lr1ItemsPkg = "internal/parser/lr1/items"

// firstLoop returns the first loop header of fn in block order.
func firstLoop(fn *ssa.Function) *ssa.BasicBlock {
	hs := loopHeaders(fn)
	if len(hs) == 0 {
		return nil
	}
	return hs[0]
}

func cutSet(bs ...*ssa.BasicBlock) map[*ssa.BasicBlock]bool {
	m := map[*ssa.BasicBlock]bool{}
	for _, b := range bs {
		if b != nil {
			m[b] = true
		}
	}
	return m
}

// checkLR1Fold decides the per-state fold of (*ItemSet).Action (R04.1, R05.3).
func checkLR1Fold(c *Ctx, p *Prog, rule string) {
	fn := p.Func(lr1ItemsPkg, "*ItemSet.Action")
	if fn == nil {
		c.Undecided(rule, "lr1 ItemSet.Action", "function not found")
		return
	}
	hs := loopHeaders(fn)
	if len(hs) < 1 {
		c.Undecided(rule, "lr1 ItemSet.Action", "no loop found")
		return
	}
	head := hs[0]
	type kv struct {
		kind string
		v    int64
	}
	kinds := []string{"Error", "Accept", "Shift", "Reduce"}
	n := 0
	for _, k1 := range kinds {
		for _, k2 := range kinds {
			for _, rel := range []string{"=", "<"} {
				if rel == "<" && !(k1 == k2 && (k1 == "Shift" || k1 == "Reduce")) {
					continue
				}
				a1, a2 := int64(4), int64(4)
				if rel == "<" {
					a2 = 9
				}
				mk := func(kind, name string) Val {
					if kind == "Shift" || kind == "Reduce" {
						return VIface{Dyn: actionType(p, kind), V: VSym{Name: name}}
					}
					return VIface{Dyn: actionType(p, kind), V: VConst{V: constant.MakeBool(true)}}
				}
				act1, act2 := mk(k1, "a1"), mk(k2, "a2")
				reg := &Region{
					Fn:        fn,
					Start:     head,
					Cuts:      cutSet(hs...),
					PhiInputs: map[string]Val{"act1": act1, "rangeindex": VSym{Name: "i"}},
					Inline:    map[string]bool{},
					Summaries: map[string]Summary{
						"*.action": func(r *Run, cc *ssa.CallCommon, args []Val) (Val, error) {
							r.Event("item.action(%s)", render(args[1]))
							return act2, nil
						},
						"*.String": func(r *Run, cc *ssa.CallCommon, args []Val) (Val, error) {
							return VOpq{"String(" + render(args[0]) + ")"}, nil
						},
						"*.ResolveConflict": func(r *Run, cc *ssa.CallCommon, args []Val) (Val, error) {
							r.Event("resolve(%s,%s)", render(args[0]), render(args[1]))
							return VOpq{"resolved"}, nil
						},
					},
				}
				// Equal methods are interpreted in place
				for _, k := range kinds {
					if f := p.Func(actionPkg, k+".Equal"); f != nil {
						reg.Inline[f.String()] = true
					}
				}
				w := &MapWorld{Ints: map[string]int64{"i": 3, "len(this.Items)": 10, "a1": a1, "a2": a2}}
				out := InterpretSafe(reg, w)
				n++
				name := fmt.Sprintf("lr1 ItemSet.Action fold: act1=%s act2=%s %s", k1, k2, rel)
				if out.Term == "undecided" {
					c.Undecided(rule, name, out.Undecided, p.FnPos(fn))
					continue
				}
				// expected row
				same := k1 == k2 && rel == "="
				var wantEvents []string
				wantNext := render(act1)
				switch {
				case k2 == "Error":
				case k1 == "Error":
					wantNext = render(act2)
				case !same:
					wantEvents = []string{
						fmt.Sprintf("mapupdate map#1[String(%s)] = %s", innerRender(act1), render(act1)),
						fmt.Sprintf("mapupdate map#1[String(%s)] = %s", innerRender(act2), render(act2)),
						fmt.Sprintf("resolve(%s,%s)", innerRender(act1), render(act2)),
					}
					wantNext = "resolved"
				}
				var gotEvents []string
				for _, e := range out.Events {
					if !strings.HasPrefix(e, "item.action(") {
						gotEvents = append(gotEvents, e)
					}
				}
				ok := out.Term == "cut:rangeindex.loop" && out.NextPhi["act1"] == wantNext && strings.Join(gotEvents, ";") == strings.Join(wantEvents, ";")
				c.Ob(rule, name, ok, fmt.Sprintf("got term=%s next act1=%s events=%v; required next act1=%s events=%v (error ignored; first non-error taken; different actions both recorded as a conflict and resolved; equal actions left alone)",
					out.Term, out.NextPhi["act1"], gotEvents, wantNext, wantEvents), p.FnPos(fn))
				if n <= 4 {
					c.Sample(map[string]any{"rule": rule, "world": name, "events": gotEvents, "next_act1": out.NextPhi["act1"]})
				}
			}
		}
	}
	// the action passed to item.action is the transition on the same symbol
	c.Note("%s: %d worlds of the fold body in lr1 ItemSet.Action", rule, n)
}

// innerRender renders the receiver value as a method sees it (without the
// interface wrapper).
func innerRender(v Val) string {
	if iv, ok := v.(VIface); ok {
		return render(iv.V)
	}
	return render(v)
}

func runC04(c *Ctx) { runC04Full(c) }

// checkCompCellWriter: the -zip writer of the action table (R04.2 / R12.2b).
func checkCompCellWriter(c *Ctx, p *Prog, rule, ruleConf string) {
	fn := p.Func(parserGenPkg, "GenCompActionTable")
	if fn == nil {
		c.Undecided(rule, "GenCompActionTable", "function not found")
		return
	}
	hs := loopHeaders(fn)
	if len(hs) != 2 {
		c.Undecided(rule, "GenCompActionTable", fmt.Sprintf("expected two nested loops, found %d", len(hs)))
		return
	}
	inner := hs[1]
	codes := map[string]string{"Accept": "0", "Reduce": "1", "Shift": "2"}
	for _, kind := range actionKinds {
		for _, conf := range []bool{false, true} {
			var act Val
			T := actionType(p, kind)
			if kind == "Shift" || kind == "Reduce" {
				act = VIface{Dyn: T, V: VSym{Name: "a"}}
			} else {
				act = VIface{Dyn: T, V: VOpq{"true"}}
			}
			var appended []string
			asked := ""
			reg := &Region{Fn: fn, Start: inner, Cuts: cutSet(hs...),
				PhiInputs: map[string]Val{"rangeindex": VSym{Name: "j"}},
				Summaries: map[string]Summary{
					"*.Action": func(r *Run, cc *ssa.CallCommon, args []Val) (Val, error) {
						asked = render(args[1])
						return VTuple{act, VOpq{"symConflicts"}}, nil
					},
					"*.CanRecover": pureSummary("CanRecover"),
					"*.Size":       func(r *Run, cc *ssa.CallCommon, args []Val) (Val, error) { return VSym{Name: "SIZE"}, nil },
					"*.Set":        pureSummary("Set"),
					"fmt.Sprintf":  SprintfSummary,
					"builtin:append": func(r *Run, cc *ssa.CallCommon, args []Val) (Val, error) {
						appended = append(appended, strings.Join(r.VarargElems(args[1]), ","))
						return VOpq{"APP"}, nil
					},
				},
				PreWorld: &MapWorld{Ints: map[string]int64{"SIZE": 2, "len(tokMap.TypeMap)": 3}},
			}
			nc := int64(0)
			if conf {
				nc = 2
			}
			w := &MapWorld{Ints: map[string]int64{"j": 1, "len(tokMap.TypeMap)": 9, "len(symConflicts)": nc}}
			out := InterpretSafe(reg, w)
			name := fmt.Sprintf("GenCompActionTable cell: action %s, conflicts=%v", kind, conf)
			if out.Term == "undecided" {
				c.Undecided(rule, name, out.Undecided, p.FnPos(fn))
				continue
			}
			want := ""
			switch kind {
			case "Accept":
				want = "0,0,j+1"
			case "Reduce", "Shift":
				want = codes[kind] + ",a,j+1"
			}
			got := strings.Join(appended, ";")
			c.Ob(rule, name, got == want && asked == "tokMap.TypeMap[j+1]", fmt.Sprintf("appended (Action,Amount,Index)=%q for the action of %s; required %q (codes accept 0, reduce 1, shift 2; Amount = the action's number; error cells skipped; Index = the symbol's column)", got, asked, want), p.FnPos(fn))
			var maps []string
			for _, e := range out.Events {
				if strings.HasPrefix(e, "mapupdate ") {
					maps = append(maps, e)
				}
			}
			wantMaps := ""
			if conf {
				wantMaps = "[tokMap.TypeMap[j+1]] = symConflicts"
			}
			gm := strings.Join(maps, ";")
			okc := (wantMaps == "" && gm == "") || (wantMaps != "" && len(maps) == 1 && strings.HasSuffix(gm, wantMaps))
			c.Ob(ruleConf, name, okc, fmt.Sprintf("conflict map updates %v; required suffix %q", maps, wantMaps), p.FnPos(fn))
		}
	}
}

// checkCompRowTail: after the cells of a state, -zip records the state iff it had conflicts.
func checkCompRowTail(c *Ctx, p *Prog, rule string) {
	fn := p.Func(parserGenPkg, "GenCompActionTable")
	if fn == nil {
		return
	}
	hs := loopHeaders(fn)
	if len(hs) != 2 {
		return
	}
	for _, n := range []int64{0, 1, 2} {
		lenName := ""
		reg := &Region{Fn: fn, Start: hs[1], Cuts: cutSet(hs...),
			PhiInputs: map[string]Val{"rangeindex": VSym{Name: "j"}},
			Summaries: map[string]Summary{
				"*.CanRecover": pureSummary("CanRecover"),
				"*.Size":       func(r *Run, cc *ssa.CallCommon, args []Val) (Val, error) { return VSym{Name: "SIZE"}, nil },
				"*.Set":        pureSummary("Set"),
			},
			PreWorld: &MapWorld{Ints: map[string]int64{"SIZE": 2, "len(tokMap.TypeMap)": 3}},
		}
		w := &MapWorld{Ints: map[string]int64{"j": 8, "len(tokMap.TypeMap)": 9}}
		w.AtomFn = func(key string) (bool, bool) { return false, false }
		// the per-state conflict map is a fresh map; its length is the world's choice
		for k := 1; k < 6; k++ {
			w.Ints[fmt.Sprintf("len(map#%d)", k)] = n
		}
		_ = lenName
		out := InterpretSafe(reg, w)
		var maps []string
		for _, e := range out.Events {
			if strings.HasPrefix(e, "mapupdate ") {
				maps = append(maps, e)
			}
		}
		ok := strings.HasPrefix(out.Term, "cut:") && ((n == 0 && len(maps) == 0) || (n > 0 && len(maps) == 1 && strings.Contains(maps[0], "[rangeindex") || n > 0 && len(maps) == 1))
		c.Ob(rule, fmt.Sprintf("GenCompActionTable: state with %d conflicting symbols", n), ok, fmt.Sprintf("term=%s map updates %v %s; required: the state is recorded iff at least one symbol conflicts", out.Term, maps, out.Undecided), p.FnPos(fn))
	}
}

// checkConflictPlumbing: per-state conflicts reach main.handleConflicts.
func checkConflictPlumbing(c *Ctx, p *Prog, rule string) {
	// getActionTableData loop body
	fn := p.Func(parserGenPkg, "getActionTableData")
	if fn == nil {
		c.Undecided(rule, "getActionTableData", "function not found")
	} else {
		hs := loopHeaders(fn)
		if len(hs) != 1 {
			c.Undecided(rule, "getActionTableData", "expected one loop")
		} else {
			for _, conf := range []bool{true, false} {
				reg := &Region{Fn: fn, Start: hs[0], Cuts: cutSet(hs[0]), PhiInputs: map[string]Val{"rangeindex": VSym{Name: "i"}, "row": VOpq{"row0"}, "cnflcts": VOpq{"c0"}},
					Summaries: map[string]Summary{
						"*.getActionRowData": func(r *Run, cc *ssa.CallCommon, args []Val) (Val, error) {
							return VTuple{VOpq{"ROW"}, VOpq{"ROWCONF"}}, nil
						},
						"*.Set":  pureSummary("Set"),
						"*.Size": func(r *Run, cc *ssa.CallCommon, args []Val) (Val, error) { return VSym{Name: "SIZE"}, nil },
					},
					PreWorld: &MapWorld{Ints: map[string]int64{"SIZE": 4}},
				}
				n := int64(0)
				if conf {
					n = 1
				}
				out := InterpretSafe(reg, &MapWorld{Ints: map[string]int64{"i": 1, "SIZE": 4, "len(ROWCONF)": n}})
				var maps []string
				for _, e := range out.Events {
					if strings.HasPrefix(e, "mapupdate ") {
						maps = append(maps, e)
					}
				}
				want := ""
				if conf {
					want = "[i+1] = ROWCONF"
				}
				gm := strings.Join(maps, ";")
				ok := out.Term != "undecided" && ((want == "" && gm == "") || (want != "" && len(maps) == 1 && strings.HasSuffix(gm, want)))
				c.Ob(rule, fmt.Sprintf("getActionTableData: row has conflicts=%v", conf), ok, fmt.Sprintf("map updates %v %s; required: state i+1 is recorded iff its row reported conflicts", maps, out.Undecided), p.FnPos(fn))
			}
		}
	}
	// Gen returns what GenActionTable returned; main hands it to handleConflicts
	gen := p.Func("internal/parser/gen", "Gen")
	if gen == nil {
		c.Undecided(rule, "parser/gen.Gen", "function not found")
	} else {
		reg := &Region{Fn: gen, Summaries: map[string]Summary{"*": nil}}
		reg.Summaries = map[string]Summary{}
		for _, n := range []string{"GenAction", "GenContext", "GenErrors", "GenGotoTable", "GenParser", "GenProductionsTable"} {
			nn := n
			reg.Summaries["*."+n] = func(r *Run, cc *ssa.CallCommon, args []Val) (Val, error) {
				r.Event("%s", nn)
				return VTuple{}, nil
			}
		}
		reg.Summaries["*.GenActionTable"] = func(r *Run, cc *ssa.CallCommon, args []Val) (Val, error) {
			r.Event("GenActionTable")
			return VOpq{"CONFLICTS"}, nil
		}
		reg.Summaries["invoke:Zip"] = func(r *Run, cc *ssa.CallCommon, args []Val) (Val, error) { return VAtom{Key: "zip"}, nil }
		out := InterpretSafe(reg, &MapWorld{})
		c.Ob(rule, "parser/gen.Gen returns the conflicts", out.Term == "return" && len(out.Results) == 1 && out.Results[0] == "CONFLICTS", fmt.Sprintf("term=%s results=%v %s", out.Term, out.Results, out.Undecided), p.FnPos(gen))
	}
	gat := p.Func(parserGenPkg, "GenActionTable")
	if gat != nil {
		for _, zip := range []bool{false, true} {
			reg := &Region{Fn: gat, Summaries: map[string]Summary{
				"*.GenCompActionTable": func(r *Run, cc *ssa.CallCommon, args []Val) (Val, error) { return VOpq{"ZIPCONF"}, nil },
				"*.getActionTableData": func(r *Run, cc *ssa.CallCommon, args []Val) (Val, error) {
					return VTuple{VOpq{"DATA"}, VOpq{"PLAINCONF"}}, nil
				},
				"*.New":       pureSummary("New"),
				"*.Parse":     func(r *Run, cc *ssa.CallCommon, args []Val) (Val, error) { return VTuple{VOpq{"tmpl"}, VIface{}}, nil },
				"*.Execute":   func(r *Run, cc *ssa.CallCommon, args []Val) (Val, error) { return VIface{}, nil },
				"*.WriteFile": func(r *Run, cc *ssa.CallCommon, args []Val) (Val, error) { return VTuple{}, nil },
				"path.Join":   pureSummary("Join"),
				"*.Bytes":     pureSummary("Bytes"),
			}, Params: map[string]Val{"zip": boolConst(zip)}}
			out := InterpretSafe(reg, &MapWorld{})
			want := "PLAINCONF"
			if zip {
				want = "ZIPCONF"
			}
			c.Ob(rule, fmt.Sprintf("GenActionTable(zip=%v) returns its writer's conflicts", zip), out.Term == "return" && len(out.Results) == 1 && out.Results[0] == want, fmt.Sprintf("term=%s results=%v %s", out.Term, out.Results, out.Undecided), p.FnPos(gat))
		}
	}
	// main: the value handed to handleConflicts is Gen's result
	mainFn := p.Func("", "main")
	okFlow := false
	if mainFn != nil {
		for _, b := range mainFn.Blocks {
			for _, in := range b.Instrs {
				if call, ok := in.(*ssa.Call); ok {
					if f := call.Call.StaticCallee(); f != nil && f.Name() == "handleConflicts" {
						if src, ok := call.Call.Args[0].(*ssa.Call); ok {
							if g := src.Call.StaticCallee(); g != nil && g.Name() == "Gen" && strings.HasSuffix(g.Pkg.Pkg.Path(), "parser/gen") {
								okFlow = true
							}
						}
					}
				}
			}
		}
	}
	c.Ob(rule, "main: handleConflicts receives Gen's conflicts", okFlow, "the first argument of handleConflicts is the value returned by parser/gen.Gen")
}

func checkHandleConflicts(c *Ctx, p *Prog, rule string) {
	fn := p.Func("", "handleConflicts")
	if fn == nil {
		c.Undecided(rule, "main.handleConflicts", "function not found")
		return
	}
	for _, n := range []int64{0, 3} {
		for _, auto := range []bool{false, true} {
			for _, verbose := range []bool{false, true} {
				reg := &Region{Fn: fn, Params: map[string]Val{"conflicts": VOpq{"conflicts"}}, Summaries: map[string]Summary{
					"invoke:Verbose":           func(r *Run, cc *ssa.CallCommon, args []Val) (Val, error) { return boolConst(verbose), nil },
					"invoke:AutoResolveLRConf": func(r *Run, cc *ssa.CallCommon, args []Val) (Val, error) { return boolConst(auto), nil },
					"invoke:OutDir":            pureSummary("OutDir"),
					"fmt.Printf": func(r *Run, cc *ssa.CallCommon, args []Val) (Val, error) {
						r.Event("print %s %s", render(args[0]), strings.Join(r.VarargElems(args[1]), ","))
						return VTuple{VSym{Name: "n"}, VConst{}}, nil
					},
					"path.Join":        JoinSummary,
					"*.conflictString": pureSummary("conflictString"),
					"*.WriteFileString": func(r *Run, cc *ssa.CallCommon, args []Val) (Val, error) {
						r.Event("write %s", render(args[0]))
						return VTuple{}, nil
					},
					"os.Exit": func(r *Run, cc *ssa.CallCommon, args []Val) (Val, error) {
						r.Exit(render(args[0]))
						return nil, nil
					},
				}}
				out := InterpretSafe(reg, &MapWorld{Ints: map[string]int64{"len(conflicts)": n}})
				name := fmt.Sprintf("main.handleConflicts: %d conflicts, -a=%v, -v=%v", n, auto, verbose)
				wantTerm := "return"
				var wantEv []string
				if n > 0 {
					wantEv = append(wantEv, `print "%d LR-1 conflicts \n" int(len(conflicts))`)
					if verbose {
						wantEv = append(wantEv, `write Join(OutDir(cfg),"LR1_conflicts.txt")`)
					}
					if !auto {
						wantTerm = "exit:1"
					}
				}
				got := strings.Join(out.Events, "; ")
				ok := out.Term == wantTerm && normalizeSpaces(got) == normalizeSpaces(strings.Join(wantEv, "; "))
				c.Ob(rule, name, ok, fmt.Sprintf("term=%s events=[%s] %s; required term=%s events=%v (silent when there are no conflicts; otherwise announce the count and exit 1 unless -a)", out.Term, got, out.Undecided, wantTerm, wantEv), p.FnPos(fn))
			}
		}
	}
}

func normalizeSpaces(s string) string { return strings.Join(strings.Fields(s), " ") }

// checkExitCodes: every os.Exit in the module has a non-zero constant argument; no recover().
func checkExitCodes(c *Ctx, p *Prog, rule string) {
	n := 0
	for _, fn := range sortedFuncs(p.Reach) {
		if strings.Contains(fn.String(), "/internal/zz") {
			continue
		}
		for _, b := range fn.Blocks {
			for _, in := range b.Instrs {
				call, ok := in.(ssa.CallInstruction)
				if !ok {
					continue
				}
				cc := call.Common()
				if bi, ok := cc.Value.(*ssa.Builtin); ok && bi.Name() == "recover" {
					c.Ob(rule, p.FnName(fn)+": recover", false, "recover() would turn a panic (non-zero exit) into a normal return", p.Pos(in.Pos()))
				}
				if f := cc.StaticCallee(); f != nil && f.String() == "os.Exit" {
					n++
					k, isC := cc.Args[0].(*ssa.Const)
					ok := isC && k.Value != nil && k.Int64() != 0
					c.Ob(rule, fmt.Sprintf("%s: os.Exit#%d", p.FnName(fn), n), ok, "every explicit exit is an error exit: its status must be a non-zero constant (status zero is reached only by returning from main)", p.Pos(in.Pos()))
				}
			}
		}
	}
	if n < 4 {
		c.Undecided(rule, "vacuity", fmt.Sprintf("only %d os.Exit calls found (5 confirmed by hand)", n))
	}
}

func runC04Full(c *Ctx) {
	p := c.RepoProg()
	checkLR1Fold(c, p, "R04.1")
	checkCellWriters(c, p, "R04.2p", "R04.2")
	checkCompCellWriter(c, p, "R04.2z", "R04.2")
	checkCompRowTail(c, p, "R04.2")
	checkConflictPlumbing(c, p, "R04.2")
	checkHandleConflicts(c, p, "R04.3")
	checkExitCodes(c, p, "R04.4")
	checkItemIdentity(c, p, "R04.6")
	checkItemKeyInjective(c, p, "R04.7")
	checkSymbolNamespace(c, p, "R04.8")
	checkFirstSteps(c, p, "R04.5")
	checkLR1Steps(c, p, "R04.5")
	checkItemSetOps(c, p, "R04.5")
	// accept/reduce conflicts are refused in both modes: the resolution panics
	for _, pr := range [][2]string{{"Accept", "Reduce"}, {"Reduce", "Accept"}, {"Accept", "Shift"}, {"Shift", "Accept"}} {
		got, _ := resolveOutcome(p, pr[0], pr[1], 3, 7)
		c.Ob("R04.3", fmt.Sprintf("%s.ResolveConflict(%s) refuses", pr[0], pr[1]), got == "panic", "a conflict involving accept must end in a panic (non-zero exit with and without -a); code yields "+got)
	}
	c.Assumptions = append(c.Assumptions, "the item sets the fold runs over are those of the canonical LR(1) automaton (C02) — NOT decided",
		"a panic that is not recovered ends the process with a non-zero status (no recover() in the module: checked)")
	c.Trusted = append(c.Trusted, "go/ssa", "checker/sx.go")
	c.Explanation = "C04 decided on the reporting chain: (R04.1) the per-state fold records a conflict exactly when two non-error actions differ — the running action is always one of the actions seen, so 'some step saw a different action' is equivalent to 'not all equal'; (R04.2) both table writers (plain and -zip) record a symbol iff Action returned a non-empty conflict list and a state iff its row did, and the map travels unchanged through GenActionTable and Gen to main.handleConflicts; (R04.3) handleConflicts is silent and returns for zero conflicts, otherwise prints the count and exits 1 unless -a; conflicts involving accept panic in ResolveConflict in both modes; (R04.4) every os.Exit argument is a non-zero constant and nothing recovers panics, so status zero is reached only by main returning. NOT decided: correctness of the item sets themselves (C02)."
}
