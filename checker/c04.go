package main

import (
	"fmt"
	"go/constant"
	"strings"

	"golang.org/x/tools/go/ssa"
)

func init() { register("C04", "other", runC04) }

const lr1ItemsPkg = "internal/parser/lr1/items"

// firstLoop returns the first loop header of fn in block order.
func firstLoop(fn *ssa.Function) *ssa.BasicBlock {
	hs := loopHeaders(fn)
	if len(hs) == 0 {
		return nil
	}
	return hs[0]
}

func cutSet(bs ...*ssa.BasicBlock) map[*ssa.BasicBlock]bool {
	m := map[*ssa.BasicBlock]bool{}
	for _, b := range bs {
		if b != nil {
			m[b] = true
		}
	}
	return m
}

// checkLR1Fold decides the per-state fold of (*ItemSet).Action (R04.1, R05.3).
func checkLR1Fold(c *Ctx, p *Prog, rule string) {
	fn := p.Func(lr1ItemsPkg, "*ItemSet.Action")
	if fn == nil {
		c.Undecided(rule, "lr1 ItemSet.Action", "function not found")
		return
	}
	hs := loopHeaders(fn)
	if len(hs) < 1 {
		c.Undecided(rule, "lr1 ItemSet.Action", "no loop found")
		return
	}
	head := hs[0]
	type kv struct {
		kind string
		v    int64
	}
	kinds := []string{"Error", "Accept", "Shift", "Reduce"}
	n := 0
	for _, k1 := range kinds {
		for _, k2 := range kinds {
			for _, rel := range []string{"=", "<"} {
				if rel == "<" && !(k1 == k2 && (k1 == "Shift" || k1 == "Reduce")) {
					continue
				}
				a1, a2 := int64(4), int64(4)
				if rel == "<" {
					a2 = 9
				}
				mk := func(kind, name string) Val {
					if kind == "Shift" || kind == "Reduce" {
						return VIface{Dyn: actionType(p, kind), V: VSym{Name: name}}
					}
					return VIface{Dyn: actionType(p, kind), V: VConst{V: constant.MakeBool(true)}}
				}
				act1, act2 := mk(k1, "a1"), mk(k2, "a2")
				reg := &Region{
					Fn:        fn,
					Start:     head,
					Cuts:      cutSet(hs...),
					PhiInputs: map[string]Val{"act1": act1, "rangeindex": VSym{Name: "i"}},
					Inline:    map[string]bool{},
					Summaries: map[string]Summary{
						"*.action": func(r *Run, cc *ssa.CallCommon, args []Val) (Val, error) {
							r.Event("item.action(%s)", render(args[1]))
							return act2, nil
						},
						"*.String": func(r *Run, cc *ssa.CallCommon, args []Val) (Val, error) {
							return VOpq{"String(" + render(args[0]) + ")"}, nil
						},
						"*.ResolveConflict": func(r *Run, cc *ssa.CallCommon, args []Val) (Val, error) {
							r.Event("resolve(%s,%s)", render(args[0]), render(args[1]))
							return VOpq{"resolved"}, nil
						},
					},
				}
				// Equal methods are interpreted in place
				for _, k := range kinds {
					if f := p.Func(actionPkg, k+".Equal"); f != nil {
						reg.Inline[f.String()] = true
					}
				}
				w := &MapWorld{Ints: map[string]int64{"i": 3, "len(this.Items)": 10, "a1": a1, "a2": a2}}
				out := InterpretSafe(reg, w)
				n++
				name := fmt.Sprintf("lr1 ItemSet.Action fold: act1=%s act2=%s %s", k1, k2, rel)
				if out.Term == "undecided" {
					c.Undecided(rule, name, out.Undecided, p.FnPos(fn))
					continue
				}
				// expected row
				same := k1 == k2 && rel == "="
				var wantEvents []string
				wantNext := render(act1)
				switch {
				case k2 == "Error":
				case k1 == "Error":
					wantNext = render(act2)
				case !same:
					wantEvents = []string{
						fmt.Sprintf("mapupdate map#1[String(%s)] = %s", innerRender(act1), render(act1)),
						fmt.Sprintf("mapupdate map#1[String(%s)] = %s", innerRender(act2), render(act2)),
						fmt.Sprintf("resolve(%s,%s)", innerRender(act1), render(act2)),
					}
					wantNext = "resolved"
				}
				var gotEvents []string
				for _, e := range out.Events {
					if !strings.HasPrefix(e, "item.action(") {
						gotEvents = append(gotEvents, e)
					}
				}
				ok := out.Term == "cut:rangeindex.loop" && out.NextPhi["act1"] == wantNext && strings.Join(gotEvents, ";") == strings.Join(wantEvents, ";")
				c.Ob(rule, name, ok, fmt.Sprintf("got term=%s next act1=%s events=%v; required next act1=%s events=%v (error ignored; first non-error taken; different actions both recorded as a conflict and resolved; equal actions left alone)",
					out.Term, out.NextPhi["act1"], gotEvents, wantNext, wantEvents), p.FnPos(fn))
				if n <= 4 {
					c.Sample(map[string]any{"rule": rule, "world": name, "events": gotEvents, "next_act1": out.NextPhi["act1"]})
				}
			}
		}
	}
	// the action passed to item.action is the transition on the same symbol
	c.Note("%s: %d worlds of the fold body in lr1 ItemSet.Action", rule, n)
}

// innerRender renders the receiver value as a method sees it (without the
// interface wrapper).
func innerRender(v Val) string {
	if iv, ok := v.(VIface); ok {
		return render(iv.V)
	}
	return render(v)
}

func runC04(c *Ctx) {
	p := c.RepoProg()
	checkLR1Fold(c, p, "R04.1")
	c.Explanation = "partial (under construction)"
}
