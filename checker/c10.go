package main

import (
	"fmt"
	"go/token"
	"go/types"
	"strings"

	"golang.org/x/tools/go/ssa"
)

func init() { register("C10", "other", runC10) }

func runC10(c *Ctx) {
	p := c.RepoProg()
	if !gmHealth(c, p, "R10.0") {
		return
	}
	// ---- R10.1 generated constants ----
	if tk := p.Pkg(gmRoot + "/token"); tk != nil {
		for _, kv := range []struct {
			n string
			v string
		}{{"INVALID", "0"}, {"EOF", "1"}} {
			o, _ := tk.Types.Scope().Lookup(kv.n).(*types.Const)
			c.Ob("R10.1", "generated token."+kv.n, o != nil && o.Val().ExactString() == kv.v, "must be "+kv.v)
		}
	}
	checkSymbolNamespace(c, p, "R10.7")
	// ---- R10.2 the terminal list starts INVALID, end marker; Add appends unseen ids only ----
	symPkg := "internal/parser/symbols"
	if ns := p.Func(symPkg, "NewSymbols"); ns != nil {
		var evs []string
		reg := &Region{Fn: ns, Cuts: cutSet(loopHeaders(ns)...), Summaries: map[string]Summary{
			"*.Add": func(r *Run, cc *ssa.CallCommon, args []Val) (Val, error) {
				evs = append(evs, "Add("+strings.Join(r.VarargElems(args[1]), ",")+")")
				return VTuple{}, nil
			},
		}}
		out := InterpretSafe(reg, &MapWorld{AtomFn: func(k string) (bool, bool) { return false, strings.Contains(k, "SyntaxPart") }})
		ok := out.Term != "undecided" && len(evs) >= 2 && evs[0] == `Add("INVALID")` && evs[1] == `Add("␚")`
		c.Ob("R10.2", "NewSymbols registers INVALID and the end marker first", ok, fmt.Sprintf("first registrations %v %s; required Add(\"INVALID\"), Add(\"␚\") before any grammar symbol", evs, out.Undecided), p.FnPos(ns))
	} else {
		c.Undecided("R10.2", "NewSymbols", "function not found")
	}
	if add := p.Func(symPkg, "*Symbols.Add"); add != nil {
		hs := loopHeaders(add)
		if len(hs) == 1 {
			for _, seen := range []bool{true, false} {
				var apps []string
				reg := &Region{Fn: add, Start: hs[0], Cuts: cutSet(hs[0]), PhiInputs: map[string]Val{"rangeindex": VSym{Name: "i"}},
					LookupVal: func(r *Run, m, k Val, t types.Type) (Val, Val) { return VSym{Name: "old"}, boolConst(seen) },
					Summaries: map[string]Summary{"builtin:append": func(r *Run, cc *ssa.CallCommon, args []Val) (Val, error) {
						apps = append(apps, render(args[0])+" ++ "+strings.Join(r.VarargElems(args[1]), ","))
						return VSlice{Name: "APP", Len: VSym{Name: "NEWLEN"}}, nil
					}}}
				out := InterpretSafe(reg, &MapWorld{Ints: map[string]int64{"i": 0, "len(symbols)": 3}})
				var maps []string
				for _, e := range out.Events {
					if strings.HasPrefix(e, "mapupdate ") {
						maps = append(maps, e)
					}
				}
				var ok bool
				if seen {
					ok = strings.HasPrefix(out.Term, "cut:") && len(apps) == 0 && len(maps) == 0 && len(out.Stores) == 0
				} else {
					ok = strings.HasPrefix(out.Term, "cut:") && len(apps) == 1 && apps[0] == "this.typeMap ++ symbols[i+1]" && len(maps) == 1 && strings.HasSuffix(maps[0], "[symbols[i+1]] = NEWLEN-1") && out.Stores["this.typeMap"] == "APP"
				}
				c.Ob("R10.2", fmt.Sprintf("Symbols.Add: symbol already known=%v", seen), ok, fmt.Sprintf("appends %v map updates %v stores %v %s; required: an unseen symbol is appended and numbered len-1, a known one changes nothing (numbers are distinct, consecutive and never reassigned)", apps, maps, out.Stores, out.Undecided), p.FnPos(add))
			}
		}
	}
	if lt := p.Func(symPkg, "*Symbols.ListTerminals"); lt != nil {
		hs := loopHeaders(lt)
		if len(hs) == 1 {
			for _, term := range []bool{true, false} {
				var apps []string
				reg := &Region{Fn: lt, Start: hs[0], Cuts: cutSet(hs[0]), PhiInputs: map[string]Val{"rangeindex": VSym{Name: "i"}, "terminals": VOpq{"TERMS"}},
					Summaries: map[string]Summary{
						"*.IsTerminal": func(r *Run, cc *ssa.CallCommon, args []Val) (Val, error) { return boolConst(term), nil },
						"builtin:append": func(r *Run, cc *ssa.CallCommon, args []Val) (Val, error) {
							apps = append(apps, render(args[0])+" ++ "+strings.Join(r.VarargElems(args[1]), ","))
							return VOpq{"APP"}, nil
						}}}
				out := InterpretSafe(reg, &MapWorld{Ints: map[string]int64{"i": 0, "len(this.typeMap)": 3}})
				want := "TERMS"
				if term {
					want = "APP"
				}
				ok := strings.HasPrefix(out.Term, "cut:") && out.NextPhi["terminals"] == want && (!term || (len(apps) == 1 && apps[0] == "TERMS ++ this.typeMap[i+1]"))
				c.Ob("R10.2", fmt.Sprintf("ListTerminals: symbol is a terminal=%v", term), ok, fmt.Sprintf("appends %v next=%v %s; required: terminals are collected in the order of the symbol list", apps, out.NextPhi, out.Undecided), p.FnPos(lt))
			}
		}
	}
	if nt := p.Func("internal/token", "NewTokenMap"); nt != nil {
		hs := loopHeaders(nt)
		if len(hs) == 1 {
			reg := &Region{Fn: nt, Start: hs[0], Cuts: cutSet(hs[0]), PhiInputs: map[string]Val{"rangeindex": VSym{Name: "i"}}}
			out := InterpretSafe(reg, &MapWorld{Ints: map[string]int64{"i": 0, "len(symbols)": 3}})
			var maps, stores []string
			for _, e := range out.Events {
				if strings.HasPrefix(e, "mapupdate ") {
					maps = append(maps, e)
				}
				if strings.HasPrefix(e, "store ") {
					stores = append(stores, e)
				}
			}
			ok := strings.HasPrefix(out.Term, "cut:") && len(maps) == 1 && strings.HasSuffix(maps[0], "[symbols[i+1]] = i+1") && len(stores) == 1 && strings.HasSuffix(stores[0], "[i+1] = symbols[i+1]")
			c.Ob("R10.2", "NewTokenMap: IdMap and TypeMap are filled together", ok, fmt.Sprintf("map updates %v stores %v %s; required IdMap[sym] = i and TypeMap[i] = sym for the same i", maps, stores, out.Undecided), p.FnPos(nt))
		}
	}
	// ---- R10.3 one token map for all generators ----
	mainFn := p.Func("", "main")
	if mainTableDecided(p) {
		checkMainTable(c, p, "R10.3", "tokenmap")
	} else if mainFn != nil {
		var ntm *ssa.Call
		var listT, addIds *ssa.Call
		uses := map[string]ssa.Value{}
		for _, b := range mainFn.Blocks {
			for _, in := range b.Instrs {
				call, ok := in.(*ssa.Call)
				if !ok {
					continue
				}
				f := call.Call.StaticCallee()
				if f == nil {
					continue
				}
				switch {
				case f.Name() == "NewTokenMap":
					ntm = call
				case f.Name() == "ListTerminals":
					listT = call
				case f.Name() == "Add" && strings.HasSuffix(f.Pkg.Pkg.Path(), "parser/symbols"):
					addIds = call
				case f.Pkg != nil && strings.Contains(f.Pkg.Pkg.Path(), "/gen") && f.Name() == "Gen":
					for i, prm := range f.Params {
						if isNamed(prm.Type(), gomod+"/internal/token", "TokenMap") {
							uses[f.Pkg.Pkg.Path()] = call.Call.Args[i]
						}
					}
				}
			}
		}
		okSame := ntm != nil && len(uses) == 3
		for _, v := range uses {
			if v != ssa.Value(ntm) {
				okSame = false
			}
		}
		c.Ob("R10.3", "main: one TokenMap value reaches the lexer, parser and token generators", okSame, fmt.Sprintf("%d generators take a TokenMap; all must receive the value returned by the single NewTokenMap call", len(uses)))
		okOrder := ntm != nil && listT != nil && addIds != nil && instrDominates(addIds, listT) && ntm.Call.Args[0] == ssa.Value(listT)
		c.Ob("R10.3", "main: token ids are registered before the terminals are listed", okOrder, "gSymbols.Add(TokenIds...) must dominate ListTerminals(), whose result is what NewTokenMap numbers")
	}
	// ---- R10.4 consumers index consistently (shared rules) ----
	checkActTabWriter(c, p, "R10.4a")
	checkCellWriters(c, p, "R10.4b", "R10.4b'")
	for _, d := range gmLexerDirs[:1] {
		checkScanTable(c, p, d, "R10.4c")
	}
	checkLRDriver(c, p, "R10.4d", gmRoot+"/parser_plain", "*Parser.Parse", false)
	var idMapBuilder *ssa.Function
	// the list behind Id() is the very list the lexer and parser columns were numbered by: the data handed to the
	// template has TypMap = tokMap.TypeMap itself (not a re-spelled copy) and IdMap = typeMap(tokMap)
	if gt := p.Func("internal/token/gen/golang", "GenToken"); gt != nil {
		data := executeData(p, gt, 0)
		if in, ok := data.(ssa.Instruction); ok && in.Parent() != nil {
			gt = in.Parent() // the helper that executes the template, if GenToken leaves it to one
		}
		if mi, ok := data.(*ssa.MakeInterface); ok {
			data = mi.X
		}
		var cell ssa.Value
		if u, ok := data.(*ssa.UnOp); ok && u.Op == token.MUL {
			cell = u.X
		}
		fields := map[string]ssa.Value{}
		if cell != nil {
			for _, ref := range *cell.Referrers() {
				fa, ok := ref.(*ssa.FieldAddr)
				if !ok {
					continue
				}
				for _, r2 := range *fa.Referrers() {
					if st, ok := r2.(*ssa.Store); ok && st.Addr == ssa.Value(fa) {
						fields[fieldVar(fa).Name()] = st.Val
					}
				}
			}
		}
		var describe func(v ssa.Value) string
		describe = func(v ssa.Value) string {
			switch x := v.(type) {
			case nil:
				return "(not set)"
			case *ssa.Slice:
				if x.Low == nil && x.High == nil && x.Max == nil {
					return describe(x.X)
				}
			case *ssa.UnOp:
				if fa, ok := x.X.(*ssa.FieldAddr); ok && x.Op == token.MUL {
					if prm, ok := fa.X.(*ssa.Parameter); ok {
						return "param#" + fmt.Sprint(paramIndex(gt, prm)) + "." + fieldVar(fa).Name()
					}
				}
			case *ssa.Call:
				// an element-for-element copy of the list is the list: append(<empty>, list...)
				if bi, ok := x.Call.Value.(*ssa.Builtin); ok && bi.Name() == "append" && len(x.Call.Args) == 2 {
					empty := false
					switch b := x.Call.Args[0].(type) {
					case *ssa.Const:
						empty = b.Value == nil
					case *ssa.MakeSlice:
						if l, ok := b.Len.(*ssa.Const); ok && l.Value != nil && l.Value.ExactString() == "0" {
							empty = true
						}
					case *ssa.Slice:
						if a, ok := b.X.(*ssa.Alloc); ok {
							if arr, ok := a.Type().Underlying().(*types.Pointer).Elem().Underlying().(*types.Array); ok && arr.Len() == 0 {
								empty = true
							}
						}
					}
					if empty {
						return describe(x.Call.Args[1])
					}
				}
				if f := x.Call.StaticCallee(); f != nil {
					as := []string{}
					for _, a := range x.Call.Args {
						if prm, ok := a.(*ssa.Parameter); ok {
							as = append(as, "param#"+fmt.Sprint(paramIndex(gt, prm)))
						} else {
							as = append(as, "?")
						}
					}
					return f.Name() + "(" + strings.Join(as, ",") + ")"
				}
			}
			return v.Name() + " = " + v.String()
		}
		ti := -1
		for i, prm := range gt.Params {
			if strings.HasSuffix(prm.Type().String(), "token.TokenMap") {
				ti = i
			}
		}
		// the function that builds the idMap entries, whatever it is called
		builder := "typeMap"
		if call, ok := fields["IdMap"].(*ssa.Call); ok {
			if f := call.Call.StaticCallee(); f != nil && f.Pkg == gt.Pkg {
				idMapBuilder = f
				builder = f.Name()
			}
		}
		gotT, gotI := describe(fields["TypMap"]), describe(fields["IdMap"])
		wantT, wantI := fmt.Sprintf("param#%d.TypeMap", ti), fmt.Sprintf("%s(param#%d)", builder, ti)
		c.Ob("R10.5", "GenToken: the template is given the token map's own lists", ti >= 0 && gotT == wantT && gotI == wantI,
			fmt.Sprintf("TypMap = %s, IdMap = %s; required TypMap = %s (the list whose indices are the lexer's and the parser's token numbers, spelled as the symbol table spells them) and IdMap = the entries built from the same token map (%s)", gotT, gotI, wantT, wantI), p.FnPos(gt))
	} else {
		c.Undecided("R10.5", "GenToken", "function not found")
	}
	// ---- R10.5 the two generated lookups are rendered from the same string the same way ----
	if tm := idMapBuilder; tm != nil {
		hs := loopHeaders(tm)
		if len(hs) == 1 {
			reg := &Region{Fn: tm, Start: hs[0], Cuts: cutSet(hs[0]), PhiInputs: map[string]Val{"rangeindex": VSym{Name: "i"}},
				Summaries: map[string]Summary{"fmt.Sprintf": SprintfSummary}}
			out := InterpretSafe(reg, &MapWorld{Ints: map[string]int64{"i": 0, "len(tokMap.TypeMap)": 3}})
			got := ""
			for k, v := range out.Stores {
				if strings.HasSuffix(k, "[i+1]") {
					got = v
				}
			}
			ok := got == `Sprintf("%q: %d"|string(tokMap.TypeMap[i+1])|int(i+1))` || got == `Sprintf("%q: %d"|tokMap.TypeMap[i+1]|i+1)`
			c.Ob("R10.5", "idMap entry i is the %q of typeMap entry i with number i", ok, fmt.Sprintf("entry = %s %s; the typeMap list prints each name with %%q, so the key must be %%q of the same name and the value its index — then Id and Type are mutually inverse (witness for the old \"%%s\": terminal \"\\\"\" gave Type(Id(t)) = INVALID)", got, out.Undecided), p.FnPos(tm))
		}
	}
	if idMapBuilder == nil {
		c.Undecided("R10.5", "idMap builder", "the IdMap handed to the token template is not the result of a function of the package: the entries cannot be followed")
	}
	// the template prints TypMap with %q and IdMap entries verbatim: covered by the splice analysis
	fnd := checkSpliceSafety(c, p, "R10.5s")
	_ = fnd
	// ---- R10.6 generated lookups ----
	tokPkg := gmRoot + "/token"
	if ty := p.Func(tokPkg, "TokenMap.Type"); ty != nil {
		for _, has := range []bool{true, false} {
			reg := &Region{Fn: ty, LookupVal: func(r *Run, m, k Val, t types.Type) (Val, Val) { return VSym{Name: "NUM"}, boolConst(has) },
				Params: map[string]Val{"m": VStruct{Fields: map[string]Val{"typeMap": VOpq{"TYPEMAP"}, "idMap": VOpq{"IDMAP"}}}}}
			out := InterpretSafe(reg, &MapWorld{})
			want := "0"
			if has {
				want = "NUM"
			}
			c.Ob("R10.6", fmt.Sprintf("generated TokenMap.Type: name known=%v", has), out.Term == "return" && len(out.Results) == 1 && out.Results[0] == want, fmt.Sprintf("result %v %s; required %s (unknown names map to INVALID = 0)", out.Results, out.Undecided, want), p.FnPos(ty))
		}
	}
	if id := p.Func(tokPkg, "TokenMap.Id"); id != nil {
		for _, in := range []bool{true, false} {
			reg := &Region{Fn: id, Params: map[string]Val{"tok": VSym{Name: "T"}, "m": VStruct{Fields: map[string]Val{"typeMap": VOpq{"TYPEMAP"}, "idMap": VOpq{"IDMAP"}}}}}
			n := int64(5)
			if !in {
				n = 2
			}
			out := InterpretSafe(reg, &MapWorld{Ints: map[string]int64{"T": 3, "len(TYPEMAP)": n}})
			want := `"unknown"`
			if in {
				want = "TYPEMAP[T]"
			}
			c.Ob("R10.6", fmt.Sprintf("generated TokenMap.Id: number in range=%v", in), out.Term == "return" && len(out.Results) == 1 && out.Results[0] == want, fmt.Sprintf("result %v %s; required %s", out.Results, out.Undecided, want), p.FnPos(id))
		}
	}
	c.Assumptions = append(c.Assumptions, "distinctness of map keys and %q being injective (strconv.Quote) make the printed idMap the inverse of the printed typeMap")
	c.Trusted = append(c.Trusted, "go/ssa", "checker/sx.go", "checker/splice.go")
	c.Explanation = "C10 decided structurally: (R10.1) INVALID = 0 and EOF = 1 in the generated package; (R10.2) the symbol table registers INVALID and the end marker first, Add appends only unseen ids and numbers them len-1, terminals are listed in that order and NewTokenMap fills IdMap[sym] = i and TypeMap[i] = sym together, so the numbering is a bijection with consecutive numbers; (R10.3) main registers the token ids before listing terminals and hands the one TokenMap value to the lexer, parser and token generators; (R10.4) the lexer's Accept is IdMap[id], the parser's columns are the indices of TypeMap, Scan stores Accept into tok.Type and Parse indexes the row by the look-ahead's Type; (R10.5) idMap entry i is %q of typeMap entry i with value i, so the generated lookups are mutually inverse for every spelling; (R10.6) the generated Type returns INVALID for unknown names and Id the i-th name."
}
