package main

import (
	"flag"
	"fmt"
	"os"
	"runtime/debug"
	"sort"
	"strconv"
	"strings"
)

type propDef struct {
	level string
	run   func(c *Ctx)
}

var props = map[string]propDef{}

func register(id, level string, run func(c *Ctx)) {
	props[id] = propDef{level, run}
}

// goEnv makes the sandbox's go1.26.8 toolchain the one go/packages drives.
func goEnv() {
	const tc = "/opt/veriftools/go1.26.8/bin"
	if _, err := os.Stat(tc); err == nil {
		os.Setenv("PATH", tc+":"+os.Getenv("PATH"))
	}
	os.Setenv("GOFLAGS", "-mod=mod")
	os.Setenv("GOPROXY", "off")
	os.Setenv("GOSUMDB", "off")
	os.Setenv("GOTOOLCHAIN", "local")
	os.Setenv("GOWORK", "off")
}

func main() {
	goEnv()
	prop := flag.String("prop", "", "property id (C01..C20)")
	tier := flag.String("tier", "quick", "quick|thorough")
	repo := flag.String("repo", "/repo", "repository root")
	out := flag.String("out", "/verif/evidence", "evidence dir")
	list := flag.Bool("list", false, "list implemented properties")
	flag.Parse()
	if *list {
		ids := []string{}
		for id := range props {
			ids = append(ids, id)
		}
		sort.Strings(ids)
		fmt.Println(strings.Join(ids, " "))
		return
	}
	def, ok := props[*prop]
	if !ok {
		fmt.Fprintf(os.Stderr, "unknown property %q\n", *prop)
		os.Exit(2)
	}
	if t := os.Getenv("VERIF_TIER"); t == "quick" || t == "thorough" {
		*tier = t
	}
	seed := int64(0)
	if s := os.Getenv("VERIF_SEED"); s != "" {
		if n, err := strconv.ParseInt(s, 10, 64); err == nil {
			seed = n
		}
	}
	c := NewCtx(*prop, *tier, *repo, *out, seed)
	c.Level = def.level
	func() {
		defer func() {
			if r := recover(); r != nil {
				c.Undecided("PANIC", "checker", fmt.Sprintf("checker panic: %v\n%s", r, debug.Stack()))
			}
		}()
		def.run(c)
		if c.Tier == "thorough" && os.Getenv("VERIF_NO_SELFVAL") == "" {
			selfValidate(c)
		}
	}()
	os.Exit(c.Finish())
}
