package main

// Step rules for the two worklist algorithms behind the parser tables (FIRST sets
// and the canonical LR(1) collection). They decide that every *step* is the
// textbook step; they do not decide that the iteration reaches the fixed point or
// terminates. Added after three independently seeded changes (C02, C04, C06) broke
// exactly these steps.

import (
	"fmt"
	"go/types"
	"strings"

	"golang.org/x/tools/go/ssa"
)

const firstPkg = "internal/parser/first"

func evs(out *Outcome, prefix ...string) string {
	var keep []string
	for _, e := range out.Events {
		if len(prefix) == 0 {
			keep = append(keep, e)
			continue
		}
		for _, p := range prefix {
			if strings.HasPrefix(e, p) {
				keep = append(keep, e)
			}
		}
	}
	return strings.Join(keep, "; ")
}

func eventSummary(name string, ret func(args []Val) Val) Summary {
	return func(r *Run, cc *ssa.CallCommon, args []Val) (Val, error) {
		parts := make([]string, len(args))
		for i, a := range args {
			parts[i] = render(a)
		}
		r.Event("%s(%s)", name, strings.Join(parts, ","))
		if ret == nil {
			return VTuple{}, nil
		}
		return ret(args), nil
	}
}

// ---- FIRST ------------------------------------------------------------------------------

func checkFirstSteps(c *Ctx, p *Prog, rule string) {
	// FirstS(fs, symbols): FIRST of a string of symbols
	fs := p.Func(firstPkg, "FirstS")
	if fs == nil {
		c.Undecided(rule, "first.FirstS", "function not found")
	} else {
		hs := loopHeaders(fs)
		if len(hs) != 1 {
			c.Undecided(rule, "first.FirstS", fmt.Sprintf("expected one loop, found %d", len(hs)))
		} else {
			sm := func() map[string]Summary {
				return map[string]Summary{
					"*.First": func(r *Run, cc *ssa.CallCommon, args []Val) (Val, error) {
						return VOpq{"First(" + render(args[1]) + ")"}, nil
					},
					"*.AddSet": eventSummary("AddSet", nil),
					"builtin:delete": func(r *Run, cc *ssa.CallCommon, args []Val) (Val, error) {
						r.Event("delete(%s,%s)", render(args[0]), render(args[1]))
						return VTuple{}, nil
					},
				}
			}
			look := func(has bool) func(r *Run, m, k Val, t interface{}) {
				return nil
			}
			_ = look
			// start: empty string, or the first symbol
			for _, n := range []int64{0, 2} {
				for _, nullable := range []bool{true, false} {
					reg := &Region{Fn: fs, Cuts: cutSet(hs[0]), Summaries: sm(),
						LookupVal: func(r *Run, m, k Val, t types.Type) (Val, Val) { return boolConst(true), boolConst(nullable) }}
					out := InterpretSafe(reg, &MapWorld{Ints: map[string]int64{"len(symbols)": n}})
					name := fmt.Sprintf("FirstS start: %d symbols, first symbol nullable=%v", n, nullable)
					var ok bool
					if n == 0 {
						ok = out.Term == "return" && evs(out) == ""
					} else {
						ok = strings.HasPrefix(out.Term, "cut:") && evs(out) == "AddSet(map#1,First(symbols[0]))" && out.NextPhi["containEmpty"] == fmt.Sprint(nullable) && out.NextPhi["i"] == "1"
					}
					stepOb(c, out, rule, name, ok, fmt.Sprintf("term=%s events=[%s] next=%v %s; required: FIRST(x...) starts with FIRST(x), goes on only while the prefix is nullable", out.Term, evs(out), out.NextPhi, out.Undecided), p.FnPos(fs))
				}
			}
			// step and exit
			for _, wd := range []struct {
				name          string
				i, n          int64
				nullableSoFar bool
				nextNullable  bool
			}{{"prefix nullable, more symbols", 1, 3, true, true}, {"prefix nullable, next symbol not nullable", 1, 3, true, false}, {"prefix not nullable", 1, 3, false, false}, {"all symbols nullable, end reached", 3, 3, true, false}} {
				reg := &Region{Fn: fs, Start: hs[0], Cuts: cutSet(hs[0]), Summaries: sm(),
					PhiInputs: map[string]Val{"i": VSym{Name: "i"}, "containEmpty": boolConst(wd.nullableSoFar), "fst": VOpq{"FST"}},
					PreWorld:  &MapWorld{Ints: map[string]int64{"len(symbols)": 2}},
					LookupVal: func(r *Run, m, k Val, t types.Type) (Val, Val) { return boolConst(true), boolConst(wd.nextNullable) }}
				out := InterpretSafe(reg, &MapWorld{Ints: map[string]int64{"i": wd.i, "len(symbols)": wd.n}})
				var ok bool
				var want string
				switch {
				case wd.nullableSoFar && wd.i < wd.n:
					want = "add FIRST of symbol i and continue iff it is nullable"
					ok = strings.HasPrefix(out.Term, "cut:") && evs(out) == "AddSet(map#1,First(symbols[i]))" && out.NextPhi["i"] == "i+1" && out.NextPhi["containEmpty"] == fmt.Sprint(wd.nextNullable)
				case wd.nullableSoFar:
					want = "every symbol is nullable: the empty marker stays"
					ok = out.Term == "return" && evs(out) == ""
				default:
					want = "some symbol is not nullable: the empty marker is removed"
					ok = out.Term == "return" && evs(out) == `delete(map#1,"empty")`
				}
				stepOb(c, out, rule, "FirstS step: "+wd.name, ok, fmt.Sprintf("term=%s events=[%s] next=%v %s; required: %s", out.Term, evs(out), out.NextPhi, out.Undecided, want), p.FnPos(fs))
			}
		}
	}
	// first1: FIRST(tail followed by the item's lookahead), sorted
	f1 := p.Func(lr1ItemsPkg, "first1")
	if f1 == nil {
		c.Undecided(rule, "lr1 first1", "function not found")
	} else {
		var calls []string
		reg := &Region{Fn: f1, Cuts: cutSet(loopHeaders(f1)...), Summaries: map[string]Summary{
			"*.FirstS": func(r *Run, cc *ssa.CallCommon, args []Val) (Val, error) {
				calls = append(calls, "FirstS("+render(args[0])+","+render(args[1])+")")
				return VOpq{"FIRSTSET"}, nil
			},
			"builtin:append": func(r *Run, cc *ssa.CallCommon, args []Val) (Val, error) {
				return VOpq{render(args[0]) + " ++ [" + strings.Join(r.VarargElems(args[1]), ",") + "]"}, nil
			},
		}}
		out := InterpretSafe(reg, &MapWorld{IntFn: func(n string) (int64, bool) { return 2, strings.HasPrefix(n, "len(") }})
		want := "FirstS(&firstSets,symbols ++ [following])"
		stepOb(c, out, rule, "lr1 first1: lookaheads of a closure item", out.Term != "undecided" && strings.Join(calls, ";") == want, fmt.Sprintf("calls %v %s; required %s — FIRST of the item's tail followed by the item's own lookahead", calls, out.Undecided, want), p.FnPos(f1))
	}
	// First(fs, sym): a terminal is its own FIRST
	if ff := p.Func(firstPkg, "First"); ff != nil {
		for _, term := range []bool{true, false} {
			reg := &Region{Fn: ff, Summaries: map[string]Summary{
				"*.IsTerminal": func(r *Run, cc *ssa.CallCommon, args []Val) (Val, error) { return boolConst(term), nil },
				"*.GetSet": func(r *Run, cc *ssa.CallCommon, args []Val) (Val, error) {
					return VOpq{"GetSet(" + render(args[1]) + ")"}, nil
				},
			}}
			out := InterpretSafe(reg, &MapWorld{})
			var ok bool
			if term {
				ok = out.Term == "return" && evs(out, "mapupdate") == "mapupdate map#1[sym] = true"
			} else {
				ok = out.Term == "return" && len(out.Results) == 1 && out.Results[0] == "GetSet(sym)"
			}
			stepOb(c, out, rule, fmt.Sprintf("First: symbol is a terminal=%v", term), ok, fmt.Sprintf("term=%s results=%v events=[%s] %s; required: {sym} for a terminal, the computed set for a nonterminal", out.Term, out.Results, evs(out), out.Undecided), p.FnPos(ff))
		}
	}
	// GetFirstSets: one production per step
	gf := p.Func(firstPkg, "GetFirstSets")
	if gf == nil {
		c.Undecided(rule, "first.GetFirstSets", "function not found")
		return
	}
	hs := loopHeaders(gf)
	if len(hs) != 2 {
		c.Undecided(rule, "first.GetFirstSets", fmt.Sprintf("expected two loops (until stable, productions), found %d", len(hs)))
		return
	}
	inner := hs[1]
	for _, wd := range []struct {
		name                   string
		nsym                   int64
		terminal, equal, added bool
		leftrec                bool
	}{{"alternative starts with a terminal, new", 2, true, false, true, false}, {"alternative starts with a terminal, known", 2, true, false, false, false},
		{"starts with a nonterminal, FIRST grew", 2, false, false, true, false}, {"starts with a nonterminal, FIRST unchanged", 2, false, true, false, false},
		{"left-recursive alternative, FIRST grew", 2, false, false, true, true}, {"left-recursive alternative, FIRST unchanged", 2, false, true, false, true},
		{"no symbols", 0, false, false, true, false}} {
		reg := &Region{Fn: gf, Start: inner, Cuts: cutSet(hs...),
			PhiInputs: map[string]Val{"again": VAtom{Key: "AGAIN"}, "rangeindex": VSym{Name: "k"}},
			PreWorld:  &MapWorld{AtomFn: func(k string) (bool, bool) { return false, strings.Contains(k, "SyntaxPart") }, IntFn: func(n string) (int64, bool) { return 3, strings.HasPrefix(n, "len(") }},
			Summaries: map[string]Summary{
				"*.IsTerminal":        func(r *Run, cc *ssa.CallCommon, args []Val) (Val, error) { return boolConst(wd.terminal), nil },
				"invoke:SymbolString": func(r *Run, cc *ssa.CallCommon, args []Val) (Val, error) { return VOpq{"SYM0"}, nil },
				"*.AddToken":          eventSummary("AddToken", func(args []Val) Val { return boolConst(wd.added) }),
				"*.AddSet":            eventSummary("AddSet", func(args []Val) Val { return boolConst(wd.added) }),
				"*.FirstS": func(r *Run, cc *ssa.CallCommon, args []Val) (Val, error) {
					return VOpq{"FirstS(" + render(args[1]) + ")"}, nil
				},
				"*.stringList": func(r *Run, cc *ssa.CallCommon, args []Val) (Val, error) {
					return VOpq{"names(" + render(args[0]) + ")"}, nil
				},
				"*.GetSet": func(r *Run, cc *ssa.CallCommon, args []Val) (Val, error) {
					return VOpq{"GetSet(" + render(args[1]) + ")"}, nil
				},
				"*.Equal": func(r *Run, cc *ssa.CallCommon, args []Val) (Val, error) { return boolConst(wd.equal), nil },
			}}
		w := &MapWorld{Ints: map[string]int64{"k": 0}, IntFn: func(n string) (int64, bool) {
			if strings.Contains(n, "Body.Symbols") {
				return wd.nsym, true
			}
			return 3, strings.HasPrefix(n, "len(")
		}, AtomFn: func(k string) (bool, bool) {
			return wd.leftrec, strings.Contains(k, " == ") && strings.Contains(k, "SYM0")
		}}
		out := InterpretSafe(reg, w)
		prod := "**g.SyntaxPart.ProdList[k+1]"
		var wantEv string
		switch {
		case wd.nsym == 0:
			wantEv = fmt.Sprintf(`AddToken(&new:complit,%s.Id,"empty")`, prod)
		case wd.terminal:
			wantEv = fmt.Sprintf("AddToken(&new:complit,%s.Id,SYM0)", prod)
		case wd.equal:
			wantEv = ""
		default:
			wantEv = fmt.Sprintf("AddSet(&new:complit,%s.Id,FirstS(names(*%s.Body.Symbols)))", prod, prod)
		}
		wantAgain := "AGAIN"
		if wd.added && wantEv != "" {
			wantAgain = "true"
		}
		got := evs(out, "AddToken", "AddSet")
		ok := strings.HasPrefix(out.Term, "cut:") && got == wantEv && out.NextPhi["again"] == wantAgain
		if !wd.terminal && wd.nsym > 0 && wd.equal && !ok {
			// adding a set that is already contained is a no-op: also fine
			ok = strings.HasPrefix(out.Term, "cut:") && out.NextPhi["again"] == "AGAIN" && got == fmt.Sprintf("AddSet(&new:complit,%s.Id,FirstS(names(*%s.Body.Symbols)))", prod, prod)
		}
		stepOb(c, out, rule, "GetFirstSets step: "+wd.name, ok, fmt.Sprintf("term=%s events=[%s] again=%s %s; required events=[%s] again=%s — every alternative contributes FIRST of its whole body to its head, and any growth triggers another round", out.Term, got, out.NextPhi["again"], out.Undecided, wantEv, wantAgain), p.FnPos(gf))
	}
}

// ---- LR(1) closure / goto / collection --------------------------------------------------------

func checkLR1Steps(c *Ctx, p *Prog, rule string) {
	cl := p.Func(lr1ItemsPkg, "*ItemSet.Closure")
	if cl == nil {
		c.Undecided(rule, "lr1 ItemSet.Closure", "function not found")
	} else {
		hs := loopHeaders(cl)
		if len(hs) != 4 {
			c.Undecided(rule, "lr1 ItemSet.Closure", fmt.Sprintf("expected four nested loops (until stable, items, productions, lookaheads), found %d", len(hs)))
		} else {
			items, prods, las := hs[1], hs[2], hs[3]
			base := func() map[string]Summary {
				return map[string]Summary{
					"*.Size":       func(r *Run, cc *ssa.CallCommon, args []Val) (Val, error) { return VSym{Name: "SIZE"}, nil },
					"*.NewItemSet": func(r *Run, cc *ssa.CallCommon, args []Val) (Val, error) { return VPtr{r.NewObj("C", false), ""}, nil },
					"*.AddItem":    addItemSummary,
					"*.IsTerminal": func(r *Run, cc *ssa.CallCommon, args []Val) (Val, error) { return boolConst(false), nil },
					"*.first1": func(r *Run, cc *ssa.CallCommon, args []Val) (Val, error) {
						return VOpq{"first1(" + render(args[0]) + "," + render(args[1]) + "," + render(args[2]) + ")"}, nil
					},
					"*.NewItem": func(r *Run, cc *ssa.CallCommon, args []Val) (Val, error) {
						return VOpq{"NewItem(" + render(args[0]) + "," + render(args[1]) + "," + render(args[2]) + "," + render(args[3]) + ")"}, nil
					},
				}
			}
			pre := func(expand bool) *MapWorld {
				return &MapWorld{Ints: map[string]int64{"SIZE": 2}, IntFn: func(n string) (int64, bool) {
					switch {
					case strings.HasSuffix(n, ".Pos"):
						return 0, true
					case strings.HasSuffix(n, ".Len"):
						return 2, true
					case strings.HasPrefix(n, "len("):
						return 2, true
					}
					return 0, false
				}, AtomFn: func(k string) (bool, bool) { return true, strings.Contains(k, " == ") }}
			}
			// (i) which items are expanded
			for _, wd := range []struct {
				name                  string
				newer, complete, term bool
			}{{"item already processed", false, false, false}, {"complete item", true, true, false}, {"next symbol is a terminal", true, false, true}, {"next symbol is a nonterminal", true, false, false}} {
				sm := base()
				sm["*.IsTerminal"] = func(r *Run, cc *ssa.CallCommon, args []Val) (Val, error) { return boolConst(wd.term), nil }
				reg := &Region{Fn: cl, Start: items, Cuts: cutSet(hs...), Summaries: sm, PreWorld: pre(true),
					PhiInputs: map[string]Val{"included": VSym{Name: "INC"}, "again": VAtom{Key: "AGAIN"}, "rangeindex": VSym{Name: "x"}}}
				pos, ln := int64(1), int64(3)
				if wd.complete {
					pos = 3
				}
				inc := int64(0)
				if !wd.newer {
					inc = 9
				}
				w := &MapWorld{Ints: map[string]int64{"x": 4, "INC": inc}, IntFn: func(n string) (int64, bool) {
					switch {
					case strings.HasSuffix(n, ".Pos"):
						return pos, true
					case strings.HasSuffix(n, ".Len"):
						return ln, true
					case strings.HasPrefix(n, "len("):
						return 20, true
					}
					return 0, false
				}}
				out := InterpretSafe(reg, w)
				expand := wd.newer && !wd.complete && !wd.term
				var ok bool
				if expand {
					ok = out.CutBlock == prods && evs(out) == ""
				} else {
					ok = out.CutBlock == items && evs(out) == "" && out.NextPhi["included"] == "INC"
				}
				stepOb(c, out, rule, "Closure: "+wd.name, ok, fmt.Sprintf("term=%s next=%v events=[%s] %s; required: exactly the new items with a nonterminal after the dot are expanded", out.Term, out.NextPhi, evs(out), out.Undecided), p.FnPos(cl))
			}
			// (ii) which productions, and that the pass over them marks the item as done
			for _, match := range []bool{true, false} {
				reg := &Region{Fn: cl, Start: prods, Cuts: cutSet(hs...), Summaries: base(), PreWorld: pre(true),
					PhiInputs: map[string]Val{"again": VAtom{Key: "AGAIN"}, "rangeindex": VSym{Name: "q"}}}
				w := &MapWorld{Ints: map[string]int64{"q": 0}, IntFn: func(n string) (int64, bool) { return 5, strings.HasPrefix(n, "len(") || strings.HasSuffix(n, ".Pos") },
					AtomFn: func(k string) (bool, bool) { return match, strings.Contains(k, " == ") }}
				out := InterpretSafe(reg, w)
				ok := (match && out.CutBlock == las) || (!match && out.CutBlock == prods)
				stepOb(c, out, rule, fmt.Sprintf("Closure: production head equals the expected nonterminal=%v", match), ok && evs(out) == "", fmt.Sprintf("term=%s events=[%s] %s; required: exactly the productions of the expected nonterminal are added", out.Term, evs(out), out.Undecided), p.FnPos(cl))
			}
			{
				reg := &Region{Fn: cl, Start: prods, Cuts: cutSet(hs...), Summaries: base(), PreWorld: pre(true),
					PhiInputs: map[string]Val{"again": VAtom{Key: "AGAIN"}, "rangeindex": VSym{Name: "q"}}}
				out := InterpretSafe(reg, &MapWorld{Ints: map[string]int64{"q": 7}, IntFn: func(n string) (int64, bool) { return 5, strings.HasPrefix(n, "len(") }})
				stepOb(c, out, rule, "Closure: item marked done after its productions", out.CutBlock == items && out.NextPhi["included"] == "0" && out.NextPhi["again"] == "AGAIN", fmt.Sprintf("term=%s next=%v %s; required included = index of the item just expanded", out.Term, out.NextPhi, out.Undecided), p.FnPos(cl))
			}
			// (iii) one lookahead: the new item and its provenance
			for _, contained := range []bool{true, false} {
				sm := base()
				sm["*.Contain"] = func(r *Run, cc *ssa.CallCommon, args []Val) (Val, error) {
					r.Event("Contain(%s)", render(args[1]))
					return boolConst(contained), nil
				}
				reg := &Region{Fn: cl, Start: las, Cuts: cutSet(hs...), Summaries: sm, PreWorld: pre(true),
					PhiInputs: map[string]Val{"again": VAtom{Key: "AGAIN"}, "rangeindex": VSym{Name: "j"}}}
				out := InterpretSafe(reg, &MapWorld{Ints: map[string]int64{"j": 0}, IntFn: func(n string) (int64, bool) { return 5, strings.HasPrefix(n, "len(") }})
				item := "NewItem(0,&*this.Prods[0],0,first1(&*this.FS,*C.Items[0].Body[*C.Items[0].Pos+1:],*C.Items[0].FollowingSymbol)[j+1])"
				want := "Contain(" + item + ")"
				wantAgain := "AGAIN"
				if !contained {
					want += "; AddItem(&C," + item + ")"
					wantAgain = "true"
				}
				got := evs(out, "Contain", "AddItem")
				ok := out.CutBlock == las && normItems(got) == normItems(want) && out.NextPhi["again"] == wantAgain
				stepOb(c, out, rule, fmt.Sprintf("Closure: lookahead step, item already present=%v", contained), ok, fmt.Sprintf("events=[%s] again=%s %s; required [%s] again=%s — the item [B -> .z, b] for b in FIRST(tail of THIS item followed by THIS item's lookahead)", got, out.NextPhi["again"], out.Undecided, want, wantAgain), p.FnPos(cl))
			}
		}
	}
	// Item.Move
	if mv := p.Func(lr1ItemsPkg, "*Item.Move"); mv != nil {
		var made string
		reg := &Region{Fn: mv, Summaries: map[string]Summary{"*.NewItem": func(r *Run, cc *ssa.CallCommon, args []Val) (Val, error) {
			made = fmt.Sprintf("NewItem(%s,%s,%s,%s)", render(args[0]), render(args[1]), render(args[2]), render(args[3]))
			return VOpq{"moved"}, nil
		}}}
		out := InterpretSafe(reg, &MapWorld{})
		stepOb(c, out, rule, "Item.Move", out.Term == "return" && made == "NewItem(this.ProdIdx,&*this.Prod,this.Pos+1,this.FollowingSymbol)", "moved item = "+made+" "+out.Undecided+"; required the same production and lookahead with the dot one further", p.FnPos(mv))
	}
	// Goto
	if gt := p.Func(lr1ItemsPkg, "*ItemSet.Goto"); gt != nil {
		hs := loopHeaders(gt)
		if len(hs) == 1 {
			sm := func() map[string]Summary {
				return map[string]Summary{
					"*.NewItemSet": func(r *Run, cc *ssa.CallCommon, args []Val) (Val, error) { return VPtr{r.NewObj("J", false), ""}, nil },
					"*.Move": func(r *Run, cc *ssa.CallCommon, args []Val) (Val, error) {
						return VOpq{"Move(" + render(args[0]) + ")"}, nil
					},
					"*.AddItem": addItemSummary,
					"*.Size":    func(r *Run, cc *ssa.CallCommon, args []Val) (Val, error) { return VSym{Name: "JSIZE"}, nil },
					"*.Closure": func(r *Run, cc *ssa.CallCommon, args []Val) (Val, error) {
						return VOpq{"Closure(" + render(args[0]) + ")"}, nil
					},
				}
			}
			for _, wd := range []struct {
				name           string
				incomplete, eq bool
			}{{"dot before X", true, true}, {"dot before another symbol", true, false}, {"complete item", false, true}} {
				reg := &Region{Fn: gt, Start: hs[0], Cuts: cutSet(hs[0]), Summaries: sm(), PhiInputs: map[string]Val{"rangeindex": VSym{Name: "k"}},
					PreWorld: &MapWorld{IntFn: func(n string) (int64, bool) { return 3, strings.HasPrefix(n, "len(") }}}
				pos := int64(1)
				if !wd.incomplete {
					pos = 3
				}
				w := &MapWorld{Ints: map[string]int64{"k": 0}, IntFn: func(n string) (int64, bool) {
					switch {
					case strings.HasSuffix(n, ".Pos"):
						return pos, true
					case strings.HasSuffix(n, ".Len"):
						return 3, true
					}
					return 5, strings.HasPrefix(n, "len(")
				}, AtomFn: func(k string) (bool, bool) { return wd.eq, strings.Contains(k, " == ") }}
				out := InterpretSafe(reg, w)
				want := ""
				if wd.incomplete && wd.eq {
					want = "AddItem(&J,Move(&*I.Items[k+1]))"
				}
				got := evs(out, "AddItem")
				stepOb(c, out, rule, "Goto step: "+wd.name, strings.HasPrefix(out.Term, "cut:") && normItems(got) == normItems(want), fmt.Sprintf("events=[%s] %s; required [%s] — goto(I,X) collects the moved items with X after the dot", got, out.Undecided, want), p.FnPos(gt))
			}
			for _, n := range []int64{0, 2} {
				reg := &Region{Fn: gt, Start: hs[0], Cuts: cutSet(hs[0]), Summaries: sm(), PhiInputs: map[string]Val{"rangeindex": VSym{Name: "k"}},
					PreWorld: &MapWorld{IntFn: func(n string) (int64, bool) { return 3, strings.HasPrefix(n, "len(") }}}
				out := InterpretSafe(reg, &MapWorld{Ints: map[string]int64{"k": 9, "JSIZE": n}, IntFn: func(nm string) (int64, bool) { return 3, strings.HasPrefix(nm, "len(") }})
				want := "&J"
				if n > 0 {
					want = "Closure(&J)"
				}
				stepOb(c, out, rule, fmt.Sprintf("Goto result: %d moved items", n), out.Term == "return" && len(out.Results) == 1 && out.Results[0] == want, fmt.Sprintf("result %v %s; required %s (the closure of the moved items)", out.Results, out.Undecided, want), p.FnPos(gt))
			}
		}
	}
	// GetItemSets: one (state, symbol) step
	gi := p.Func(lr1ItemsPkg, "GetItemSets")
	if gi == nil {
		c.Undecided(rule, "lr1 GetItemSets", "function not found")
		return
	}
	hs := loopHeaders(gi)
	if len(hs) != 3 {
		c.Undecided(rule, "lr1 GetItemSets", fmt.Sprintf("expected three loops, found %d", len(hs)))
		return
	}
	inner := hs[2]
	for _, wd := range []struct {
		name      string
		size, idx int64
	}{{"goto empty", 0, 0}, {"goto is a known state", 3, 4}, {"goto is a new state", 3, -1}} {
		var apps, gotoRecv []string
		reg := &Region{Fn: gi, Start: inner, Cuts: cutSet(hs...),
			PhiInputs: map[string]Val{"again": VAtom{Key: "AGAIN"}, "rangeindex": VSym{Name: "m"}},
			PreWorld:  &MapWorld{IntFn: func(n string) (int64, bool) { return 2, strings.HasPrefix(n, "len(") }, Ints: map[string]int64{"included": -1}},
			Summaries: map[string]Summary{
				"*.InitialItemSet": func(r *Run, cc *ssa.CallCommon, args []Val) (Val, error) { return VOpq{"I0"}, nil },
				"*.Closure":        func(r *Run, cc *ssa.CallCommon, args []Val) (Val, error) { return VPtr{r.NewObj("S0", false), ""}, nil },
				"*.List":           func(r *Run, cc *ssa.CallCommon, args []Val) (Val, error) { return VOpq{"SYMS"}, nil },
				"*.Goto": func(r *Run, cc *ssa.CallCommon, args []Val) (Val, error) {
					r.Event("Goto(%s,%s)", render(args[0]), render(args[1]))
					gotoRecv = append(gotoRecv, render(args[0]))
					return VPtr{r.NewObj("G", false), ""}, nil
				},
				"*.Size":          func(r *Run, cc *ssa.CallCommon, args []Val) (Val, error) { return VSym{Name: "GSIZE"}, nil },
				"*.GetIndex":      func(r *Run, cc *ssa.CallCommon, args []Val) (Val, error) { return VSym{Name: "IDX"}, nil },
				"*.AddTransition": eventSummary("AddTransition", nil),
				"builtin:append": func(r *Run, cc *ssa.CallCommon, args []Val) (Val, error) {
					apps = append(apps, render(args[0])+" ++ ["+strings.Join(r.VarargElems(args[1]), ",")+"]")
					return VSlice{Name: "SETS2", Len: VSym{Name: "NEWLEN"}}, nil
				},
			}}
		out := InterpretSafe(reg, &MapWorld{Ints: map[string]int64{"m": 0, "GSIZE": wd.size, "IDX": wd.idx}, IntFn: func(n string) (int64, bool) { return 4, strings.HasPrefix(n, "len(") }})
		got := evs(out, "Goto", "AddTransition")
		recv := "?"
		if len(gotoRecv) > 0 {
			recv = gotoRecv[0]
		}
		var want, wantAgain string
		wantAgain = "AGAIN"
		switch {
		case wd.size == 0:
			want = "Goto(" + recv + ",SYMS[m+1])"
		case wd.idx >= 0:
			want = "Goto(" + recv + ",SYMS[m+1]); AddTransition(" + recv + ",SYMS[m+1],IDX)"
		default:
			want = "Goto(" + recv + ",SYMS[m+1]); AddTransition(" + recv + ",SYMS[m+1],NEWLEN-1)"
			wantAgain = "true"
		}
		ok := strings.HasPrefix(out.Term, "cut:") && got == want && recv != "&G" && out.NextPhi["again"] == wantAgain && (wd.idx >= 0 || wd.size == 0 || (len(apps) == 1 && strings.HasSuffix(apps[0], "++ [&G]")))
		stepOb(c, out, rule, "GetItemSets step: "+wd.name, ok, fmt.Sprintf("events=[%s] appends=%v again=%s %s; required [%s] again=%s — a non-empty goto set becomes a transition to its (possibly new) state", got, apps, out.NextPhi["again"], out.Undecided, want, wantAgain), p.FnPos(gi))
	}
}

// normItems removes spaces (renderings of nested values differ only there).
func normItems(s string) string { return strings.ReplaceAll(s, " ", "") }

func addItemSummary(r *Run, cc *ssa.CallCommon, args []Val) (Val, error) {
	r.Event("AddItem(%s,%s)", render(args[0]), strings.Join(r.VarargElems(args[1]), ","))
	return VTuple{}, nil
}

// stepOb records an obligation about one interpreted step; a run the engine could
// not follow is reported as undecided, not as refuted.
func stepOb(c *Ctx, out *Outcome, rule, name string, ok bool, detail, pos string) {
	if out != nil && out.Term == "undecided" {
		c.Undecided(rule, name, "the checker cannot follow this code: "+out.Undecided+" ("+detail+")", pos)
		return
	}
	c.Ob(rule, name, ok, detail, pos)
}

// ---- the data structures whose answers drive the iterations ---------------------------------

func checkItemSetOps(c *Ctx, p *Prog, rule string) {
	// AddItem: an item is appended iff its key is not yet in imap, and is entered under the same key
	if fn := p.Func(lr1ItemsPkg, "*ItemSet.AddItem"); fn == nil {
		c.Undecided(rule, "lr1 ItemSet.AddItem", "function not found")
	} else if hs := loopHeaders(fn); len(hs) != 1 {
		c.Undecided(rule, "lr1 ItemSet.AddItem", "expected one loop", p.FnPos(fn))
	} else {
		for _, has := range []bool{true, false} {
			var keys []string
			var apps []string
			reg := &Region{Fn: fn, Start: hs[0], Cuts: cutSet(hs[0]), PhiInputs: map[string]Val{"rangeindex": VSym{Name: "k"}},
				PreWorld: &MapWorld{IntFn: func(n string) (int64, bool) { return 3, strings.HasPrefix(n, "len(") }},
				LookupVal: func(r *Run, m, k Val, t types.Type) (Val, Val) {
					keys = append(keys, render(m)+"["+render(k)+"]")
					return VOpq{"old"}, boolConst(has)
				},
				Summaries: map[string]Summary{"builtin:append": func(r *Run, cc *ssa.CallCommon, args []Val) (Val, error) {
					apps = append(apps, render(args[0])+" ++ ["+strings.Join(r.VarargElems(args[1]), ",")+"]")
					return VOpq{"ITEMS2"}, nil
				}}}
			out := InterpretSafe(reg, &MapWorld{Ints: map[string]int64{"k": 0}, IntFn: func(n string) (int64, bool) { return 3, strings.HasPrefix(n, "len(") }})
			up := evs(out, "mapupdate")
			var ok bool
			if has {
				ok = up == "" && len(apps) == 0 && len(out.Stores) == 0
			} else {
				ok = len(keys) >= 1 && up == "mapupdate "+keys[0]+" = &*items[k+1]" &&
					len(apps) == 1 && apps[0] == "this.Items ++ [&*items[k+1]]" && out.Stores["this.Items"] == "ITEMS2"
			}
			stepOb(c, out, rule, fmt.Sprintf("lr1 ItemSet.AddItem: key already present=%v", has), strings.HasPrefix(out.Term, "cut:") && ok, fmt.Sprintf("lookups %v updates [%s] appends %v stores %v %s; required: an item is entered under the key it was looked up with and appended to Items iff that key was absent", keys, up, apps, out.Stores, out.Undecided), p.FnPos(fn))
		}
	}
	if fn := p.Func(lr1ItemsPkg, "*ItemSet.Contain"); fn != nil {
		for _, has := range []bool{true, false} {
			reg := &Region{Fn: fn, LookupVal: func(r *Run, m, k Val, t types.Type) (Val, Val) { return VOpq{"old"}, boolConst(has) }}
			out := InterpretSafe(reg, &MapWorld{})
			stepOb(c, out, rule, fmt.Sprintf("lr1 ItemSet.Contain: key present=%v", has), out.Term == "return" && len(out.Results) == 1 && out.Results[0] == fmt.Sprint(has), fmt.Sprintf("result %v %s", out.Results, out.Undecided), p.FnPos(fn))
		}
	}
	// Equal: same number of items and every key of this in that
	if fn := p.Func(lr1ItemsPkg, "*ItemSet.Equal"); fn == nil {
		c.Undecided(rule, "lr1 ItemSet.Equal", "function not found")
	} else if hs := loopHeaders(fn); len(hs) != 1 {
		c.Undecided(rule, "lr1 ItemSet.Equal", "expected one loop", p.FnPos(fn))
	} else {
		for _, wd := range []struct {
			name   string
			isNil  bool
			la, lb int64
			want   string
		}{{"other set is nil", true, 2, 2, "return false"}, {"different number of items", false, 2, 3, "return false"}, {"same number of items", false, 2, 2, "cut"}} {
			reg := &Region{Fn: fn, Cuts: cutSet(hs[0])}
			if wd.isNil {
				reg.Params = map[string]Val{"that": VConst{T: fn.Params[1].Type()}}
			}
			out := InterpretSafe(reg, &MapWorld{Ints: map[string]int64{"len(this.Items)": wd.la, "len(that.Items)": wd.lb}})
			got := out.Term
			if got == "return" {
				got += " " + strings.Join(out.Results, ",")
			}
			stepOb(c, out, rule, "lr1 ItemSet.Equal: "+wd.name, strings.HasPrefix(got, wd.want), fmt.Sprintf("got %s %s asked %v; required %s", got, out.Undecided, out.Asked, wd.want), p.FnPos(fn))
		}
		for _, wd := range []struct {
			name      string
			more, has bool
			want      string
		}{{"a key of this set is missing in the other", true, false, "return false"}, {"key present in the other", true, true, "cut"}, {"all keys seen", false, true, "return true"}} {
			var looked []string
			reg := &Region{Fn: fn, Start: hs[0], Cuts: cutSet(hs[0]), PreWorld: &MapWorld{Ints: map[string]int64{"len(this.Items)": 2, "len(that.Items)": 2}},
				LookupVal: func(r *Run, m, k Val, t types.Type) (Val, Val) {
					looked = append(looked, render(m)+"["+render(k)+"]")
					return VOpq{"it"}, boolConst(wd.has)
				}}
			out := InterpretSafe(reg, &MapWorld{AtomFn: func(k string) (bool, bool) { return wd.more, strings.HasPrefix(k, "more ") }})
			got := out.Term
			if got == "return" {
				got += " " + strings.Join(out.Results, ",")
			}
			ok := strings.HasPrefix(got, wd.want)
			if wd.more {
				ok = ok && len(looked) == 1 && looked[0] == "that.imap[key iter(this.imap)]"
			}
			stepOb(c, out, rule, "lr1 ItemSet.Equal step: "+wd.name, ok, fmt.Sprintf("got %s lookups %v %s; required %s, looking up each key of this.imap in that.imap", got, looked, out.Undecided, wd.want), p.FnPos(fn))
		}
	}
	// GetIndex: the index of the first equal set, else -1
	if fn := p.Func(lr1ItemsPkg, "*ItemSets.GetIndex"); fn == nil {
		c.Undecided(rule, "lr1 ItemSets.GetIndex", "function not found")
	} else if hs := loopHeaders(fn); len(hs) != 1 {
		c.Undecided(rule, "lr1 ItemSets.GetIndex", "expected one loop", p.FnPos(fn))
	} else {
		sm := func(eq bool, calls *[]string) map[string]Summary {
			return map[string]Summary{
				"*.Size": func(r *Run, cc *ssa.CallCommon, args []Val) (Val, error) { return VSym{Name: "ISIZE"}, nil },
				"*.Equal": func(r *Run, cc *ssa.CallCommon, args []Val) (Val, error) {
					*calls = append(*calls, "Equal("+render(args[0])+","+render(args[1])+")")
					return boolConst(eq), nil
				}}
		}
		for _, wd := range []struct {
			name   string
			idx, n int64
			eq     bool
			want   string
		}{{"set k equals I", 1, 4, true, "return k+1"}, {"set k differs", 1, 4, false, "cut"}, {"no set equals I", 3, 4, false, "return -1"}} {
			var calls []string
			reg := &Region{Fn: fn, Start: hs[0], Cuts: cutSet(hs[0]), Summaries: sm(wd.eq, &calls), PhiInputs: map[string]Val{"rangeindex": VSym{Name: "k"}},
				PreWorld: &MapWorld{Ints: map[string]int64{"ISIZE": 2}, IntFn: func(n string) (int64, bool) { return 3, strings.HasPrefix(n, "len(") }}}
			out := InterpretSafe(reg, &MapWorld{Ints: map[string]int64{"k": wd.idx, "ISIZE": 2}, IntFn: func(n string) (int64, bool) { return wd.n, strings.HasPrefix(n, "len(") }})
			got := out.Term
			if got == "return" {
				got += " " + strings.Join(out.Results, ",")
			}
			ok := strings.HasPrefix(got, wd.want)
			if wd.idx+1 < wd.n {
				ok = ok && len(calls) == 1 && (calls[0] == "Equal(&*this.sets[k+1],&I)" || calls[0] == "Equal(&I,&*this.sets[k+1])")
			}
			stepOb(c, out, rule, "lr1 ItemSets.GetIndex: "+wd.name, ok, fmt.Sprintf("got %s calls %v %s; required %s", got, calls, out.Undecided, wd.want), p.FnPos(fn))
		}
		var calls []string
		reg := &Region{Fn: fn, Cuts: cutSet(hs[0]), Summaries: sm(false, &calls)}
		out := InterpretSafe(reg, &MapWorld{Ints: map[string]int64{"ISIZE": 0}})
		stepOb(c, out, rule, "lr1 ItemSets.GetIndex: empty set", out.Term == "return" && len(out.Results) == 1 && out.Results[0] == "-1", fmt.Sprintf("got %s %v %s; required -1", out.Term, out.Results, out.Undecided), p.FnPos(fn))
	}
	// FirstSets.AddToken / AddSet: report growth truthfully
	if fn := p.Func(firstPkg, "*FirstSets.AddToken"); fn != nil {
		for _, wd := range []struct{ setExists, contains bool }{{true, true}, {true, false}, {false, false}} {
			n := 0
			reg := &Region{Fn: fn, LookupVal: func(r *Run, m, k Val, t types.Type) (Val, Val) {
				n++
				if n == 1 {
					return VOpq{"SET"}, boolConst(wd.setExists)
				}
				return boolConst(true), boolConst(wd.contains)
			}}
			out := InterpretSafe(reg, &MapWorld{})
			up := evs(out, "mapupdate")
			added := len(out.Results) == 1 && out.Results[0] == "true"
			setUpd := strings.Contains(up, "[terminal] = true")
			ok := out.Term == "return" && added == !wd.contains && setUpd == !wd.contains && (wd.setExists || strings.Contains(up, "[prodName] = "))
			stepOb(c, out, rule, fmt.Sprintf("FirstSets.AddToken: set exists=%v, symbol present=%v", wd.setExists, wd.contains), ok, fmt.Sprintf("result %v updates [%s] %s; required: the symbol is entered and true returned iff it was absent (a missing set is created and stored first)", out.Results, up, out.Undecided), p.FnPos(fn))
		}
	}
	if fn := p.Func(firstPkg, "*FirstSets.AddSet"); fn != nil {
		if hs := loopHeaders(fn); len(hs) == 1 {
			for _, wd := range []struct{ before, added bool }{{false, true}, {false, false}, {true, false}, {true, true}} {
				var calls []string
				reg := &Region{Fn: fn, Start: hs[0], Cuts: cutSet(hs[0]), PhiInputs: map[string]Val{"symbolsAdded": boolConst(wd.before)},
					Summaries: map[string]Summary{"*.AddToken": func(r *Run, cc *ssa.CallCommon, args []Val) (Val, error) {
						calls = append(calls, "AddToken("+render(args[1])+","+render(args[2])+")")
						return boolConst(wd.added), nil
					}}}
				out := InterpretSafe(reg, &MapWorld{AtomFn: func(k string) (bool, bool) { return true, strings.HasPrefix(k, "more ") }})
				ok := strings.HasPrefix(out.Term, "cut:") && len(calls) == 1 && calls[0] == "AddToken(prodName,key iter(terminals))" && out.NextPhi["symbolsAdded"] == fmt.Sprint(wd.before || wd.added)
				stepOb(c, out, rule, fmt.Sprintf("FirstSets.AddSet step: grown before=%v, this symbol new=%v", wd.before, wd.added), ok, fmt.Sprintf("calls %v next=%v %s; required: every symbol of the set is added to the production's set and the result is true iff any was new", calls, out.NextPhi, out.Undecided), p.FnPos(fn))
			}
		}
	}
}
