package main

// E7 — an LR(1) construction that is independent of gocc's, and a reader for
// gocc's BNF that is independent of gocc's scanner and parser.

import (
	"fmt"
	"sort"
	"strings"
	"unicode"
)

// ---- BNF reader -----------------------------------------------------------------

type bnfTok struct {
	kind string // "id", "str", "sdt", "punct", "eof"
	text string // identifier text / string content / sdt text (without << >>) / punct
	line int
}

func bnfLex(src string) ([]bnfTok, error) {
	var toks []bnfTok
	line := 1
	rs := []rune(src)
	i := 0
	for i < len(rs) {
		r := rs[i]
		switch {
		case r == '\n':
			line++
			i++
		case r == ' ' || r == '\t' || r == '\r':
			i++
		case r == '/' && i+1 < len(rs) && rs[i+1] == '/':
			for i < len(rs) && rs[i] != '\n' {
				i++
			}
		case r == '/' && i+1 < len(rs) && rs[i+1] == '*':
			i += 2
			for i+1 < len(rs) && !(rs[i] == '*' && rs[i+1] == '/') {
				if rs[i] == '\n' {
					line++
				}
				i++
			}
			if i+1 >= len(rs) {
				return nil, fmt.Errorf("line %d: unterminated comment", line)
			}
			i += 2
		case r == '<' && i+1 < len(rs) && rs[i+1] == '<':
			j := i + 2
			for j+1 < len(rs) && !(rs[j] == '>' && rs[j+1] == '>') {
				if rs[j] == '\n' {
					line++
				}
				j++
			}
			if j+1 >= len(rs) {
				return nil, fmt.Errorf("line %d: unterminated << >>", line)
			}
			toks = append(toks, bnfTok{"sdt", strings.TrimSpace(string(rs[i+2 : j])), line})
			i = j + 2
		case r == '"':
			j := i + 1
			for j < len(rs) && rs[j] != '"' {
				if rs[j] == '\\' {
					j++
				}
				j++
			}
			if j >= len(rs) {
				return nil, fmt.Errorf("line %d: unterminated string", line)
			}
			toks = append(toks, bnfTok{"str", string(rs[i+1 : j]), line})
			i = j + 1
		case r == '`':
			j := i + 1
			for j < len(rs) && rs[j] != '`' {
				j++
			}
			if j >= len(rs) {
				return nil, fmt.Errorf("line %d: unterminated raw string", line)
			}
			toks = append(toks, bnfTok{"str", string(rs[i+1 : j]), line})
			i = j + 1
		case r == ':' || r == '|' || r == ';':
			toks = append(toks, bnfTok{"punct", string(r), line})
			i++
		case r == '_' || r == '!' || unicode.IsLetter(r):
			j := i
			for j < len(rs) && (rs[j] == '_' || rs[j] == '!' || unicode.IsLetter(rs[j]) || unicode.IsDigit(rs[j])) {
				j++
			}
			toks = append(toks, bnfTok{"id", string(rs[i:j]), line})
			i = j
		default:
			return nil, fmt.Errorf("line %d: unexpected character %q", line, r)
		}
	}
	toks = append(toks, bnfTok{"eof", "", line})
	return toks, nil
}

type lrSym struct {
	Name string
	Term bool
}

type lrProd struct {
	Head string
	Body []lrSym
	SDT  string // action text as written ("" if none)
	Line int
}

type lrGrammar struct {
	Header string
	Prods  []lrProd // Prods[0] is the augmented S' : Start
	NTs    map[string]bool
	Terms  []string // sorted, without end marker
}

const lrEnd = "␚"

// parseSyntaxBNF reads the syntax part of a gocc BNF file (no lexical part).
// String literals denote terminals named by their content; identifiers with an
// upper-case first letter are nonterminals, other identifiers are terminals.
func parseSyntaxBNF(src string) (*lrGrammar, error) {
	toks, err := bnfLex(src)
	if err != nil {
		return nil, err
	}
	g := &lrGrammar{NTs: map[string]bool{}}
	i := 0
	if toks[i].kind == "sdt" {
		g.Header = toks[i].text
		i++
	}
	g.Prods = append(g.Prods, lrProd{})
	for toks[i].kind != "eof" {
		if toks[i].kind != "id" || !unicode.IsUpper([]rune(toks[i].text)[0]) {
			return nil, fmt.Errorf("line %d: production head expected, got %q", toks[i].line, toks[i].text)
		}
		head := toks[i].text
		i++
		if toks[i].kind != "punct" || toks[i].text != ":" {
			return nil, fmt.Errorf("line %d: ':' expected", toks[i].line)
		}
		i++
		for {
			p := lrProd{Head: head, Line: toks[i].line}
			for toks[i].kind == "id" || toks[i].kind == "str" {
				t := toks[i]
				if t.kind == "str" {
					p.Body = append(p.Body, lrSym{t.text, true})
				} else if unicode.IsUpper([]rune(t.text)[0]) {
					p.Body = append(p.Body, lrSym{t.text, false})
				} else {
					p.Body = append(p.Body, lrSym{t.text, true})
				}
				i++
			}
			if toks[i].kind == "sdt" {
				p.SDT = toks[i].text
				i++
			}
			if len(p.Body) == 0 {
				return nil, fmt.Errorf("line %d: empty alternative", p.Line)
			}
			g.Prods = append(g.Prods, p)
			g.NTs[head] = true
			if toks[i].kind == "punct" && toks[i].text == "|" {
				i++
				continue
			}
			if toks[i].kind == "punct" && toks[i].text == ";" {
				i++
				break
			}
			return nil, fmt.Errorf("line %d: '|' or ';' expected, got %q", toks[i].line, toks[i].text)
		}
	}
	if len(g.Prods) < 2 {
		return nil, fmt.Errorf("no productions")
	}
	g.Prods[0] = lrProd{Head: "S'", Body: []lrSym{{g.Prods[1].Head, false}}}
	g.NTs["S'"] = true
	ts := map[string]bool{}
	for _, p := range g.Prods {
		for _, s := range p.Body {
			if s.Term {
				ts[s.Name] = true
			} else if !g.NTs[s.Name] {
				return nil, fmt.Errorf("undefined nonterminal %s", s.Name)
			}
		}
	}
	for t := range ts {
		g.Terms = append(g.Terms, t)
	}
	sort.Strings(g.Terms)
	return g, nil
}

// ---- canonical LR(1) ---------------------------------------------------------------

type lrItem struct {
	prod, dot int
	la        string
}

type lrState struct {
	items []lrItem // sorted, closed
	key   string
	trans map[string]int // symbol name (terminal or NT; distinct name spaces by Term flag in key)
}

type lrAutomaton struct {
	g      *lrGrammar
	states []*lrState
	first  map[string]map[string]bool
	null   map[string]bool
}

func symKey(s lrSym) string {
	if s.Term {
		return "t:" + s.Name
	}
	return "n:" + s.Name
}

func (a *lrAutomaton) computeFirst() {
	g := a.g
	a.first = map[string]map[string]bool{}
	a.null = map[string]bool{}
	for nt := range g.NTs {
		a.first[nt] = map[string]bool{}
	}
	for changed := true; changed; {
		changed = false
		for _, p := range g.Prods {
			allNull := true
			for _, s := range p.Body {
				if s.Term {
					if !a.first[p.Head][s.Name] {
						a.first[p.Head][s.Name] = true
						changed = true
					}
					allNull = false
					break
				}
				for t := range a.first[s.Name] {
					if !a.first[p.Head][t] {
						a.first[p.Head][t] = true
						changed = true
					}
				}
				if !a.null[s.Name] {
					allNull = false
					break
				}
			}
			if allNull && !a.null[p.Head] {
				a.null[p.Head] = true
				changed = true
			}
		}
	}
}

func (a *lrAutomaton) firstOf(seq []lrSym, la string) []string {
	out := map[string]bool{}
	nullable := true
	for _, s := range seq {
		if s.Term {
			out[s.Name] = true
			nullable = false
			break
		}
		for t := range a.first[s.Name] {
			out[t] = true
		}
		if !a.null[s.Name] {
			nullable = false
			break
		}
	}
	if nullable {
		out[la] = true
	}
	r := make([]string, 0, len(out))
	for t := range out {
		r = append(r, t)
	}
	sort.Strings(r)
	return r
}

func (a *lrAutomaton) closure(items []lrItem) []lrItem {
	seen := map[lrItem]bool{}
	var work []lrItem
	for _, it := range items {
		if !seen[it] {
			seen[it] = true
			work = append(work, it)
		}
	}
	for len(work) > 0 {
		it := work[len(work)-1]
		work = work[:len(work)-1]
		p := a.g.Prods[it.prod]
		if it.dot >= len(p.Body) || p.Body[it.dot].Term {
			continue
		}
		B := p.Body[it.dot].Name
		for _, la := range a.firstOf(p.Body[it.dot+1:], it.la) {
			for pi, q := range a.g.Prods {
				if q.Head == B {
					n := lrItem{pi, 0, la}
					if !seen[n] {
						seen[n] = true
						work = append(work, n)
					}
				}
			}
		}
	}
	out := make([]lrItem, 0, len(seen))
	for it := range seen {
		out = append(out, it)
	}
	sort.Slice(out, func(i, j int) bool {
		if out[i].prod != out[j].prod {
			return out[i].prod < out[j].prod
		}
		if out[i].dot != out[j].dot {
			return out[i].dot < out[j].dot
		}
		return out[i].la < out[j].la
	})
	return out
}

func itemsKey(items []lrItem) string {
	var sb strings.Builder
	for _, it := range items {
		fmt.Fprintf(&sb, "%d.%d.%s|", it.prod, it.dot, it.la)
	}
	return sb.String()
}

func buildLR1(g *lrGrammar) *lrAutomaton {
	a := &lrAutomaton{g: g}
	a.computeFirst()
	index := map[string]int{}
	add := func(items []lrItem) int {
		k := itemsKey(items)
		if i, ok := index[k]; ok {
			return i
		}
		s := &lrState{items: items, key: k, trans: map[string]int{}}
		a.states = append(a.states, s)
		index[k] = len(a.states) - 1
		return len(a.states) - 1
	}
	add(a.closure([]lrItem{{0, 0, lrEnd}}))
	for i := 0; i < len(a.states); i++ {
		st := a.states[i]
		moves := map[string][]lrItem{}
		var order []string
		for _, it := range st.items {
			p := g.Prods[it.prod]
			if it.dot < len(p.Body) {
				k := symKey(p.Body[it.dot])
				if _, ok := moves[k]; !ok {
					order = append(order, k)
				}
				moves[k] = append(moves[k], lrItem{it.prod, it.dot + 1, it.la})
			}
		}
		sort.Strings(order)
		for _, k := range order {
			st.trans[k] = add(a.closure(moves[k]))
		}
	}
	return a
}

// lrAction: the set of actions of state s on terminal t ("s<n>", "r<p>", "acc").
func (a *lrAutomaton) actions(s int, t string) []string {
	st := a.states[s]
	set := map[string]bool{}
	if n, ok := st.trans["t:"+t]; ok {
		set[fmt.Sprintf("s%d", n)] = true
	}
	for _, it := range st.items {
		p := a.g.Prods[it.prod]
		if it.dot == len(p.Body) && it.la == t {
			if it.prod == 0 {
				set["acc"] = true
			} else {
				set[fmt.Sprintf("r%d", it.prod)] = true
			}
		}
	}
	out := make([]string, 0, len(set))
	for k := range set {
		out = append(out, k)
	}
	sort.Strings(out)
	return out
}

func (g *lrGrammar) prodString(i int) string {
	p := g.Prods[i]
	names := make([]string, len(p.Body))
	for j, s := range p.Body {
		names[j] = s.Name
	}
	return p.Head + " : " + strings.Join(names, " ")
}
