package main

// placeholder until E2 exists
func checkLRDriver(c *Ctx, p *Prog, rule, pkg, fn string, frontend bool) {
	c.Note("%s: driver transfer table not built yet", rule)
}
