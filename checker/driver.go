package main

// The LR driver loop as a transfer table (R02.4 for generated parsers, R15.2
// for gocc's own front-end parser).

import (
	"fmt"
	"go/types"
	"strings"

	"golang.org/x/tools/go/ssa"
)

type driverWorld struct {
	name      string
	first     string // action found in the row: "nil", "accept", "shift", "reduce"
	recovered bool   // after nil: did Error recover
	second    string // action found after recovery
	errNil    bool   // reduce: action returned a nil error
}

func driverWorlds() []driverWorld {
	var ws []driverWorld
	for _, a := range []string{"accept", "shift"} {
		ws = append(ws, driverWorld{name: a, first: a})
	}
	for _, e := range []bool{true, false} {
		ws = append(ws, driverWorld{name: fmt.Sprintf("reduce, action error nil=%v", e), first: "reduce", errNil: e})
	}
	ws = append(ws, driverWorld{name: "no action, not recovered", first: "nil"})
	for _, a := range []string{"nil", "accept", "shift"} {
		ws = append(ws, driverWorld{name: "no action, recovered, then " + a, first: "nil", recovered: true, second: a})
	}
	for _, e := range []bool{true, false} {
		ws = append(ws, driverWorld{name: fmt.Sprintf("no action, recovered, then reduce, action error nil=%v", e), first: "nil", recovered: true, second: "reduce", errNil: e})
	}
	return ws
}

func pkgType(p *Prog, rel, name string) types.Type {
	pk := p.Pkg(rel)
	if pk == nil {
		return nil
	}
	o := pk.Types.Scope().Lookup(name)
	if o == nil {
		return nil
	}
	return o.Type()
}

// checkLRDriver interprets one iteration of Parse's loop in every world.
func checkLRDriver(c *Ctx, p *Prog, rule, pkg, fnName string, frontend bool) {
	fn := p.Func(pkg, fnName)
	if fn == nil {
		c.Undecided(rule, pkg+" Parse", "function not found")
		return
	}
	hs := loopHeaders(fn)
	if len(hs) != 1 {
		c.Undecided(rule, pkg+" Parse", fmt.Sprintf("expected exactly one loop in Parse, found %d", len(hs)))
		return
	}
	head := hs[0]
	pos := p.FnPos(fn)
	short := strings.TrimPrefix(pkg, gmRoot+"/")
	recvName := fn.Params[0].Name()
	kindName := func(k string) string {
		if frontend {
			return strings.ToUpper(k[:1]) + k[1:]
		}
		return k
	}
	mkAction := func(kind, sym string) Val {
		if kind == "nil" {
			return VIface{}
		}
		T := pkgType(p, pkg, kindName(kind))
		if T == nil {
			return VOpq{"?"}
		}
		if kind == "accept" {
			return VIface{Dyn: T, V: VOpq{"acc"}}
		}
		return VIface{Dyn: T, V: VSym{Name: sym}}
	}
	n := 0
	for _, w := range driverWorlds() {
		w := w
		var cur *Run
		ev := func(f string, a ...any) { cur.Event(f, a...) }
		tops, scans, lookups := 0, 0, 0
		rowAction := func() Val {
			lookups++
			if lookups == 1 {
				return mkAction(w.first, "a1")
			}
			return mkAction(w.second, "a2")
		}
		topS := func(r *Run, cc *ssa.CallCommon, args []Val) (Val, error) {
			cur = r
			// pure observer of the stack: its value changes only when the stack does
			return VSym{Name: fmt.Sprintf("TOP@%d", tops)}, nil
		}
		pushS := func(r *Run, cc *ssa.CallCommon, args []Val) (Val, error) {
			cur = r
			ev("push(%s,%s)", render(args[1]), render(args[2]))
			tops++
			return VTuple{}, nil
		}
		popS := func(r *Run, cc *ssa.CallCommon, args []Val) (Val, error) {
			cur = r
			ev("popN(%s)", render(args[1]))
			tops++
			return VOpq{"popped"}, nil
		}
		scanS := func(r *Run, cc *ssa.CallCommon, args []Val) (Val, error) {
			cur = r
			scans++
			ev("Scan")
			o := r.NewObj(fmt.Sprintf("tok%d", scans), false)
			if frontend {
				return VTuple{VPtr{o, ""}, VOpq{fmt.Sprintf("pos%d", scans)}}, nil
			}
			return VPtr{o, ""}, nil
		}
		errorS := func(r *Run, cc *ssa.CallCommon, args []Val) (Val, error) {
			cur = r
			ev("Error(%s)", render(args[1]))
			tops++
			// Error may have scanned on: the look-ahead is whatever it left
			o := r.NewObj("tokAfterError", false)
			r.SetCell(recvName, ".nextToken", VPtr{o, ""})
			ea := r.NewObj("errAttrib", false)
			return VTuple{boolConst(w.recovered), VPtr{ea, ""}}, nil
		}
		newErrS := func(r *Run, cc *ssa.CallCommon, args []Val) (Val, error) {
			cur = r
			ev("newError(%s)", render(args[1]))
			return VIface{Dyn: types.Universe.Lookup("error").Type(), V: VOpq{"theError"}}, nil
		}
		reduceS := func(r *Run, cc *ssa.CallCommon, args []Val) (Val, error) {
			cur = r
			parts := []string{}
			for _, a := range args[1:] {
				parts = append(parts, render(a))
			}
			ev("ReduceFunc[%s](%s)", render(args[0]), strings.Join(parts, ","))
			var e Val = VIface{}
			if !w.errNil {
				e = VIface{Dyn: types.Universe.Lookup("error").Type(), V: VOpq{"actionErr"}}
			}
			return VTuple{VOpq{"attrib"}, e}, nil
		}
		reg := &Region{
			Fn: fn, Start: head, Cuts: cutSet(head), StalePrologue: true,
			PhiInputs: map[string]Val{"res": VOpq{"RES"}, "acc": boolConst(false)},
			Summaries: map[string]Summary{
				"*.top": topS, "*.Top": topS, "*.push": pushS, "*.Push": pushS, "*.popN": popS, "*.PopN": popS,
				"invoke:Scan": scanS, "*.Error": errorS, "*.newError": newErrS, "dyn": reduceS,
				"*.Reset":       func(r *Run, cc *ssa.CallCommon, args []Val) (Val, error) { return VTuple{}, nil },
				"invoke:String": pureSummary("String"),
				"*.TokenString": pureSummary("TokenString"),
				"fmt.Printf": func(r *Run, cc *ssa.CallCommon, args []Val) (Val, error) {
					return VTuple{VSym{Name: "n"}, VConst{}}, nil
				},
				"*.String": pureSummary("String"),
			},
			Lazy: func(o *Obj, path string, t types.Type) Val {
				if o.Name == "actionTab" && strings.Contains(path, ".actions[") && strings.HasSuffix(path, "]") {
					return rowAction()
				}
				return nil
			},
			AtStart: func(r *Run, fr *frame) {
				tops, lookups = 0, 0
				r.ClearCell(recvName, ".nextToken")
				r.ClearCell(recvName, ".pos")
			},
			LookupVal: func(r *Run, m, k Val, t types.Type) (Val, Val) {
				if strings.HasSuffix(render(m), ".Actions") {
					a := rowAction()
					iv := a.(VIface)
					return a, boolConst(iv.Dyn != nil)
				}
				return nil, nil
			},
		}
		out := InterpretSafe(reg, &MapWorld{})
		n++
		name := fmt.Sprintf("%s Parse loop: %s", short, w.name)
		if out.Term == "undecided" {
			c.Undecided(rule, name, out.Undecided, pos)
			continue
		}
		evs := out.Events
		// expected
		var want []string
		wantTerm := "cut:" + head.Comment
		wantNext := map[string]string{"acc": "false", "res": "RES"}
		wantRes := ""
		tok := "&*" + recvName + ".nextToken"
		topN := 1
		act := w.first
		sym := "a1"
		if w.first == "nil" {
			want = append(want, "Error(nil)")
			if !w.recovered {
				if frontend {
					want = append(want, "store "+recvName+".nextToken = &*errAttrib.ErrorToken")
					for _, f := range []string{"Column", "Line", "Offset"} {
						want = append(want, fmt.Sprintf("store %s.pos.%s = errAttrib.ErrorPos.%s", recvName, f, f))
					}
				} else {
					want = append(want, "store "+recvName+".nextToken = &*errAttrib.ErrorToken")
				}
				want = append(want, "newError(nil)")
				wantTerm = "return"
				wantRes = "nil, error(theError)"
				act = ""
			} else {
				topN = 2
				act = w.second
				sym = "a2"
				tok = "&tokAfterError"
				if w.second == "nil" {
					wantTerm = "panic"
					act = ""
				}
			}
		}
		prodTab, gotoTab := "productionsTable", "gotoTab"
		if frontend {
			prodTab, gotoTab = recvName+".prodTab", recvName+".gotoTab"
		}
		switch act {
		case "accept":
			want = append(want, "popN(1)")
			wantNext["acc"] = "true"
			wantNext["res"] = "popped[0]"
		case "shift":
			want = append(want, fmt.Sprintf("push(%s,*token.Token(%s))", sym, tok))
			want = append(want, "Scan")
			if frontend {
				want = append(want, "store "+recvName+".nextToken = &tok2", "store "+recvName+".pos = pos2")
			} else {
				want = append(want, "store "+recvName+".nextToken = &tok2")
			}
		case "reduce":
			if frontend {
				want = append(want, fmt.Sprintf("popN(%s[%s].NumSymbols)", prodTab, sym), fmt.Sprintf("ReduceFunc[%s[%s].ReduceFunc](popped)", prodTab, sym))
			} else {
				want = append(want, fmt.Sprintf("popN(%s[%s].NumSymbols)", prodTab, sym), fmt.Sprintf("ReduceFunc[%s[%s].ReduceFunc](popped,%s.Context)", prodTab, sym, recvName))
			}
			if w.errNil {
				if frontend {
					want = append(want, fmt.Sprintf("push(%s[TOP@%d][%s[%s].Head],attrib)", gotoTab, topN, prodTab, sym))
				} else {
					want = append(want, fmt.Sprintf("push(gotoTab[TOP@%d][%s[%s].NTType],attrib)", topN, prodTab, sym))
				}
			} else {
				want = append(want, "newError(error(actionErr))")
				wantTerm = "return"
				wantRes = "nil, error(theError)"
			}
		}
		got := evs
		ok := out.Term == wantTerm
		gotS, wantS := strings.Join(got, "; "), strings.Join(want, "; ")
		ok = ok && gotS == wantS
		if wantTerm == "return" {
			ok = ok && strings.Join(out.Results, ", ") == wantRes
		}
		if strings.HasPrefix(wantTerm, "cut:") {
			for k, v := range wantNext {
				if out.NextPhi[k] != v {
					ok = false
				}
			}
		}
		c.Ob(rule, name, ok, fmt.Sprintf("term=%s results=%v next=%v events=[%s]; required term=%s results=[%s] next=%v events=[%s]", out.Term, out.Results, out.NextPhi, gotS, wantTerm, wantRes, wantNext, wantS), pos)
		if n <= 3 {
			c.Sample(map[string]any{"rule": rule, "parser": short, "world": w.name, "events": got, "term": out.Term})
		}
	}
	// loop exit: acc = true returns (res, nil)
	reg := &Region{Fn: fn, Start: head, Cuts: cutSet(head), PhiInputs: map[string]Val{"res": VOpq{"RES"}, "acc": boolConst(true)},
		Summaries: map[string]Summary{"*.Reset": func(r *Run, cc *ssa.CallCommon, args []Val) (Val, error) { return VTuple{}, nil },
			"invoke:Scan": func(r *Run, cc *ssa.CallCommon, args []Val) (Val, error) {
				if frontend {
					return VTuple{VOpq{"tok0"}, VOpq{"pos0"}}, nil
				}
				return VOpq{"tok0"}, nil
			}}}
	out := InterpretSafe(reg, &MapWorld{})
	c.Ob(rule, short+" Parse loop exit", out.Term == "return" && strings.Join(out.Results, ", ") == "RES, nil" && len(out.Events) == 0,
		fmt.Sprintf("term=%s results=%v events=%v %s; required: return (res, nil) with no further effect", out.Term, out.Results, out.Events, out.Undecided), pos)
	c.Note("%s: %s: %d worlds of the Parse loop body", rule, short, n+1)
}

// driverEventsMatch compares event lists where the expected side may end an
// element with "... " to mean "any suffix" (attribute wrappers of the front end).
func driverEventsMatch(got, want []string) bool {
	if len(got) != len(want) {
		return false
	}
	for i := range got {
		w := want[i]
		if strings.HasSuffix(w, "... ") {
			if !strings.HasPrefix(got[i], strings.TrimSuffix(w, "... ")) {
				return false
			}
			continue
		}
		if got[i] != w {
			return false
		}
	}
	return true
}
