package main

// The pipeline in main.main as a transfer table: main is interpreted in every world of
// (configuration error, -h, parse error, lexical errors, undefined regular definition, -no_lexer, no syntax
// part, -v), with every stage of the pipeline as an event. Helpers that main is split into are interpreted in
// place, so moving a stage into a function of its own does not change the table.
//
// From the table: a stage that fails ends in a non-zero exit before anything is generated (R14.2, R14.3,
// R14.5); otherwise exactly the generators the configuration calls for run (R09.3), all with the one token map
// (R10.3), and the token ids are registered before the terminals are numbered.

import (
	"fmt"
	"go/types"
	"strings"

	"golang.org/x/tools/go/ssa"
)

type mainWorld struct {
	cfgErr, help, parseErr, lexErrs, regdefErr, noLexer, noSyntax, verbose bool
}

func (w mainWorld) String() string {
	var on []string
	for _, f := range []struct {
		b bool
		n string
	}{{w.cfgErr, "configuration error"}, {w.help, "-h"}, {w.parseErr, "parse error"}, {w.lexErrs, "lexical errors"}, {w.regdefErr, "undefined regular definition"}, {w.noLexer, "-no_lexer"}, {w.noSyntax, "no syntax part"}, {w.verbose, "-v"}} {
		if f.b {
			on = append(on, f.n)
		}
	}
	if len(on) == 0 {
		return "plain run"
	}
	return strings.Join(on, ", ")
}

type mainRow struct {
	w      mainWorld
	term   string
	events []string
	undec  string
}

var mainTableMemo = map[*Prog][]mainRow{}

func mainTable(p *Prog) []mainRow {
	if t, ok := mainTableMemo[p]; ok {
		return t
	}
	fn := p.Func("", "main")
	var rows []mainRow
	if fn == nil {
		mainTableMemo[p] = nil
		return nil
	}
	grammarT := types.NewPointer(pkgType(p, "internal/ast", "Grammar"))
	errV := func(is bool, name string) Val {
		if is {
			return VIface{Dyn: types.Typ[types.String], V: VOpq{name}}
		}
		return VIface{}
	}
	worlds := []mainWorld{{}}
	for _, f := range []func(*mainWorld){func(w *mainWorld) { w.cfgErr = true }, func(w *mainWorld) { w.help = true }, func(w *mainWorld) { w.parseErr = true }, func(w *mainWorld) { w.lexErrs = true },
		func(w *mainWorld) { w.regdefErr = true }, func(w *mainWorld) { w.noLexer = true }, func(w *mainWorld) { w.noSyntax = true }, func(w *mainWorld) { w.verbose = true }} {
		w := mainWorld{}
		f(&w)
		worlds = append(worlds, w)
	}
	// some pairs
	worlds = append(worlds, mainWorld{noLexer: true, noSyntax: true}, mainWorld{verbose: true, noLexer: true}, mainWorld{verbose: true, noSyntax: true}, mainWorld{parseErr: true, lexErrs: true}, mainWorld{lexErrs: true, noLexer: true}, mainWorld{regdefErr: true, verbose: true})
	for _, w := range worlds {
		w := w
		ev := func(name string, ret func(r *Run, args []Val) Val) Summary {
			return func(r *Run, cc *ssa.CallCommon, args []Val) (Val, error) {
				parts := make([]string, 0, len(args))
				for _, a := range args {
					s := render(a)
					if strings.Contains(s, "TOKMAP") {
						parts = append(parts, "TOKMAP")
					}
				}
				r.Event("%s(%s)", name, strings.Join(parts, ","))
				if ret == nil {
					return VTuple{}, nil
				}
				return ret(r, args), nil
			}
		}
		quiet := func(v Val) Summary {
			return func(r *Run, cc *ssa.CallCommon, args []Val) (Val, error) { return v, nil }
		}
		exit1 := func(r *Run, cc *ssa.CallCommon, args []Val) (Val, error) {
			r.Exit("usage(1)")
			return VTuple{}, nil
		}
		sm := map[string]Summary{
			"*.New": func(r *Run, cc *ssa.CallCommon, args []Val) (Val, error) {
				return VTuple{VIface{Dyn: types.Typ[types.Int], V: VOpq{"CFG"}}, errV(w.cfgErr, "cfgerr")}, nil
			},
			"dyn":                      exit1, // flag.Usage(), assigned main.usage, which always exits 1
			"*.usage":                  exit1,
			"invoke:Verbose":           quiet(boolConst(w.verbose)),
			"invoke:Help":              quiet(boolConst(w.help)),
			"invoke:NoLexer":           quiet(boolConst(w.noLexer)),
			"invoke:PrintParams":       quiet(VTuple{}),
			"invoke:SourceFile":        quiet(VOpq{"SRCFILE"}),
			"invoke:Package":           quiet(VOpq{"PKG"}),
			"invoke:OutDir":            quiet(VOpq{"OUTDIR"}),
			"invoke:AutoResolveLRConf": quiet(boolConst(true)),
			"*.getSource":              quiet(VOpq{"SRC"}),
			"*.GetSource":              quiet(VTuple{VOpq{"SRC"}, VIface{}}),
			"*.ReadFile":               quiet(VTuple{VOpq{"SRC"}, VIface{}}),
			"*.Init":                   quiet(VTuple{}),
			"*.NewParser":              quiet(VOpq{"PARSER"}),
			"*.Parse": ev("Parse", func(r *Run, args []Val) Val {
				// the scanner counts the lexical errors it met while the parser pulled tokens from it
				for _, a := range args {
					if iv, ok := a.(VIface); ok {
						a = iv.V
					}
					if sp, ok := a.(VPtr); ok && w.lexErrs && strings.Contains(sp.Obj.Name, "complit") {
						r.SetCell(sp.Obj.Name, sp.Path+".ErrorCount", intConst(2))
					}
				}
				g := r.NewObj("G", false)
				return VTuple{VIface{Dyn: grammarT, V: VPtr{g, ""}}, errV(w.parseErr, "parseerr")}
			}),
			"*.CheckRegDefs":          ev("CheckRegDefs", func(r *Run, args []Val) Val { return errV(w.regdefErr, "regdeferr") }),
			"*.NewSymbols":            quiet(VOpq{"SYMS"}),
			"*.writeTerminals":        quiet(VTuple{}),
			"*.TokenIds":              quiet(VOpq{"TOKIDS"}),
			"*.Add":                   ev("AddTokenIds", nil),
			"*.ListStringLitSymbols":  quiet(VOpq{"STRLITS"}),
			"*.UpdateStringLitTokens": quiet(VTuple{}),
			"*.ListTerminals":         ev("ListTerminals", func(r *Run, args []Val) Val { return VOpq{"TERMINALS"} }),
			"*.NewTokenMap": ev("NewTokenMap", func(r *Run, args []Val) Val {
				return VPtr{r.NewObj("TOKMAP", false), ""}
			}),
			"*.String":          quiet(VOpq{"text"}),
			"*.Join":            quiet(VOpq{"path"}),
			"*.WriteFileString": quiet(VTuple{}),
			"*.WriteFile":       quiet(VTuple{}),
			"*.GetFirstSets":    quiet(VOpq{"FIRST"}),
			"*.Size":            quiet(VSym{Name: "NSETS"}),
			"*.handleConflicts": ev("handleConflicts", nil),
			"fmt.Printf":        quiet(VTuple{VSym{Name: "n"}, VIface{}}),
			"fmt.Println":       quiet(VTuple{VSym{Name: "n"}, VIface{}}),
			"os.Exit": func(r *Run, cc *ssa.CallCommon, args []Val) (Val, error) {
				r.Exit(render(args[0]))
				return VTuple{}, nil
			},
		}
		// the two GetItemSets and the four Gen differ by package
		gen := func(r *Run, cc *ssa.CallCommon, args []Val) (Val, error) {
			callee := cc.StaticCallee()
			pk := ""
			if callee != nil && callee.Pkg != nil {
				pk = relName(callee.Pkg.Pkg.Path())
			}
			toks := ""
			for _, a := range args {
				if strings.Contains(render(a), "TOKMAP") {
					toks = "TOKMAP"
				}
			}
			r.Event("Gen[%s](%s)", pk, toks)
			if strings.Contains(pk, "parser") {
				return VOpq{"CONFLICTS"}, nil
			}
			return VTuple{}, nil
		}
		sm["*.Gen"] = gen
		sm["*.GetItemSets"] = quiet(VOpq{"ITEMSETS"})
		reg := &Region{Fn: fn, Summaries: sm, Lazy: func(o *Obj, path string, t types.Type) Val {
			switch {
			case strings.HasSuffix(path, ".ErrorCount"):
				if w.lexErrs {
					return intConst(2)
				}
				return intConst(0)
			case o.Name == "G" && path == ".SyntaxPart":
				if w.noSyntax {
					return VConst{T: t}
				}
				return VPtr{&Obj{Name: "SYNTAX", cells: map[string]Val{}, stores: map[string]bool{}}, ""}
			}
			return nil
		}}
		out := InterpretSafe(reg, &MapWorld{})
		rows = append(rows, mainRow{w: w, term: out.Term, events: out.Events, undec: out.Undecided})
	}
	mainTableMemo[p] = rows
	return rows
}

func mainTableDecided(p *Prog) bool {
	rows := mainTable(p)
	if len(rows) == 0 {
		return false
	}
	for _, r := range rows {
		if r.term == "undecided" {
			return false
		}
	}
	return true
}

func gensOf(events []string) (lexer, parser, token, util bool, allTokMap bool, order string) {
	allTokMap = true
	var seq []string
	for _, e := range events {
		if !strings.HasPrefix(e, "Gen[") {
			if e == "AddTokenIds()" || e == "ListTerminals()" || strings.HasPrefix(e, "NewTokenMap") {
				seq = append(seq, strings.TrimSuffix(e, "()"))
			}
			continue
		}
		switch {
		case strings.Contains(e, "lexer/gen"):
			lexer = true
			if !strings.Contains(e, "TOKMAP") {
				allTokMap = false
			}
		case strings.Contains(e, "parser/gen"):
			parser = true
			if !strings.Contains(e, "TOKMAP") {
				allTokMap = false
			}
		case strings.Contains(e, "token/gen"):
			token = true
			if !strings.Contains(e, "TOKMAP") {
				allTokMap = false
			}
		case strings.Contains(e, "util/gen"):
			util = true
		}
	}
	order = strings.Join(seq, " < ")
	return
}

// checkMainTable emits the obligations about main from the table. which selects the group of clauses.
func checkMainTable(c *Ctx, p *Prog, rule, which string) {
	for _, r := range mainTable(p) {
		name := "main, " + r.w.String()
		failing := r.w.cfgErr || r.w.help || r.w.parseErr || r.w.lexErrs || r.w.regdefErr
		lex, par, tok, utl, same, order := gensOf(r.events)
		anyGen := lex || par || tok || utl
		detail := fmt.Sprintf("ends with %s after %v", r.term, r.events)
		switch which {
		case "errors": // R14.x: a failing stage ends in a non-zero exit before anything is generated
			if !failing {
				continue
			}
			ok := strings.HasPrefix(r.term, "exit:") && r.term != "exit:0" && !strings.Contains(r.term, "exit:0:") && !anyGen
			c.Ob(rule, name+": refused before anything is generated", ok, detail+"; required: a non-zero exit and no generator call")
		case "complete": // R09.3
			if failing {
				continue
			}
			ok := r.term == "return" && tok && utl && lex == !r.w.noLexer && par == !r.w.noSyntax
			c.Ob(rule, name+": the generators the configuration calls for", ok, detail+"; required: token and util always, the lexer unless -no_lexer, the parser iff there is a syntax part, then a normal return")
		case "tokenmap": // R10.3
			if failing {
				continue
			}
			ok := same && order == "AddTokenIds < ListTerminals < NewTokenMap"
			c.Ob(rule, name+": one token map, numbered after the token ids were registered", ok, fmt.Sprintf("%s; order of the numbering steps: %s; every generator that takes a token map got the one NewTokenMap returned: %v", detail, order, same))
		}
	}
}

func init() {
	register("MAINDUMP", "other", func(c *Ctx) {
		p := c.RepoProg()
		for _, r := range mainTable(p) {
			fmt.Printf("%-40s %s %v %s\n", r.w.String(), r.term, r.events, r.undec)
		}
	})
}
