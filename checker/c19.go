package main

import (
	"fmt"
	"go/types"
	"sort"
	"strings"

	"golang.org/x/tools/go/ssa"
)

func init() { register("C19", "other", runC19) }

func runC19(c *Ctx) {
	p := c.RepoProg()
	// ---- R19.1 dispatch ----
	gs := p.Func("", "getSource")
	if gs == nil {
		c.Undecided("R19.1", "main.getSource", "function not found")
	} else {
		for _, wd := range []struct {
			md, fail bool
		}{{true, false}, {true, true}, {false, false}, {false, true}} {
			var evs []string
			var errV Val = VIface{}
			if wd.fail {
				errV = VIface{Dyn: errorType(), V: VOpq{"E"}}
			}
			reg := &Region{Fn: gs, Summaries: map[string]Summary{
				"invoke:SourceFile": func(r *Run, cc *ssa.CallCommon, args []Val) (Val, error) { return VOpq{"FILE"}, nil },
				"strings.HasSuffix": func(r *Run, cc *ssa.CallCommon, args []Val) (Val, error) {
					if render(args[0]) != "FILE" || render(args[1]) != `".md"` {
						return nil, fmt.Errorf("suffix test on %s, %s", render(args[0]), render(args[1]))
					}
					return boolConst(wd.md), nil
				},
				"*.GetSource": func(r *Run, cc *ssa.CallCommon, args []Val) (Val, error) {
					evs = append(evs, "md.GetSource("+render(args[0])+")")
					return VTuple{VOpq{"MDTEXT"}, errV}, nil
				},
				"os.ReadFile": func(r *Run, cc *ssa.CallCommon, args []Val) (Val, error) {
					evs = append(evs, "os.ReadFile("+render(args[0])+")")
					return VTuple{VOpq{"RAW"}, errV}, nil
				},
				"fmt.Println": func(r *Run, cc *ssa.CallCommon, args []Val) (Val, error) {
					return VTuple{VSym{Name: "n"}, VConst{}}, nil
				},
				"os.Exit": func(r *Run, cc *ssa.CallCommon, args []Val) (Val, error) {
					r.Exit(render(args[0]))
					return nil, nil
				},
			}}
			out := InterpretSafe(reg, &MapWorld{})
			wantEv := "os.ReadFile(FILE)"
			wantRes := "RAW"
			if wd.md {
				wantEv, wantRes = "md.GetSource(FILE)", "[]byte(MDTEXT)"
			}
			var ok bool
			if wd.fail {
				ok = out.Term == "exit:1" && strings.Join(evs, ";") == wantEv
			} else {
				ok = out.Term == "return" && strings.Join(evs, ";") == wantEv && strings.Join(out.Results, ",") == wantRes
			}
			c.Ob("R19.1", fmt.Sprintf("getSource: .md suffix=%v, read fails=%v", wd.md, wd.fail), ok, fmt.Sprintf("term=%s calls=%v results=%v %s; required: a name ending in .md goes through md.GetSource, everything else is read as is; a read error exits 1", out.Term, evs, out.Results, out.Undecided), p.FnPos(gs))
		}
	}
	// the scanner is initialised with exactly that buffer
	if mainFn := p.Func("", "main"); mainFn != nil {
		ok := false
		for _, b := range mainFn.Blocks {
			for _, in := range b.Instrs {
				if call, isCall := in.(*ssa.Call); isCall {
					if f := call.Call.StaticCallee(); f != nil && f.Name() == "Init" && strings.HasSuffix(f.Pkg.Pkg.Path(), "frontend/scanner") {
						if src, isC := call.Call.Args[1].(*ssa.Call); isC {
							if g := src.Call.StaticCallee(); g != nil && g.Name() == "getSource" {
								ok = true
							}
						}
					}
				}
			}
		}
		c.Ob("R19.1", "main: scanner.Init receives getSource's buffer", ok, "the only source handed to the front-end scanner is the value getSource returned")
	}

	// ---- R19.2 loadMd ----
	fn := p.Func("internal/util/md", "loadMd")
	if fn == nil {
		c.Undecided("R19.2", "md.loadMd", "function not found")
		return
	}
	hs := loopHeaders(fn)
	if len(hs) != 2 {
		c.Undecided("R19.2", "md.loadMd", fmt.Sprintf("expected two loops (scan, 3-rune fence), found %d", len(hs)))
		return
	}
	head := hs[0]
	if !head.Dominates(hs[1]) {
		head = hs[1]
	}
	// the buffer is never resized or replaced
	for _, b := range fn.Blocks {
		for _, in := range b.Instrs {
			switch x := in.(type) {
			case *ssa.Slice:
				c.Ob("R19.2", "loadMd: buffer resliced", false, "the buffer must keep its length so that offsets, lines and columns are preserved", p.Pos(x.Pos()))
			case *ssa.Call:
				if bi, ok := x.Call.Value.(*ssa.Builtin); ok && (bi.Name() == "append" || bi.Name() == "copy") {
					c.Ob("R19.2", "loadMd: buffer "+bi.Name(), false, "the buffer must not be rebuilt", p.Pos(x.Pos()))
				}
			}
		}
	}
	type mdWorld struct {
		name         string
		text         bool
		fence        bool
		room         bool  // i <= len-3
		next         int64 // rune after the fence / current rune
		nextIn       bool  // i+3 < len (after a fence)
		partialFence int   // 1 or 2 backticks only
	}
	var ws []mdWorld
	// rune classes: newline, backtick, an ordinary letter, and every other value
	// the code itself compares a rune with
	runes := []int64{10, 65, 96}
	for _, k := range comparedConstants(fn) {
		if k > 3 && k != 10 && k != 96 && k != 65 {
			runes = append(runes, k)
		}
	}
	for _, text := range []bool{true, false} {
		for _, nx := range runes {
			ws = append(ws, mdWorld{name: fmt.Sprintf("prose=%v, plain rune %d", text, nx), text: text, room: true, next: nx})
			ws = append(ws, mdWorld{name: fmt.Sprintf("prose=%v, rune %d, fewer than 3 runes left", text, nx), text: text, room: false, next: nx})
			ws = append(ws, mdWorld{name: fmt.Sprintf("prose=%v, fence followed by rune %d", text, nx), text: text, fence: true, room: true, next: nx, nextIn: true})
		}
		ws = append(ws, mdWorld{name: fmt.Sprintf("prose=%v, fence at the very end", text), text: text, fence: true, room: true})
		ws = append(ws, mdWorld{name: fmt.Sprintf("prose=%v, one backtick only", text), text: text, room: true, next: 96, partialFence: 1})
		ws = append(ws, mdWorld{name: fmt.Sprintf("prose=%v, two backticks only", text), text: text, room: true, next: 96, partialFence: 2})
	}
	for _, w := range ws {
		ints := map[string]int64{"i": 10, "len(input)": 100}
		if !w.room {
			ints["len(input)"] = 12
		}
		switch {
		case w.fence:
			ints["input[i]"], ints["input[i+1]"], ints["input[i+2]"] = 96, 96, 96
			ints["input[i+3]"] = w.next
			if !w.nextIn {
				ints["len(input)"] = 13
			}
		case w.partialFence == 1:
			ints["input[i]"], ints["input[i+1]"], ints["input[i+2]"] = 96, 65, 96
		case w.partialFence == 2:
			ints["input[i]"], ints["input[i+1]"], ints["input[i+2]"] = 96, 96, 65
		default:
			ints["input[i]"], ints["input[i+1]"], ints["input[i+2]"] = w.next, 96, 96
			if w.next == 96 {
				ints["input[i+1]"] = 65
			}
		}
		reg := &Region{Fn: fn, Start: head, Cuts: cutSet(head), PhiInputs: map[string]Val{"i": VSym{Name: "i"}, "text": boolConst(w.text)}}
		mw := &MapWorld{Ints: ints}
		out := InterpretSafe(reg, mw)
		name := "loadMd step: " + w.name
		if out.Term == "undecided" {
			c.Undecided("R19.2", name, out.Undecided, p.FnPos(fn))
			continue
		}
		// expected
		want := map[string]string{}
		wantText := w.text
		wantI := "i+1"
		cur := "input[i]"
		mode := w.text
		if w.fence {
			want["input[i]"], want["input[i+1]"], want["input[i+2]"] = "32", "32", "32"
			wantText = !w.text
			mode = wantText
			cur = "input[i+3]"
			wantI = "i+4"
			if !w.nextIn {
				wantI = "i+3"
				cur = ""
			}
		}
		if cur != "" && mode {
			// prose: newlines are kept, everything else becomes a space
			if ints[cur] == 10 {
				want[cur] = "10"
			} else {
				want[cur] = "32"
			}
		}
		got := map[string]string{}
		for k, v := range out.Stores {
			got[k] = v
		}
		// a store that rewrites the value already there is no change
		for k, v := range got {
			if n, ok := ints[k]; ok && fmt.Sprint(n) == v {
				if _, expected := want[k]; !expected {
					delete(got, k)
				}
			}
		}
		for k, v := range want {
			if n, ok := ints[k]; ok && fmt.Sprint(n) == v {
				if _, stored := got[k]; !stored {
					delete(want, k) // keeping a newline needs no store
				}
			}
		}
		keys := []string{}
		for k := range got {
			keys = append(keys, k)
		}
		sort.Strings(keys)
		d := mapDiff(got, want)
		ok := strings.HasPrefix(out.Term, "cut:") && d == "" && out.NextPhi["i"] == wantI && out.NextPhi["text"] == fmt.Sprint(wantText)
		// invariants of the statement: only ' ' is written, never over a newline
		for _, k := range keys {
			if got[k] != "32" && !(got[k] == "10" && ints[k] == 10) {
				ok = false
			}
			if got[k] == "32" && ints[k] == 10 {
				ok = false
			}
		}
		c.Ob("R19.2", name, ok, fmt.Sprintf("stores %v, next i=%s text=%s; required stores %v, i=%s, text=%v (prose is blanked rune by rune except newlines; code is untouched; a fence is blanked and toggles the mode; nothing else changes)", got, out.NextPhi["i"], out.NextPhi["text"], want, wantI, wantText), p.FnPos(fn))
	}
	// start state: prose mode at index 0
	reg := &Region{Fn: fn, Cuts: cutSet(head)}
	out := InterpretSafe(reg, &MapWorld{})
	c.Ob("R19.2", "loadMd: start", strings.HasPrefix(out.Term, "cut:") && out.NextPhi["i"] == "0" && out.NextPhi["text"] == "true" && len(out.Events) == 0, fmt.Sprintf("start i=%s text=%s; required: index 0 in prose mode", out.NextPhi["i"], out.NextPhi["text"]), p.FnPos(fn))
	// GetSource: the characters of the file, loadMd on them, the same buffer encoded again
	if g := p.Func("internal/util/md", "GetSource"); g != nil {
		var evs []string
		reg := &Region{Fn: g, Summaries: map[string]Summary{
			"os.ReadFile": func(r *Run, cc *ssa.CallCommon, args []Val) (Val, error) { return VTuple{VOpq{"FILE"}, VIface{}}, nil },
			"*.decode": func(r *Run, cc *ssa.CallCommon, args []Val) (Val, error) {
				evs = append(evs, "decode("+render(args[0])+")")
				return VTuple{VOpq{"RUNES"}, VOpq{"RAWBYTES"}}, nil
			},
			"*.loadMd": func(r *Run, cc *ssa.CallCommon, args []Val) (Val, error) {
				evs = append(evs, "loadMd("+render(args[0])+")")
				return VTuple{}, nil
			},
			"*.encode": func(r *Run, cc *ssa.CallCommon, args []Val) (Val, error) {
				evs = append(evs, "encode("+render(args[0])+","+render(args[1])+")")
				return VOpq{"BYTES"}, nil
			},
		}}
		out := InterpretSafe(reg, &MapWorld{})
		got := strings.Join(evs, ";")
		okOld := got == "loadMd([]rune(string(FILE)))" && len(out.Results) == 2 && out.Results[0] == "string([]rune(string(FILE)))"
		okNew := got == "decode(FILE);loadMd(RUNES);encode(RUNES,RAWBYTES)" && len(out.Results) == 2 && out.Results[0] == "string(BYTES)"
		c.Ob("R19.2", "md.GetSource", out.Term == "return" && (okOld || okNew) && out.Results[1] == "nil", fmt.Sprintf("calls %v returns %v %s; required: the characters of the file, blanked in place by loadMd, the same buffer turned into text again", evs, out.Results, out.Undecided), p.FnPos(g))
		// R19.3: what is not UTF-8 in a code section reaches the scanner as it is (a plain grammar file with such a byte is refused)
		dec, enc := p.Func("internal/util/md", "decode"), p.Func("internal/util/md", "encode")
		if dec == nil || enc == nil {
			c.Ob("R19.3", "md.GetSource keeps undecodable bytes of code sections", false, "the file is converted with []rune(string(bytes)): every byte that is not UTF-8 becomes a valid U+FFFD, so a grammar that gocc refuses as a .bnf file (illegal UTF-8 encoding) is accepted inside a .md file", p.FnPos(g))
		} else {
			checkMdCodec(c, p, dec, enc)
		}
	}
	checkLineOnlyFromNext(c, p, "R19.4")
	checkProseRemoved(c, p, "R19.5")
	c.Assumptions = append(c.Assumptions, "NOT decided: that fences are recognised at exactly the property's positions for every text (e.g. a fence starting at the rune right after a closing fence is not seen as a fence); diagnostics count columns in runes, and a blanked multi-byte rune becomes a one-byte space: offsets in bytes are not preserved, lines and rune columns are")
	c.Trusted = append(c.Trusted, "go/ssa", "checker/sx.go")
	c.Explanation = "C19, partial: decided are the dispatch (a file name ending in .md, and only that, goes through md.GetSource; its result is the one buffer the scanner gets) and the store discipline of loadMd, step by step in every world (prose/code mode x fence / partial fence / plain rune x newline or not x end of buffer): the only value ever written is a space, never over a newline; outside fences runes are blanked only in prose mode; a fence is blanked and toggles the mode, the rune after it is treated in the new mode; the buffer is never resliced, appended to or copied, and GetSource returns that same buffer. Hence line breaks and the number of runes per line are preserved and code runes are untouched, which gives equal packages and positions. NOT decided: exact fence recognition for every text."
}

func checkMdCodec(c *Ctx, p *Prog, dec, enc *ssa.Function) {
	// decode, one round of the range over the file's text
	if hs := loopHeaders(dec); len(hs) != 1 {
		c.Undecided("R19.3", "md.decode", "expected one loop", p.FnPos(dec))
	} else {
		for _, wd := range []struct {
			name   string
			r, w   int64
			rawKey bool
		}{{"a well-formed character", 'x', 1, false}, {"a three-byte character", 0x20ac, 3, false}, {"the character U+FFFD itself", 0xfffd, 3, false}, {"a byte that is not UTF-8", 0xfffd, 1, true}} {
			var apps []string
			phis := map[string]Val{}
			for _, in := range hs[0].Instrs {
				if phi, ok := in.(*ssa.Phi); ok {
					phis[phi.Comment] = VOpq{"PHI_" + phi.Comment}
				}
			}
			phis["input"] = VSlice{Name: "OUT", Len: VSym{Name: "NOUT"}}
			reg := &Region{Fn: dec, Start: hs[0], Cuts: cutSet(hs[0]), PhiInputs: phis,
				PreWorld: &MapWorld{AtomFn: func(k string) (bool, bool) { return true, strings.HasPrefix(k, "more ") }, IntFn: func(s string) (int64, bool) { return 'q', true }},
				Extern:   map[string]Val{"next:iter(string(inbuf))": VTuple{boolConst(true), VSym{Name: "i"}, VSym{Name: "R"}}},
				Summaries: map[string]Summary{
					"*.DecodeRune": func(r *Run, cc *ssa.CallCommon, args []Val) (Val, error) {
						return VTuple{VSym{Name: "R2"}, VSym{Name: "W"}}, nil
					},
					"builtin:append": func(r *Run, cc *ssa.CallCommon, args []Val) (Val, error) {
						apps = append(apps, render(args[0])+" ++ ["+strings.Join(r.VarargElems(args[1]), ",")+"]")
						return VSlice{Name: "OUT2", Len: VSym{Name: "NOUT", Off: 1}}, nil
					},
				}, AtStart: func(r *Run, fr *frame) { apps = nil }}
			out := InterpretSafe(reg, &MapWorld{Ints: map[string]int64{"i": 2, "R": wd.r, "R2": wd.r, "W": wd.w, "len(inbuf)": 9, "NOUT": 4}})
			up := evs(out, "mapupdate")
			ok := termOf(out) == "cut" && len(apps) == 1 && apps[0] == "OUT ++ [R]"
			if wd.rawKey {
				ok = ok && strings.HasPrefix(up, "mapupdate ") && strings.Contains(up, "[NOUT] = inbuf[i]")
			} else {
				ok = ok && up == ""
			}
			stepOb(c, out, "R19.3", "md.decode step: "+wd.name, ok, fmt.Sprintf("%s appends=%v updates=[%s] %s; required: every character of the text is appended, and a byte that is not UTF-8 (RuneError of width 1) is remembered under the index of its character", termOf(out), apps, up, out.Undecided), p.FnPos(dec))
		}
	}
	// encode, one round
	if hs := loopHeaders(enc); len(hs) != 1 {
		c.Undecided("R19.3", "md.encode", "expected one loop", p.FnPos(enc))
	} else {
		for _, wd := range []struct {
			name     string
			has      bool
			r        int64
			wantByte bool
		}{{"a remembered byte that loadMd left alone (code)", true, 0xfffd, true}, {"a remembered byte that loadMd blanked (prose)", true, ' ', false}, {"an ordinary character", false, 'x', false}, {"the character U+FFFD", false, 0xfffd, false}} {
			var apps []string
			reg := &Region{Fn: enc, Start: hs[0], Cuts: cutSet(hs[0]), PhiInputs: map[string]Val{"out": VOpq{"OUT"}, "rangeindex": VSym{Name: "k"}},
				PreWorld:  lenWorld(5, nil),
				LookupVal: func(r *Run, m, k Val, t types.Type) (Val, Val) { return VSym{Name: "RAWBYTE"}, boolConst(wd.has) },
				Lazy: func(o *Obj, path string, t types.Type) Val {
					if o.Name == "input" {
						return VSym{Name: "R"}
					}
					return nil
				},
				Summaries: map[string]Summary{
					"*.AppendRune": func(r *Run, cc *ssa.CallCommon, args []Val) (Val, error) {
						apps = append(apps, "rune "+render(args[1]))
						return VOpq{"OUT2"}, nil
					},
					"builtin:append": func(r *Run, cc *ssa.CallCommon, args []Val) (Val, error) {
						apps = append(apps, "byte "+strings.Join(r.VarargElems(args[1]), ","))
						return VOpq{"OUT2"}, nil
					},
				}}
			out := InterpretSafe(reg, &MapWorld{Ints: map[string]int64{"k": 0, "R": wd.r}, IntFn: func(s string) (int64, bool) { return 5, strings.HasPrefix(s, "len(") }})
			want := "rune R"
			if wd.wantByte {
				want = "byte RAWBYTE"
			}
			stepOb(c, out, "R19.3", "md.encode step: "+wd.name, termOf(out) == "cut" && len(apps) == 1 && apps[0] == want && out.NextPhi["out"] == "OUT2", fmt.Sprintf("%s appends=%v %s; required [%s]", termOf(out), apps, out.Undecided, want), p.FnPos(enc))
		}
	}
}

// R19.4: line numbers come from line breaks only. The scanner counts lines in next(); nothing else may set the
// line (a "//line file:N" comment, which go/scanner honours, would make diagnostics point away from the text).
func checkLineOnlyFromNext(c *Ctx, p *Prog, rule string) {
	sp := p.SSAPkg("internal/frontend/scanner")
	if sp == nil {
		c.Undecided(rule, "front-end scanner", "package missing")
		return
	}
	var writers []string
	n := 0
	for _, fn := range pkgFunctions(p, sp) {
		for _, b := range fn.Blocks {
			for _, in := range b.Instrs {
				st, ok := in.(*ssa.Store)
				if !ok {
					continue
				}
				fa, ok := st.Addr.(*ssa.FieldAddr)
				if !ok || fieldVar(fa).Name() != "Line" {
					continue
				}
				n++
				if fn.Name() != "next" && fn.Name() != "Init" {
					writers = append(writers, p.FnName(fn)+" at "+p.Pos(in.Pos()))
				}
			}
		}
	}
	if n == 0 {
		c.Undecided(rule, "front-end scanner: line counting", "no store to a Line field found")
		return
	}
	c.Ob(rule, "front-end scanner: the line is set by next() (and Init) only", len(writers) == 0, fmt.Sprintf("other writers: %v; required none — a //line directive inside a grammar (or a code block of a markdown file) must not move the positions of diagnostics", writers))
}

// R19.5: the text between code blocks does not reach the scanner. loadMd keeps positions by overwriting
// prose with blanks; that is the same as leaving the prose out only where a token cannot span it.
func checkProseRemoved(c *Ctx, p *Prog, rule string) {
	fn := p.Func("internal/util/md", "loadMd")
	if fn == nil {
		c.Undecided(rule, "md.loadMd", "function not found")
		return
	}
	blanks := 0
	for _, b := range fn.Blocks {
		for _, in := range b.Instrs {
			if st, ok := in.(*ssa.Store); ok {
				if k, ok := constIntOf(st.Val); ok && k == ' ' {
					blanks++
				}
			}
		}
	}
	c.Ob(rule, "md.loadMd: prose between code blocks is taken out of the text, not blanked", blanks == 0, fmt.Sprintf("%d stores of a space: the prose stays in the text as blanks and line breaks, which a token that may span lines (a raw string terminal, a << >> action, a /* */ comment) takes in when a code block ends inside it", blanks), p.FnPos(fn))
}
