package main

import (
	"fmt"
	"go/constant"
	"go/token"
	"go/types"
	"sort"
	"strings"

	"golang.org/x/tools/go/ssa"
)

func init() { register("C11", "other", runC11) }

var forbiddenCalls = map[string]string{
	"time.Now": "clock", "time.Since": "clock", "time.Until": "clock",
	"os.Getpid": "process identity", "os.Getppid": "process identity", "os.Hostname": "host identity",
	"runtime.NumCPU": "CPU count", "runtime.GOMAXPROCS": "CPU count", "runtime.NumGoroutine": "scheduling",
	"os.Getenv": "environment", "os.Environ": "environment", "os.LookupEnv": "environment",
	"os.CreateTemp": "random name", "os.MkdirTemp": "random name",
}

var forbiddenPkgs = map[string]string{"math/rand": "randomness", "math/rand/v2": "randomness", "crypto/rand": "randomness", "unsafe": "addresses", "reflect": "reflection (map order, addresses)", "sync": "concurrency", "sync/atomic": "concurrency"}

func runC11(c *Ctx) {
	p := c.RepoProg()
	a := newOrderAnalysis(c, p)
	// fixtures are analysed with the program but reported separately
	fixFns := map[*ssa.Function]bool{}
	if sp := p.SSAPkg(fixturePkg); sp != nil {
		for _, m := range sp.Members {
			if f, ok := m.(*ssa.Function); ok && strings.HasPrefix(f.Name(), "C11") {
				fixFns[f] = true
				a.fns = append(a.fns, f)
			}
		}
	}
	a.run()

	// ---- sinks: what order-dependent data / control reaches -------------------------
	type hit struct{ kind, where, detail string }
	hits := map[int][]hit{} // source loop id -> sinks reached
	addHit := func(mask uint64, h hit) {
		for _, lp := range a.allLoops {
			if lp.id >= 0 && mask&(1<<uint(lp.id%64)) != 0 {
				hits[lp.id] = append(hits[lp.id], h)
			}
		}
	}
	nSinks := 0
	fixHits := map[string]bool{}
	for _, fn := range a.fns {
		if _, isW := a.writers[fn]; isW {
			continue
		}
		for _, b := range fn.Blocks {
			for _, in := range b.Instrs {
				switch in := in.(type) {
				case *ssa.Call:
					f := in.Call.StaticCallee()
					if f == nil {
						continue
					}
					pi, di := -1, -1
					if extName(f) == "os.WriteFile" {
						pi, di = 0, 1
					} else if w, ok := a.writers[f]; ok {
						pi, di = w[0], w[1]
					}
					if pi >= 0 {
						nSinks++
						t := a.deepT(in.Call.Args[di])
						suf, known := pathSuffix(in.Call.Args[pi])
						ctl, _ := a.underTaintedControl(in)
						notGo := known && !strings.HasSuffix(suf, ".go")
						bad := !notGo && (!t.clean() || ctl != 0)
						if fixFns[fn] {
							fixHits[fn.Name()] = bad
							continue
						}
						c.Sample(map[string]any{"sink": "file", "in": p.FnName(fn), "file_suffix": suf, "suffix_known": known, "data_taint": t.String(), "under_tainted_control": ctl != 0})
						if bad {
							addHit(t.src|ctl, hit{"file", p.Pos(in.Pos()), fmt.Sprintf("written by %s to %q (data %s, order-dependent control %v)", p.FnName(fn), suf, t, ctl != 0)})
						}
						continue
					}
					if extName(f) == "os.Exit" && !fixFns[fn] {
						nSinks++
						t := a.valT(in.Call.Args[0])
						ctl, _ := a.underTaintedControl(in)
						if !t.clean() || ctl != 0 {
							addHit(t.src|ctl, hit{"exit", p.Pos(in.Pos()), "os.Exit in " + p.FnName(fn) + " depends on iteration order"})
						}
					}
				case *ssa.Panic:
					if fixFns[fn] {
						continue
					}
					if ctl, _ := a.underTaintedControl(in); ctl != 0 {
						addHit(ctl, hit{"panic", p.Pos(in.Pos()), "panic (non-zero exit) in " + p.FnName(fn) + " under order-dependent control"})
					}
				}
			}
		}
	}
	c.Note("R11.1: %d file/exit sinks checked in %d functions", nSinks, len(a.fns))
	if nSinks < 20 {
		c.Undecided("R11.1", "vacuity:sinks", fmt.Sprintf("only %d sinks found", nSinks))
	}

	// ---- R11.1: every unordered loop is classified; its order reaches no sink -----------
	type site struct {
		Fn, Pos, Kind, Idiom, Detail string
		Safe                         bool
		SinksReached                 int
	}
	perFn := map[*ssa.Function]int{}
	var all []*uloop
	all = append(all, a.loops...)
	for _, lps := range a.sliceLp {
		for _, lp := range lps {
			if a.valT(lp.ranged).perm&1 != 0 {
				all = append(all, lp)
			}
		}
	}
	sort.Slice(all, func(i, j int) bool { return all[i].pos < all[j].pos })
	nMap, nLoops := 0, 0
	for _, lp := range all {
		if fixFns[lp.fn] {
			continue
		}
		nLoops++
		perFn[lp.fn]++
		name := fmt.Sprintf("%s#%d(%s)", p.FnName(lp.fn), perFn[lp.fn], lp.kind)
		if lp.kind == "map" {
			nMap++
		}
		hs := hits[lp.id]
		if lp.id < 0 {
			hs = nil
		}
		c.Sample(site{p.FnName(lp.fn), p.Pos(lp.pos), lp.kind, lp.idiom, lp.detail, lp.safe, len(hs)})
		detail := lp.idiom + ": " + lp.detail
		if len(hs) > 0 {
			detail += fmt.Sprintf(" — its iteration order reaches %d sink(s):", len(hs))
			for i, h := range hs {
				if i == 4 {
					detail += " ..."
					break
				}
				detail += fmt.Sprintf(" [%s at %s: %s]", h.kind, h.where, h.detail)
			}
		}
		c.Ob("R11.1", name, len(hs) == 0, detail, p.Pos(lp.pos))
	}
	c.Note("R11.1: %d map-range loops and %d permuted-slice loops classified", nMap, nLoops-nMap)
	if nMap < 14 {
		c.Undecided("R11.1", "vacuity:loops", fmt.Sprintf("only %d map-range loops found (confirmed by hand: 16)", nMap))
	}
	// fixtures
	want := map[string]bool{"C11UnsortedToGo": true, "C11Sorted": false, "C11PermIndex": true, "C11Txt": false, "C11Number": true, "C11Union": false}
	for name, w := range want {
		got, seen := fixHits[name]
		c.Ob("FIX11", name, seen && got == w, fmt.Sprintf("fixture expected flagged=%v, got flagged=%v (seen=%v)", w, got, seen))
	}

	// ---- R11.2: other sources of nondeterminism -------------------------------------
	nCalls := 0
	for _, fn := range a.fns {
		if fixFns[fn] {
			continue
		}
		for _, b := range fn.Blocks {
			for _, in := range b.Instrs {
				switch in := in.(type) {
				case *ssa.Go:
					c.Ob("R11.2", p.FnName(fn)+":go", false, "goroutine started", p.Pos(in.Pos()))
				case *ssa.Select:
					c.Ob("R11.2", p.FnName(fn)+":select", false, "select statement", p.Pos(in.Pos()))
				case *ssa.Send:
					c.Ob("R11.2", p.FnName(fn)+":send", false, "channel send", p.Pos(in.Pos()))
				case *ssa.MakeChan:
					c.Ob("R11.2", p.FnName(fn)+":chan", false, "channel created", p.Pos(in.Pos()))
				case *ssa.UnOp:
					if in.Op == token.ARROW {
						c.Ob("R11.2", p.FnName(fn)+":recv", false, "channel receive", p.Pos(in.Pos()))
					}
				case *ssa.Call:
					nCalls++
					f := in.Call.StaticCallee()
					if f == nil {
						continue
					}
					n := extName(f)
					if why, bad := forbiddenCalls[n]; bad {
						c.Ob("R11.2", p.FnName(fn)+":"+n, false, "call to "+n+" ("+why+")", p.Pos(in.Pos()))
					}
					if f.Pkg != nil {
						if why, bad := forbiddenPkgs[f.Pkg.Pkg.Path()]; bad {
							c.Ob("R11.2", p.FnName(fn)+":"+n, false, "call into "+f.Pkg.Pkg.Path()+" ("+why+")", p.Pos(in.Pos()))
						}
					}
					if strings.HasPrefix(n, "fmt.") {
						checkFmtAddresses(c, a, fn, in)
					}
				}
			}
		}
	}
	c.Ob("R11.2", "summary", true, fmt.Sprintf("%d call sites in %d functions inspected for goroutines, channels, clocks, randomness, environment, address printing", nCalls, len(a.fns)))

	// ---- R11.3: gob payload contains no map; gzip header untouched ----------------------
	checkGob(c, a)

	c.Assumptions = append(c.Assumptions,
		"text/template, go/format, encoding/gob, compress/gzip, sort and fmt are deterministic functions of their inputs (fmt sorts map keys)",
		"explicit-flow taint: a loop's order is assumed not to influence control flow other than through the values the analysis tracks; branch conditions on tainted values are reported",
		"A-pure-1: append/copy inside functions judged pure act on locally built slices",
		"field-based heap abstraction (all instances of a struct field share one taint)")
	c.Trusted = append(c.Trusted, "go/packages, go/ssa, VTA call graph (x/tools v0.50.0)", "the idiom recognisers and taint transfer functions in checker/taint.go")
	c.Explanation = "C11 (determinism) decided structurally: every loop whose order the language leaves open (range over a map, or over a slice that only holds a permutation) is matched against order-insensitive idioms (empty map, all/any, commutative inserts and flags, collect-then-total-sort, collect-as-permutation). Loops that match none are taint sources; an explicit-flow, field-based taint analysis over all reachable module functions shows the taint reaches no generated .go file, no exit status and no branch condition. Goroutines, channels, clocks, randomness, environment reads, address printing and maps inside the gob payload are excluded by enumeration. Not decided: determinism of the standard library packages listed under assumptions."
}

// checkFmtAddresses: no %p, and no operand whose default formatting prints an
// address (pointer below the top level, func, chan, unsafe.Pointer) unless the
// type formats itself.
func checkFmtAddresses(c *Ctx, a *orderAnalysis, fn *ssa.Function, call *ssa.Call) {
	p := a.p
	args := call.Call.Args
	for _, arg := range args {
		if k, ok := arg.(*ssa.Const); ok && k.Value != nil && k.Value.Kind() == constant.String {
			if strings.Contains(constant.StringVal(k.Value), "%p") {
				c.Ob("R11.2", p.FnName(fn)+":%p", false, "format prints an address (%p)", p.Pos(call.Pos()))
			}
		}
		for _, v := range a.varargElems(arg) {
			ty := v.Type()
			if mi, ok := v.(*ssa.MakeInterface); ok {
				ty = mi.X.Type()
			}
			if bad := printsAddress(p, ty, true, 0, map[types.Type]bool{}); bad != "" {
				// only relevant if this text can reach generated output: decided by
				// the taint sinks for order; addresses have no taint source, so
				// report when the enclosing package generates code.
				if strings.Contains(fn.Pkg.Pkg.Path(), "/gen") || fn.Pkg.Pkg.Path() == gomod {
					c.Ob("R11.2", p.FnName(fn)+":addr:"+ty.String(), false, "operand of type "+ty.String()+" prints an address: "+bad, p.Pos(call.Pos()))
				}
			}
		}
	}
}

func hasFormatter(p *Prog, t types.Type) bool {
	for _, T := range []types.Type{t, types.NewPointer(t)} {
		ms := p.SSA.MethodSets.MethodSet(T)
		for i := 0; i < ms.Len(); i++ {
			switch ms.At(i).Obj().Name() {
			case "String", "Error", "Format", "GoString":
				return true
			}
		}
	}
	return false
}

func printsAddress(p *Prog, t types.Type, top bool, depth int, seen map[types.Type]bool) string {
	if depth > 5 || seen[t] {
		return ""
	}
	seen[t] = true
	if hasFormatter(p, t) {
		return ""
	}
	switch u := t.Underlying().(type) {
	case *types.Pointer:
		if top {
			switch u.Elem().Underlying().(type) {
			case *types.Struct, *types.Array, *types.Slice, *types.Map:
				return printsAddress(p, u.Elem(), false, depth+1, seen)
			}
		}
		return "pointer " + t.String()
	case *types.Signature:
		return "func value"
	case *types.Chan:
		return "channel"
	case *types.Basic:
		if u.Kind() == types.UnsafePointer {
			return "unsafe.Pointer"
		}
	case *types.Struct:
		for i := 0; i < u.NumFields(); i++ {
			if s := printsAddress(p, u.Field(i).Type(), false, depth+1, seen); s != "" {
				return "field " + u.Field(i).Name() + ": " + s
			}
		}
	case *types.Slice:
		return printsAddress(p, u.Elem(), false, depth+1, seen)
	case *types.Array:
		return printsAddress(p, u.Elem(), false, depth+1, seen)
	case *types.Map:
		if s := printsAddress(p, u.Key(), false, depth+1, seen); s != "" {
			return s
		}
		return printsAddress(p, u.Elem(), false, depth+1, seen)
	}
	return ""
}

func containsMap(t types.Type, seen map[types.Type]bool) bool {
	if seen[t] {
		return false
	}
	seen[t] = true
	switch u := t.Underlying().(type) {
	case *types.Map:
		return true
	case *types.Pointer:
		return containsMap(u.Elem(), seen)
	case *types.Slice:
		return containsMap(u.Elem(), seen)
	case *types.Array:
		return containsMap(u.Elem(), seen)
	case *types.Struct:
		for i := 0; i < u.NumFields(); i++ {
			if containsMap(u.Field(i).Type(), seen) {
				return true
			}
		}
	case *types.Interface:
		return true // unknown dynamic content
	}
	return false
}

// gobPayloadTypes: concrete types that reach (*gob.Encoder).Encode.
func gobPayloadTypes(a *orderAnalysis) (tys []types.Type, sites []string, unresolved []string) {
	p := a.p
	var trace func(fn *ssa.Function, v ssa.Value, depth int)
	trace = func(fn *ssa.Function, v ssa.Value, depth int) {
		if depth > 4 {
			unresolved = append(unresolved, p.FnName(fn))
			return
		}
		switch x := v.(type) {
		case *ssa.MakeInterface:
			tys = append(tys, x.X.Type())
			sites = append(sites, p.FnName(fn)+": "+x.X.Type().String())
		case *ssa.Parameter:
			idx := -1
			for i, pp := range fn.Params {
				if pp == x {
					idx = i
				}
			}
			n := p.CG.Nodes[fn]
			if n == nil || idx < 0 || len(n.In) == 0 {
				unresolved = append(unresolved, p.FnName(fn))
				return
			}
			for _, e := range n.In {
				if !p.Reach[e.Caller.Func] {
					continue
				}
				args := e.Site.Common().Args
				if idx < len(args) {
					trace(e.Caller.Func, args[idx], depth+1)
				}
			}
		default:
			unresolved = append(unresolved, p.FnName(fn)+":"+v.Name())
		}
	}
	for _, fn := range a.fns {
		for _, b := range fn.Blocks {
			for _, in := range b.Instrs {
				if call, ok := in.(*ssa.Call); ok {
					if f := call.Call.StaticCallee(); f != nil && extName(f) == "(*encoding/gob.Encoder).Encode" {
						trace(fn, call.Call.Args[1], 0)
					}
				}
			}
		}
	}
	return
}

func checkGob(c *Ctx, a *orderAnalysis) {
	p := a.p
	tys, sites, unresolved := gobPayloadTypes(a)
	for _, u := range unresolved {
		c.Undecided("R11.3", "gob payload "+u, "cannot resolve the concrete type passed to gob Encode")
	}
	if len(tys) < 2 {
		c.Undecided("R11.3", "vacuity", fmt.Sprintf("%d gob payload types found, expected the action and goto tables", len(tys)))
	}
	for i, t := range tys {
		c.Ob("R11.3", "gob payload "+sites[i], !containsMap(t, map[types.Type]bool{}), "gob payload type must not contain a map or interface (iteration order / dynamic content)")
	}
	// gzip: only NewWriter / Write / Close / NewReader used; header fields never set
	for _, fn := range a.fns {
		for _, b := range fn.Blocks {
			for _, in := range b.Instrs {
				switch in := in.(type) {
				case *ssa.Call:
					if f := in.Call.StaticCallee(); f != nil && f.Pkg != nil && f.Pkg.Pkg.Path() == "compress/gzip" && f.Name() != "init" {
						n := extName(f)
						ok := n == "compress/gzip.NewWriter" || n == "(*compress/gzip.Writer).Close" || n == "(*compress/gzip.Writer).Write" || n == "compress/gzip.NewReader"
						c.Ob("R11.3", p.FnName(fn)+":"+n, ok, "gzip use restricted to NewWriter/Write/Close (zero header, default level)", p.Pos(in.Pos()))
					}
				case *ssa.Store:
					if fa, ok := in.Addr.(*ssa.FieldAddr); ok {
						if isNamed(fa.X.Type(), "compress/gzip", "Writer") || isNamed(fa.X.Type(), "compress/gzip", "Header") {
							c.Ob("R11.3", p.FnName(fn)+":gzip header", false, "gzip header field written", p.Pos(in.Pos()))
						}
					}
				}
			}
		}
	}
}
