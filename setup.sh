#!/bin/bash
# Builds the checker from /verif/checker using only the module cache on disk.
set -eu
cd "$(dirname "$(readlink -f "$0")")"
export PATH=/opt/veriftools/go1.26.8/bin:$PATH GOFLAGS=-mod=mod GOPROXY=off GOSUMDB=off GOTOOLCHAIN=local GOWORK=off
mkdir -p bin evidence
(cd checker && go build -o ../bin/goccverif.new . && mv -f ../bin/goccverif.new ../bin/goccverif)
echo "built bin/goccverif"
