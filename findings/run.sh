#!/bin/bash
# run.sh <gocc-tree> : reproduces the open findings D22 and D23 (property C01) against a build of the given tree.
# Not a check (the checks are static); kept so that the findings can be re-demonstrated.
export PATH=/opt/veriftools/go1.26.8/bin:$PATH GOFLAGS=-mod=mod GOPROXY=off GOSUMDB=off GOTOOLCHAIN=local GOWORK=off
tree=$(cd "${1:-/repo}" && pwd); here=$(cd "$(dirname "$0")" && pwd)
w=$(mktemp -d); trap 'rm -rf "$w"' EXIT
(cd "$tree" && go build -o "$w/gocc" .) || exit 2
for d in D22 D23; do
  mkdir -p "$w/$d" && cd "$w/$d" && printf 'module d22\n\ngo 1.20\n' > go.mod && cp "$here/$d/g.bnf" . && "$w/gocc" -o out g.bnf >/dev/null || exit 2
  case $d in D22) ins='"a", " a", "ab cd"';; D23) ins='"ab", "aab", "aabab"';; esac
  sed "s|\[\]string{[^}]*}|[]string{$ins}|" "$here/main.go.txt" > main.go
  echo "== $d"; go run .
done
