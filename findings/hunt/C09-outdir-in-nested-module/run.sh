#!/bin/bash
# usage: run.sh <path-to-gocc-source-tree>
# exit 1: property C09 VIOLATED (gocc exits 0, the import paths it wrote do not resolve)
# exit 0: property holds
set -u
export PATH=/opt/veriftools/go1.26.8/bin:$PATH GOFLAGS=-mod=mod GOPROXY=off GOSUMDB=off GOTOOLCHAIN=local GOWORK=off
tree=${1:?usage: run.sh <path-to-gocc-source-tree>}
tree=$(cd "$tree" && pwd)
here=$(cd "$(dirname "$0")" && pwd)
work=$(mktemp -d)
trap 'rm -rf "$work"' EXIT

(cd "$tree" && go build -o "$work/gocc" .) || { echo "cannot build gocc from $tree"; exit 2; }

# Layout: a repository whose root is module "demo" and whose directory tools/ is a
# module of its own ("other").  gocc is run in the root with -o tools/out.
#   $work/repo/go.mod        module demo
#   $work/repo/g.bnf
#   $work/repo/tools/go.mod  module other
#   $work/repo/tools/use.go  imports other/out/lexer, other/out/parser
mkdir -p "$work/repo/tools"
cd "$work/repo"
printf 'module demo\n\ngo 1.24\n' > go.mod
printf 'module other\n\ngo 1.24\n' > tools/go.mod
cp "$here/g.bnf" g.bnf               #  a : 'a' ;   S : a ;

# control: the same command without the nested go.mod must work
mkdir -p "$work/ctl"; (cd "$work/ctl" && printf 'module demo\n\ngo 1.24\n' > go.mod && cp "$here/g.bnf" . \
	&& "$work/gocc" -o tools/out g.bnf >/dev/null 2>&1 && go build ./tools/out/... ) \
	|| { echo "control run (no nested module) failed - environment problem"; exit 2; }

timeout 60 "$work/gocc" -o tools/out g.bnf > gocc.log 2>&1
st=$?
if [ $st -ne 0 ]; then
	echo "gocc exit status $st (refused) -- no claim made, property holds"; cat gocc.log; exit 0
fi
missing=""
for f in token/token.go util/litconv.go lexer/lexer.go parser/parser.go errors/errors.go; do
	[ -f "tools/out/$f" ] || missing="$missing $f"
done
[ -n "$missing" ] && { echo "VIOLATION: status 0 but missing under tools/out:$missing"; exit 1; }

imp=$(sed -n 's/^[ \t]*"\(.*\)\/token"$/\1/p' tools/out/parser/parser.go | head -1)
echo "gocc -o tools/out g.bnf: exit status 0; generated files import \"$imp/token\", \"$imp/errors\""

cp "$here/use.go.txt" tools/use.go
if (cd tools && go build ./... ) > build.log 2>&1; then
	echo "the generated packages build inside module \"other\" -- property holds"
	exit 0
fi
echo "VIOLATION: go build ./... in tools/ (module \"other\", where the packages were written):"
sed 's/^/    /' build.log | head -6
echo "and from the root module \"demo\" the path gocc chose cannot be imported either:"
cat > probe.go <<EOP
package main

import _ "$imp/parser"

func main() {}
EOP
go build . 2>&1 | sed 's/^/    /' | head -4
# informational: with the path of the module that owns the output directory everything builds
grep -rl "\"$imp/" tools/out | xargs sed -i "s#\"$imp/#\"other/out/#"
if (cd tools && go build ./... && go run . ) > fix.log 2>&1; then
	echo "(after rewriting \"$imp/...\" to \"other/out/...\" by hand the same files build and run: $(tail -1 fix.log))"
fi
echo
echo "observed: gocc exits 0 and derives the package path from the module of the WORKING directory"
echo "          (\"$imp\"), although the output directory belongs to module \"other\" (correct: \"other/out\")."
echo "required: (C09) status zero means the packages were written under the requested output directory"
echo "          with import paths that resolve (-o with a directory below the working directory)."
exit 1
