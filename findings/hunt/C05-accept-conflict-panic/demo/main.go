package main

import (
	"fmt"
	"os"
	"reflect"

	"demo/oracle"
	"demo/out/lexer"
	"demo/out/parser"
	"demo/tr"
)

var prods = []oracle.Prod{
	{Lhs: "S", Body: []string{"S", "Opt"}},
	{Lhs: "S", Body: []string{"a"}},
	{Lhs: "Opt", Body: []string{"b"}},
	{Lhs: "Opt", Body: nil},
}

var terms = []string{"a", "b"}

func run(s string) (verdict string, trace []int) {
	tr.Trace = nil
	defer func() {
		if r := recover(); r != nil {
			if _, ok := r.(tr.Overflow); ok {
				verdict, trace = "overflow", tr.Trace
				return
			}
			verdict, trace = fmt.Sprintf("panic: %v", r), tr.Trace
		}
	}()
	if _, err := parser.NewParser().Parse(lexer.NewLexer([]byte(s))); err != nil {
		return "reject", tr.Trace
	}
	return "accept", tr.Trace
}

func main() {
	m := oracle.Build(oracle.New(prods), terms)
	bad := 0
	var rec func(toks []string)
	rec = func(toks []string) {
		s := ""
		for _, t := range toks {
			s += t
		}
		wantV, wantT := m.Run(toks, tr.Limit)
		gotV, gotT := run(s)
		if wantV != gotV || !(len(wantT) == 0 && len(gotT) == 0 || reflect.DeepEqual(wantT, gotT)) {
			bad++
			if bad <= 5 {
				fmt.Printf("MISMATCH input %q: required %s %v; generated parser %s %v\n", s, wantV, wantT, gotV, gotT)
			}
		}
		if len(toks) < 5 {
			for _, t := range terms {
				rec(append(toks[:len(toks):len(toks)], t))
			}
		}
	}
	rec(nil)
	if bad > 0 {
		fmt.Printf("%d inputs differ from the LR(1) machine resolved by shift-first / earliest-production\n", bad)
		os.Exit(1)
	}
	fmt.Println("generated parser agrees with the resolved canonical LR(1) machine on all inputs up to length 5")
}
