// Package oracle is an independent canonical LR(1) construction with the
// resolution rule "shift if any, else lowest production index".
package oracle

import (
	"fmt"
	"sort"
	"strings"
)

type Prod struct {
	Lhs  string
	Body []string
}

type Grammar struct {
	Prods []Prod // index 0 is S' : start
	NT    map[string]bool
}

const EOF = "$"

func New(prods []Prod) *Grammar {
	g := &Grammar{NT: map[string]bool{}}
	g.Prods = append([]Prod{{Lhs: "S'", Body: []string{prods[0].Lhs}}}, prods...)
	for _, p := range g.Prods {
		g.NT[p.Lhs] = true
	}
	return g
}

type item struct {
	p, dot int
	la     string
}

func (g *Grammar) nullableFirst() (map[string]bool, map[string]map[string]bool) {
	nullable := map[string]bool{}
	first := map[string]map[string]bool{}
	for nt := range g.NT {
		first[nt] = map[string]bool{}
	}
	for changed := true; changed; {
		changed = false
		for _, p := range g.Prods {
			allNull := true
			for _, s := range p.Body {
				if g.NT[s] {
					for t := range first[s] {
						if !first[p.Lhs][t] {
							first[p.Lhs][t] = true
							changed = true
						}
					}
					if !nullable[s] {
						allNull = false
						break
					}
				} else {
					if !first[p.Lhs][s] {
						first[p.Lhs][s] = true
						changed = true
					}
					allNull = false
					break
				}
			}
			if allNull && !nullable[p.Lhs] {
				nullable[p.Lhs] = true
				changed = true
			}
		}
	}
	return nullable, first
}

type state struct {
	items []item
	trans map[string]int
}

type Machine struct {
	G      *Grammar
	States []*state
	// Act[state][terminal] = list of candidate actions
	Terms []string
}

func key(items []item) string {
	ss := make([]string, len(items))
	for i, it := range items {
		ss[i] = fmt.Sprintf("%d.%d.%s", it.p, it.dot, it.la)
	}
	sort.Strings(ss)
	return strings.Join(ss, "|")
}

func Build(g *Grammar, terms []string) *Machine {
	nullable, first := g.nullableFirst()
	firstOf := func(syms []string, la string) []string {
		res := map[string]bool{}
		all := true
		for _, s := range syms {
			if g.NT[s] {
				for t := range first[s] {
					res[t] = true
				}
				if !nullable[s] {
					all = false
					break
				}
			} else {
				res[s] = true
				all = false
				break
			}
		}
		if all {
			res[la] = true
		}
		var out []string
		for t := range res {
			out = append(out, t)
		}
		return out
	}
	closure := func(kernel []item) []item {
		seen := map[item]bool{}
		var list []item
		for _, it := range kernel {
			if !seen[it] {
				seen[it] = true
				list = append(list, it)
			}
		}
		for i := 0; i < len(list); i++ {
			it := list[i]
			body := g.Prods[it.p].Body
			if it.dot >= len(body) || !g.NT[body[it.dot]] {
				continue
			}
			B := body[it.dot]
			las := firstOf(body[it.dot+1:], it.la)
			for pi, p := range g.Prods {
				if p.Lhs != B {
					continue
				}
				for _, la := range las {
					n := item{pi, 0, la}
					if !seen[n] {
						seen[n] = true
						list = append(list, n)
					}
				}
			}
		}
		return list
	}
	m := &Machine{G: g, Terms: terms}
	index := map[string]int{}
	s0 := closure([]item{{0, 0, EOF}})
	m.States = append(m.States, &state{items: s0, trans: map[string]int{}})
	index[key(s0)] = 0
	for i := 0; i < len(m.States); i++ {
		st := m.States[i]
		next := map[string][]item{}
		for _, it := range st.items {
			body := g.Prods[it.p].Body
			if it.dot < len(body) {
				next[body[it.dot]] = append(next[body[it.dot]], item{it.p, it.dot + 1, it.la})
			}
		}
		for sym, kern := range next {
			c := closure(kern)
			k := key(c)
			j, ok := index[k]
			if !ok {
				j = len(m.States)
				index[k] = j
				m.States = append(m.States, &state{items: c, trans: map[string]int{}})
			}
			st.trans[sym] = j
		}
	}
	return m
}

// Kinds of resolved action.
const (
	Err = iota
	Shift
	Reduce
	Accept
)

type Act struct {
	Kind int
	N    int
}

// Candidates returns whether a shift is possible, the set of reducible productions (0 = accept).
func (m *Machine) Candidates(s int, t string) (shift bool, reds []int) {
	st := m.States[s]
	seen := map[int]bool{}
	for _, it := range st.items {
		body := m.G.Prods[it.p].Body
		if it.dot < len(body) {
			if body[it.dot] == t {
				shift = true
			}
		} else if it.la == t {
			if !seen[it.p] {
				seen[it.p] = true
				reds = append(reds, it.p)
			}
		}
	}
	sort.Ints(reds)
	return
}

func (m *Machine) Resolve(s int, t string) Act {
	shift, reds := m.Candidates(s, t)
	if shift {
		return Act{Shift, m.States[s].trans[t]}
	}
	if len(reds) == 0 {
		return Act{Err, 0}
	}
	if reds[0] == 0 {
		return Act{Accept, 0}
	}
	return Act{Reduce, reds[0]}
}

// HasAcceptConflict reports whether some state has accept competing with something else.
func (m *Machine) HasAcceptConflict() bool {
	for s := range m.States {
		shift, reds := m.Candidates(s, EOF)
		if len(reds) > 0 && reds[0] == 0 && (shift || len(reds) > 1) {
			return true
		}
	}
	return false
}

func (m *Machine) NumConflictCells() int {
	n := 0
	for s := range m.States {
		for _, t := range append([]string{EOF}, m.Terms...) {
			shift, reds := m.Candidates(s, t)
			c := len(reds)
			if shift {
				c++
			}
			if c > 1 {
				n++
			}
		}
	}
	return n
}

// Run parses the token sequence; returns verdict ("accept", "reject", "overflow") and the trace.
func (m *Machine) Run(toks []string, limit int) (string, []int) {
	stack := []int{0}
	var trace []int
	pos := 0
	for {
		t := EOF
		if pos < len(toks) {
			t = toks[pos]
		}
		a := m.Resolve(stack[len(stack)-1], t)
		switch a.Kind {
		case Err:
			return "reject", trace
		case Accept:
			return "accept", trace
		case Shift:
			stack = append(stack, a.N)
			pos++
		case Reduce:
			p := m.G.Prods[a.N]
			stack = stack[:len(stack)-len(p.Body)]
			trace = append(trace, a.N)
			if len(trace) >= limit {
				return "overflow", trace
			}
			stack = append(stack, m.States[stack[len(stack)-1]].trans[p.Lhs])
		}
	}
}
