package tr

// Trace of reductions performed by a generated parser.
var Trace []int

const Limit = 60

type Overflow struct{}

func R(n int) (interface{}, error) {
	Trace = append(Trace, n)
	if len(Trace) >= Limit {
		panic(Overflow{})
	}
	return nil, nil
}
