#!/bin/sh
# usage: run.sh <path-to-gocc-source-tree>
# exit 1: property C05 violated; exit 0: holds.
set -u
TREE=${1:?usage: run.sh <path-to-gocc-source-tree>}
TREE=$(cd "$TREE" && pwd)
HERE=$(cd "$(dirname "$0")" && pwd)
if [ -d /opt/veriftools/go1.26.8/bin ]; then PATH=/opt/veriftools/go1.26.8/bin:$PATH; fi
export PATH GOFLAGS=-mod=mod GOPROXY=off GOSUMDB=off GOTOOLCHAIN=local GOWORK=off
W=$(mktemp -d)
trap 'rm -rf "$W"' EXIT
(cd "$TREE" && go build -o "$W/gocc" .) || { echo "cannot build gocc"; exit 2; }
cp -r "$HERE/demo" "$W/demo"
cd "$W/demo"
printf 'module demo\n\ngo 1.24\n' > go.mod

status=0
for g in g2.bnf g.bnf; do
	rm -rf out
	echo "== gocc -a -o out $g"
	"$W/gocc" -a -o out $g > gocc.log 2>&1
	rc=$?
	if [ $rc -ne 0 ] || [ ! -f out/parser/actiontable.go ]; then
		echo "OBSERVED: gocc -a exit status $rc, no parser/actiontable.go written:"
		grep -m1 '^panic' gocc.log || head -3 gocc.log
		echo "REQUIRED: with -a the competing actions on end-of-input (accept = reduce by production 0, S' : S,"
		echo "          against reduce by the empty production) are resolved in favour of the earliest production"
		echo "          and a parser is generated."
		status=1
	fi
done
if [ $status -ne 0 ]; then
	echo "VIOLATED"
	exit 1
fi
# gocc produced a parser for g.bnf (left in out/): it must behave like the resolved canonical machine.
if go run . ; then
	echo "HOLDS"
	exit 0
else
	echo "VIOLATED"
	exit 1
fi
