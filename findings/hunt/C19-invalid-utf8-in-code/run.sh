#!/bin/sh
# usage: run.sh <path-to-gocc-source-tree>
# exit 1 = property C19 violated, exit 0 = holds
set -u
export PATH=/opt/veriftools/go1.26.8/bin:$PATH GOFLAGS=-mod=mod GOPROXY=off GOSUMDB=off GOTOOLCHAIN=local GOWORK=off
SRC=${1:?usage: run.sh <gocc source tree>}
HERE=$(cd "$(dirname "$0")" && pwd)
W=$(mktemp -d)
trap 'rm -rf "$W"' EXIT
(cd "$SRC" && go build -o "$W/gocc" .) || { echo "cannot build gocc"; exit 2; }

for k in bnf md; do
	mkdir -p "$W/$k"
	printf 'module demo\ngo 1.24\n' > "$W/$k/go.mod"
	cp "$HERE/main.go" "$W/$k/"
done
# g.bnf is, byte for byte, the content of the single ``` block of g.md
awk '/^```$/ {on = !on; next} on {print}' "$HERE/g.md" > "$W/concat.bnf"
cmp -s "$W/concat.bnf" "$HERE/g.bnf" || { echo "internal error: g.bnf is not the content of the block of g.md"; exit 2; }
cp "$HERE/g.bnf" "$W/bnf/g.bnf"
cp "$HERE/g.md" "$W/md/g.md"

(cd "$W/bnf" && "$W/gocc" -o out g.bnf 2>&1 | sed 's/g\.bnf/<file>/' > gocc.txt; "$W/gocc" -o out2 g.bnf >/dev/null 2>&1; echo "rc=$?" >> gocc.txt)
(cd "$W/md" && "$W/gocc" -o out g.md 2>&1 | sed 's/g\.md/<file>/' > gocc.txt; "$W/gocc" -o out2 g.md >/dev/null 2>&1; echo "rc=$?" >> gocc.txt)

bad=0
if ! cmp -s "$W/bnf/gocc.txt" "$W/md/gocc.txt"; then
	bad=1
	echo "gocc diagnostics / exit status differ:"
	echo "--- gocc g.bnf (= content of the fenced block of g.md)"; cat "$W/bnf/gocc.txt"
	echo "--- gocc g.md"; cat "$W/md/gocc.txt"
fi
nb=$(find "$W/bnf/out" -name '*.go' 2>/dev/null | wc -l)
nm=$(find "$W/md/out" -name '*.go' 2>/dev/null | wc -l)
echo "generated .go files: from g.bnf $nb, from g.md $nm"
if [ "$nb" != "$nm" ]; then
	bad=1
elif ! diff -r "$W/bnf/out" "$W/md/out" >/dev/null 2>&1; then
	bad=1; echo "generated packages differ"
fi
if [ "$nm" != 0 ]; then
	echo "the lexer+parser generated from g.md:"
	(cd "$W/md" && go run . 2>&1 | sed 's/^/    /')
fi
if [ $bad = 1 ]; then
	echo
	echo "VIOLATED: C19 requires gocc on g.md to behave exactly as on the content of its"
	echo "fenced block (g.bnf): same diagnostics, same packages."
	exit 1
fi
echo "holds: g.md and g.bnf are treated alike"
exit 0
