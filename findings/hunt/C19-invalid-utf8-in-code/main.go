package main

import (
	"fmt"

	"demo/out/lexer"
	"demo/out/parser"
)

func main() {
	for _, in := range []string{"\ufffd", "\xff"} {
		_, err := parser.NewParser().Parse(lexer.NewLexer([]byte(in)))
		fmt.Printf("parse %q: accepted=%v\n", in, err == nil)
	}
}
