#!/bin/bash
# usage: run.sh <path-to-gocc-source-tree>
# exit 1 = property C01 violated, 0 = holds, 2 = the demonstration could not be run
set -u
export PATH=/opt/veriftools/go1.26.8/bin:$PATH GOFLAGS=-mod=mod GOPROXY=off GOSUMDB=off GOTOOLCHAIN=local GOWORK=off
SRC=$(cd "${1:?usage: run.sh <gocc source tree>}" && pwd) || exit 2
HERE=$(cd "$(dirname "$0")" && pwd)
WORK=$(mktemp -d) || exit 2
trap 'rm -rf "$WORK"' EXIT
(cd "$SRC" && go build -o "$WORK/gocc" .) || { echo "cannot build gocc"; exit 2; }
mkdir "$WORK/demo" && cd "$WORK/demo" || exit 2
printf 'module demo\n\ngo 1.24\n' > go.mod
cp "$HERE/g.bnf" "$HERE/main.go" .
"$WORK/gocc" -o out g.bnf > gocc.log 2>&1 || { echo "gocc refused the grammar:"; cat gocc.log; exit 2; }
go run .
rc=$?
[ $rc -eq 0 ] && exit 0
[ $rc -eq 1 ] && exit 1
exit 2
