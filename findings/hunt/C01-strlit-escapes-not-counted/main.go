package main

import (
	"fmt"
	"os"

	"demo/out/lexer"
	"demo/out/token"
)

// first returns the type name and text of the first token of src.
func first(src string) (string, string) {
	t := lexer.NewLexer([]byte(src)).Scan()
	return token.TokMap.Id(t.Type), string(t.Lit)
}

func main() {
	// what the Go interpreted string literal of the grammar denotes -> how it is spelled in the grammar
	cases := []struct{ text, spelling string }{
		{"\n", `\n`},
		{"\"", `\"`},
		{"A", `\x41`},
		{"é", `é`},
	}
	violated := false
	for _, c := range cases {
		typ, lit := first(c.text)
		fmt.Printf("literal \"%s\" of the grammar:\n", c.spelling)
		fmt.Printf("  input %-10q -> %s(%q)   required: the literal's token with text %q\n", c.text, typ, lit, c.text)
		if typ == "INVALID" || lit != c.text {
			violated = true
		}
		if c.spelling == c.text {
			continue // control case: no escape sequence in the literal
		}
		vtyp, vlit := first(c.spelling)
		fmt.Printf("  input %-10q -> %s(%q)   required: not this literal (these are %d characters, the literal denotes one)\n",
			c.spelling, vtyp, vlit, len([]rune(c.spelling)))
		if vtyp == c.spelling {
			violated = true
		}
	}
	if violated {
		fmt.Println("VIOLATED: the escape sequences of an interpreted string literal of the syntax part are matched letter by letter (backslash included) instead of as the character they denote")
		os.Exit(1)
	}
	fmt.Println("holds")
}
