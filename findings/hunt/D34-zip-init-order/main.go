package main

import (
	"fmt"
	"strings"

	"demo/out/lexer"
	"demo/out/parser"
)

func one(err error) string {
	if err == nil {
		return "<nil>"
	}
	return strings.ReplaceAll(err.Error(), "\n", " | ")
}

func main() {
	// The sentence "a b" parsed while package parser was being initialised
	// (package-level variable in the grammar's file header).
	fmt.Printf("parse of \"a b\" during package initialisation: result=%v error=%s\n", parser.Default, one(parser.DefaultErr))
	// The same sentence parsed now.
	res, err := parser.NewParser().Parse(lexer.NewLexer([]byte("a b")))
	fmt.Printf("parse of \"a b\" from main:                        result=%v error=%s\n", res, one(err))
}
