package main

import (
	"fmt"
	"os"
	"strings"

	"demo/out/lexer"
	"demo/out/parser"
	"demo/out/token"
	lexer2 "demo/out2/lexer"
	parser2 "demo/out2/parser"
	token2 "demo/out2/token"
)

// ---- grammar 1:  S : INVALID b ;  INVALID : a ;   language { a b } -------------------------

type sliceScanner struct {
	toks []string
	i    int
}

func (s *sliceScanner) Scan() *token.Token {
	if s.i >= len(s.toks) {
		return &token.Token{Type: token.EOF} // end of input, as the generated lexer reports it
	}
	t := s.toks[s.i]
	s.i++
	return &token.Token{Type: token.TokMap.Type(t), Lit: []byte(t)}
}

func first() (bad int) {
	terms := []string{"a", "b"}
	var all [][]string
	var rec func(cur []string)
	rec = func(cur []string) {
		all = append(all, append([]string{}, cur...))
		if len(cur) == 3 {
			return
		}
		for _, t := range terms {
			rec(append(cur, t))
		}
	}
	rec(nil)
	for _, w := range all {
		src := strings.Join(w, " ")
		want := src == "a b"
		_, err1 := parser.NewParser().Parse(&sliceScanner{toks: w})
		_, err2 := parser.NewParser().Parse(lexer.NewLexer([]byte(src)))
		if (err1 == nil) != want || (err2 == nil) != want {
			bad++
			fmt.Printf("VIOLATION (g.bnf) input %-8q sentence=%-5v  Parse(custom Scanner) accepts=%-5v  Parse(generated lexer) accepts=%v\n",
				src, want, err1 == nil, err2 == nil)
			if err2 != nil && want {
				fmt.Printf("          error from the parser: %v\n", strings.ReplaceAll(err2.Error(), "\n", " "))
			}
		}
	}
	fmt.Printf("g.bnf: %d token sequences checked, %d disagree with the grammar; token.EOF=%d, TokMap.Type(\"␚\")=%d\n",
		len(all), bad, token.EOF, token.TokMap.Type("␚"))
	return
}

// ---- grammar 2:  S : INVALID ;  INVALID : a | INVALID a ;   language a+ -----------------------

// countingScanner wraps the generated lexer and gives up after the parser has asked for
// `limit` tokens beyond the end of the input.
type countingScanner struct {
	lex      *lexer2.Lexer
	afterEOF int
	limit    int
}

type gaveUp struct{ n int }

func (s *countingScanner) Scan() *token2.Token {
	tok := s.lex.Scan()
	if tok.Type == token2.EOF {
		s.afterEOF++
		if s.afterEOF > s.limit {
			panic(gaveUp{s.afterEOF})
		}
	}
	return tok
}

func second() (bad int) {
	const limit = 1000000
	for _, src := range []string{"a", "a a a", ""} {
		func() {
			defer func() {
				if r := recover(); r != nil {
					if g, ok := r.(gaveUp); ok {
						bad++
						fmt.Printf("VIOLATION (g2.bnf) input %q: Parse did not return; it had consumed %d end-of-input tokens (and pushed as many parser states) when the test stopped it\n", src, g.n-1)
						return
					}
					panic(r)
				}
			}()
			_, err := parser2.NewParser().Parse(&countingScanner{lex: lexer2.NewLexer([]byte(src)), limit: limit})
			want := src != ""
			if (err == nil) != want {
				bad++
				fmt.Printf("VIOLATION (g2.bnf) input %q sentence=%v accepted=%v\n", src, want, err == nil)
			}
		}()
	}
	return
}

func main() {
	bad := first()
	bad += second()
	if bad > 0 {
		os.Exit(1)
	}
}
