#!/bin/bash
# usage: run.sh <path-to-gocc-source-tree>
# exit 1 = property C02 violated, exit 0 = holds (or gocc refuses the grammars)
set -u
TREE=${1:?usage: run.sh <path-to-gocc-source-tree>}
TREE=$(cd "$TREE" && pwd)
HERE=$(cd "$(dirname "$0")" && pwd)
export PATH=/opt/veriftools/go1.26.8/bin:$PATH GOFLAGS=-mod=mod GOPROXY=off GOSUMDB=off GOTOOLCHAIN=local GOWORK=off
W=$(mktemp -d /tmp/c02-prod-invalid.XXXXXX)
trap 'rm -rf "$W"' EXIT
(cd "$TREE" && go build -o "$W/gocc" .) || { echo "cannot build gocc"; exit 2; }
mkdir "$W/demo" && cd "$W/demo" || exit 2
printf 'module demo\n\ngo 1.24\n' > go.mod
cp "$HERE/g.bnf" "$HERE/g2.bnf" "$HERE/main.go" .
OUT=$("$W/gocc" -o out g.bnf 2>&1); RC=$?
OUT2=$("$W/gocc" -o out2 g2.bnf 2>&1); RC2=$?
[ $RC -eq 0 ] && RC=$RC2
OUT="$OUT$OUT2"
echo "$OUT"
if [ $RC -ne 0 ] || echo "$OUT" | grep -qi conflict; then
	echo "gocc did not process the grammars silently (rc=$RC): property not applicable -> holds"
	exit 0
fi
go run . ; RC=$?
if [ $RC -eq 1 ]; then
	echo 'OBSERVED: g.bnf  (S : INVALID b ; INVALID : a ;)          the only sentence `a b` is rejected'
	echo '          g2.bnf (S : INVALID ; INVALID : a | INVALID a ;)  Parse never returns on `a` / `a a a`: it shifts the end-of-input token for ever'
	echo 'REQUIRED: Parse returns nil iff the sequence is a sentence, and Parse terminates on every token sequence'
	exit 1
fi
[ $RC -eq 0 ] && { echo "property holds for these grammars"; exit 0; }
echo "demo program failed to run (rc=$RC)"; exit 2
