package main

import (
	"fmt"

	"demo/out/lexer"
	"demo/out/parser"
	"demo/out/token"
)

func main() {
	// the terminal symbols of the generated token map
	for i := 0; token.TokMap.Id(token.Type(i)) != "unknown"; i++ {
		fmt.Printf("terminal %d: %q\n", i, token.TokMap.Id(token.Type(i)))
	}
	in := "x =\n= y"
	res, err := parser.NewParser().Parse(lexer.NewLexer([]byte(in)))
	if err != nil {
		fmt.Printf("parse %q: ERROR\n", in)
	} else {
		fmt.Printf("parse %q: ok, value %q\n", in, res)
	}
}
