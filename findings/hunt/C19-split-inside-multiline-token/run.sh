#!/bin/sh
# usage: run.sh <path-to-gocc-source-tree>
# exit 1 = property C19 violated, exit 0 = holds
set -u
export PATH=/opt/veriftools/go1.26.8/bin:$PATH GOFLAGS=-mod=mod GOPROXY=off GOSUMDB=off GOTOOLCHAIN=local GOWORK=off
SRC=${1:?usage: run.sh <gocc source tree>}
HERE=$(cd "$(dirname "$0")" && pwd)
W=$(mktemp -d)
trap 'rm -rf "$W"' EXIT
(cd "$SRC" && go build -o "$W/gocc" .) || { echo "cannot build gocc"; exit 2; }

for k in bnf md; do
	mkdir -p "$W/$k"
	printf 'module demo\ngo 1.24\n' > "$W/$k/go.mod"
	cp "$HERE/main.go" "$W/$k/"
done
# g.bnf is, byte for byte, the concatenation of the contents of the three ``` blocks of g.md
awk '/^```$/ {on = !on; next} on {print}' "$HERE/g.md" > "$W/concat.bnf"
cmp -s "$W/concat.bnf" "$HERE/g.bnf" || { echo "internal error: g.bnf is not the concatenation of the blocks of g.md"; exit 2; }
cp "$HERE/g.bnf" "$W/bnf/g.bnf"
cp "$HERE/g.md" "$W/md/g.md"

(cd "$W/bnf" && "$W/gocc" -o out g.bnf > gocc.txt 2>&1; echo "rc=$?" >> gocc.txt)
(cd "$W/md" && "$W/gocc" -o out g.md > gocc.txt 2>&1; echo "rc=$?" >> gocc.txt)
(cd "$W/bnf" && go run . > prog.txt 2>&1)
(cd "$W/md" && go run . > prog.txt 2>&1)

bad=0
if ! diff -r "$W/bnf/out" "$W/md/out" > "$W/pkgdiff.txt" 2>&1; then
	bad=1
	echo "generated packages differ in: $(grep -c '^diff ' "$W/pkgdiff.txt") file(s):"
	grep '^diff ' "$W/pkgdiff.txt" | sed 's/^/    /'
fi
if ! cmp -s "$W/bnf/gocc.txt" "$W/md/gocc.txt"; then
	bad=1
	echo "gocc output differs:"; echo "--- g.bnf"; cat "$W/bnf/gocc.txt"; echo "--- g.md"; cat "$W/md/gocc.txt"
fi
if ! cmp -s "$W/bnf/prog.txt" "$W/md/prog.txt"; then
	bad=1
	echo "behaviour of the generated lexer+parser differs:"
	echo "--- generated from g.bnf (= concatenation of the fenced blocks of g.md)"; cat "$W/bnf/prog.txt"
	echo "--- generated from g.md"; cat "$W/md/prog.txt"
fi
if [ $bad = 1 ]; then
	echo
	echo "VIOLATED: C19 requires gocc on g.md to generate the same packages as on the"
	echo "concatenation of the contents of its fenced blocks (g.bnf)."
	exit 1
fi
echo "holds: g.md and g.bnf generate identical packages with identical behaviour"
exit 0
