package main

import (
	"fmt"
	"os"

	"demo/out/lexer"
	"demo/out/parser"
	"demo/out/token"
)

var bad = 0

func check(ok bool, format string, args ...interface{}) {
	if ok {
		fmt.Printf("ok    "+format+"\n", args...)
	} else {
		bad++
		fmt.Printf("WRONG "+format+"\n", args...)
	}
}

func accepts(src string) bool {
	_, err := parser.NewParser().Parse(lexer.NewLexer([]byte(src)))
	return err == nil
}

func main() {
	// The terminals of the grammar are: id, and the syntax-part string literal "A".
	// Property: every terminal has its own number >= 2, Type and Id are mutually inverse.
	tA := token.TokMap.Type("A")
	tId := token.TokMap.Type("id")
	fmt.Printf("TokMap.Type(\"A\") = %d, TokMap.Type(\"id\") = %d\n", tA, tId)
	check(tA != token.INVALID, "the string literal \"A\" is a terminal, so TokMap.Type(\"A\") must not be INVALID (got %d)", tA)
	check(tA >= 2 && tA != tId, "\"A\" must have a number >= 2 distinct from id's (A=%d id=%d)", tA, tId)
	check(token.TokMap.Id(tA) == "A", "Id(Type(\"A\")) must be \"A\" (got %q)", token.TokMap.Id(tA))

	// The lexer recognises the text "A" as a token of its own (it is one lexeme, not garbage),
	// and must emit the number of the terminal "A".
	l := lexer.NewLexer([]byte("A x"))
	tok := l.Scan()
	fmt.Printf("lexer on \"A x\": first token Type=%d Lit=%q\n", tok.Type, tok.Lit)
	check(string(tok.Lit) == "A" && tok.Type != token.INVALID && token.TokMap.Id(tok.Type) == "A",
		"lexer must emit the number of terminal \"A\" for the text A (got Type=%d named %q)", tok.Type, token.TokMap.Id(tok.Type))

	// Consequence for the parser: its column for "A" does not exist.
	check(accepts("A x"), "parser must accept \"A x\"   (S : \"A\" A ; A : id)")
	check(!accepts("x y"), "parser must reject \"x y\"   (not in the language)")

	if bad > 0 {
		fmt.Printf("VIOLATED: %d checks failed\n", bad)
		os.Exit(1)
	}
	fmt.Println("property holds")
}
