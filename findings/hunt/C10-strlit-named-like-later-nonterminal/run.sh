#!/bin/sh
# usage: run.sh <path-to-gocc-source-tree>
# exit 1 = property C10 violated, 0 = holds, 2 = set-up problem
set -u
SRC=${1:?usage: run.sh <path-to-gocc-source-tree>}
SRC=$(cd "$SRC" && pwd) || exit 2
HERE=$(cd "$(dirname "$0")" && pwd)
export PATH=/opt/veriftools/go1.26.8/bin:$PATH GOFLAGS=-mod=mod GOPROXY=off GOSUMDB=off GOTOOLCHAIN=local GOWORK=off
W=$(mktemp -d) || exit 2
trap 'rm -rf "$W"' EXIT
(cd "$SRC" && go build -o "$W/gocc" .) || { echo "cannot build gocc"; exit 2; }
mkdir "$W/demo" && cd "$W/demo" || exit 2
printf 'module demo\n\ngo 1.24\n' > go.mod
cp "$HERE/g.bnf" "$HERE/main.go" .
"$W/gocc" -o out g.bnf > gocc.log 2>&1
rc=$?
cat gocc.log
if [ $rc -ne 0 ]; then
	echo "gocc rejected the grammar (exit $rc): no generated code, property not violated"
	exit 0
fi
echo "gocc accepted the grammar (exit 0). Generated TokMap:"
sed -n '/^var TokMap/,$p' out/token/token.go
go run . ; rc=$?
if [ $rc -eq 1 ]; then
	echo "RESULT: C10 VIOLATED - the syntax-part string literal \"A\" has no token number; the lexer emits 0 (INVALID) for it and the parser has no column for it"
	exit 1
elif [ $rc -ne 0 ]; then
	echo "demo program failed to build/run (rc=$rc)"; exit 2
fi
exit 0
