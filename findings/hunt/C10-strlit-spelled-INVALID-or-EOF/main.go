package main

import (
	"fmt"
	"os"

	ilexer "demo/inv/lexer"
	iparser "demo/inv/parser"
	itoken "demo/inv/token"

	elexer "demo/eof/lexer"
	eparser "demo/eof/parser"
	etoken "demo/eof/token"
)

var bad = 0

func check(ok bool, format string, args ...interface{}) {
	if ok {
		fmt.Printf("ok    "+format+"\n", args...)
	} else {
		bad++
		fmt.Printf("WRONG "+format+"\n", args...)
	}
}

func main() {
	fmt.Println("--- invalid.bnf:  S : \"VALID\" id | \"INVALID\" id ;")
	// terminals of the grammar: id, "VALID", "INVALID". Property: INVALID is 0, end-of-input is 1,
	// and every terminal of the grammar has its own number, distinct from those.
	tk := itoken.TokMap.Type("INVALID")
	check(tk != itoken.INVALID, "the terminal \"INVALID\" (a string literal of the grammar) must have a number distinct from the INVALID token 0 (got %d)", tk)
	l := ilexer.NewLexer([]byte("INVALID x"))
	t1 := l.Scan()
	l = ilexer.NewLexer([]byte("# x"))
	t2 := l.Scan()
	fmt.Printf("lexer: keyword INVALID -> Type=%d Lit=%q ; garbage '#' -> Type=%d Lit=%q\n", t1.Type, t1.Lit, t2.Type, t2.Lit)
	check(t2.Type == itoken.INVALID, "an unrecognised character is an INVALID token (Type 0)")
	check(t1.Type != t2.Type, "the keyword INVALID and an unrecognised character must have different token numbers (both are %d)", t1.Type)
	_, err := iparser.NewParser().Parse(ilexer.NewLexer([]byte("INVALID x")))
	check(err == nil, "parser must accept \"INVALID x\", a sentence of the grammar (err=%v)", err)

	fmt.Println("--- eof.bnf:  S : id \"␚\" ;")
	te := etoken.TokMap.Type("␚")
	check(te != etoken.EOF, "the terminal \"␚\" (a string literal of the grammar) must have a number distinct from end-of-input 1 (got %d)", te)
	le := elexer.NewLexer([]byte("x ␚ y"))
	le.Scan()
	t3 := le.Scan()
	fmt.Printf("lexer on \"x ␚ y\": second token Type=%d Lit=%q, EOF=%d\n", t3.Type, t3.Lit, etoken.EOF)
	check(t3.Type != etoken.EOF, "the lexer must not emit the end-of-input number in the middle of the input")
	_, err = eparser.NewParser().Parse(elexer.NewLexer([]byte("x")))
	check(err != nil, "parser must reject \"x\" (the required character U+241A is missing)")

	if bad > 0 {
		fmt.Printf("VIOLATED: %d checks failed\n", bad)
		os.Exit(1)
	}
	fmt.Println("property holds")
}
