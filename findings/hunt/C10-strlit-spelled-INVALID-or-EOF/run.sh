#!/bin/sh
# usage: run.sh <path-to-gocc-source-tree>
# exit 1 = property C10 violated, 0 = holds, 2 = set-up problem
set -u
SRC=${1:?usage: run.sh <path-to-gocc-source-tree>}
SRC=$(cd "$SRC" && pwd) || exit 2
HERE=$(cd "$(dirname "$0")" && pwd)
export PATH=/opt/veriftools/go1.26.8/bin:$PATH GOFLAGS=-mod=mod GOPROXY=off GOSUMDB=off GOTOOLCHAIN=local GOWORK=off
W=$(mktemp -d) || exit 2
trap 'rm -rf "$W"' EXIT
(cd "$SRC" && go build -o "$W/gocc" .) || { echo "cannot build gocc"; exit 2; }
mkdir "$W/demo" && cd "$W/demo" || exit 2
printf 'module demo\n\ngo 1.24\n' > go.mod
cp "$HERE/invalid.bnf" "$HERE/eof.bnf" "$HERE/main.go" .
for g in inv:invalid.bnf eof:eof.bnf; do
	d=${g%%:*}; f=${g##*:}
	"$W/gocc" -o $d $f > gocc.log 2>&1
	rc=$?
	cat gocc.log
	if [ $rc -ne 0 ]; then
		echo "gocc rejected $f (exit $rc): no generated code, property not violated by it"
		exit 0
	fi
	echo "gocc accepted $f (exit 0). Generated typeMap:"
	sed -n '/^var TokMap/,/^	},/p' $d/token/token.go
done
go run . ; rc=$?
if [ $rc -eq 1 ]; then
	echo "RESULT: C10 VIOLATED - a string-literal terminal spelled INVALID (or U+241A) is given the reserved number 0 (or 1) instead of a number of its own"
	exit 1
elif [ $rc -ne 0 ]; then
	echo "demo program failed to build/run (rc=$rc)"; exit 2
fi
exit 0
