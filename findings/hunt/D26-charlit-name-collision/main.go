package main

import (
	"fmt"
	"os"

	"demo/out/lexer"
	"demo/out/token"
)

// Prints the token stream of os.Args[1], one "id<TAB>lexeme" per line.
func main() {
	l := lexer.NewLexer([]byte(os.Args[1]))
	for {
		t := l.Scan()
		if t.Type == token.EOF {
			return
		}
		fmt.Printf("%s\t%s\n", token.TokMap.Id(t.Type), t.Lit)
	}
}
