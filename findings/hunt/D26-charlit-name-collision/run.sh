#!/bin/sh
# usage: run.sh <path-to-gocc-source-tree>
# exit 1 = property C20 violated, exit 0 = holds, exit 2 = could not run.
export PATH=/opt/veriftools/go1.26.8/bin:$PATH GOFLAGS=-mod=mod GOPROXY=off GOSUMDB=off GOTOOLCHAIN=local GOWORK=off
here=$(cd "$(dirname "$0")" && pwd)
src=$(cd "${1:?usage: run.sh <gocc source tree>}" && pwd) || exit 2
work=$(mktemp -d) || exit 2
trap 'rm -rf "$work"' EXIT

(cd "$src" && go build -o "$work/gocc" .) || { echo "cannot build gocc from $src"; exit 2; }

# $1 = grammar file, $2 = input; prints the token stream of the generated lexer
tokens() {
	d="$work/$(basename "$1" .bnf)"
	mkdir -p "$d" && cp "$1" "$d/g.bnf" && cp "$here/main.go" "$d/main.go" || exit 2
	printf 'module demo\n\ngo 1.24\n' > "$d/go.mod"
	(cd "$d" && "$work/gocc" -o out g.bnf >gocc.log 2>&1) || { cat "$d/gocc.log"; echo "gocc failed on $1"; exit 2; }
	(cd "$d" && go run . "$2") || { echo "generated lexer did not run"; exit 2; }
}

in="'ab"
sanity=$(tokens "$here/g.bnf" "ab")
got=$(tokens "$here/g.bnf" "$in")
ctl=$(tokens "$here/control.bnf" "$in")

echo "grammar g.bnf      : x : 'a' 'b' ;  S : \"'a'\" x ;"
echo "grammar control.bnf: x : 'a' 'b' ;  S : \"'c'\" x ;"
echo "tokens of  ab   with g.bnf      : $(echo "$sanity" | tr '\n\t' ' :')"
echo "tokens of  $in  with g.bnf      : $(echo "$got" | tr '\n\t' ' :')"
echo "tokens of  $in  with control.bnf: $(echo "$ctl" | tr '\n\t' ' :')"

if [ "$sanity" != "$(printf 'x\tab')" ]; then
	echo "unexpected: 'ab' is not token x; demonstration not applicable"; exit 2
fi
if printf '%s\n' "$got" | grep -q "^x	'ab\$"; then
	echo "VIOLATED: the rune literal 'a' in  x : 'a' 'b'  must be read as the code point U+0061 only,"
	echo "          so the only lexeme of x is \"ab\"; but the generated lexer returns token x for the"
	echo "          three-rune input  'ab  (U+0027 U+0061 U+0062). The literal was also taken as a"
	echo "          reference to the lexical production named 'a' (the string-literal terminal \"'a'\")."
	exit 1
fi
echo "HOLDS: $in is not lexed as one x token"
exit 0
