#!/bin/bash
# usage: run.sh <path-to-gocc-source-tree>
# exit 1: property C12 violated (the parser generated with -zip does not compile,
# the one generated without flags does); exit 0: holds.
set -u
export PATH=/opt/veriftools/go1.26.8/bin:$PATH GOFLAGS=-mod=mod GOPROXY=off GOSUMDB=off GOTOOLCHAIN=local GOWORK=off
SRC=$(cd "${1:?usage: run.sh <gocc source tree>}" && pwd)
HERE=$(cd "$(dirname "$0")" && pwd)
TMP=$(mktemp -d)
trap 'rm -rf "$TMP"' EXIT

(cd "$SRC" && go build -o "$TMP/gocc" .) || { echo "cannot build gocc"; exit 2; }

gen_and_run() { # $1 = dir name, rest = gocc flags; result.txt holds the program's output or the build failure
	local d="$TMP/$1"; shift
	mkdir -p "$d" && cd "$d" || exit 2
	printf 'module demo\n\ngo 1.24\n' > go.mod
	cp "$HERE/g.bnf" "$HERE/main.go" .
	"$TMP/gocc" "$@" -o out g.bnf > gocc.log 2>&1 || { echo "gocc $* failed:"; cat gocc.log; exit 2; }
	if ! go run . > result.txt 2> build.log; then
		{ echo "DOES NOT BUILD:"; cat build.log; } > result.txt
	fi
}

gen_and_run plain
gen_and_run zip -zip

echo "--- generated without flags:"; cat "$TMP/plain/result.txt"
echo "--- generated with -zip:";     cat "$TMP/zip/result.txt"

if grep -q "DOES NOT BUILD" "$TMP/plain/result.txt"; then
	echo "inconclusive: the parser generated without flags does not build either"; exit 2
fi
if cmp -s "$TMP/plain/result.txt" "$TMP/zip/result.txt"; then
	echo "HOLDS: the parser generated with -zip behaves like the one generated without."
	exit 0
fi
echo "VIOLATED: C12 requires the parser generated with -zip to recognise the same sentences and return"
echo "the same results as the one generated without it; for this grammar the parser generated without"
echo "flags parses \"a b\", the one generated with -zip is not a valid Go package."
exit 1
