package main

import (
	"fmt"

	"demo/out/lexer"
	"demo/out/parser"
)

func main() {
	res, err := parser.NewParser().Parse(lexer.NewLexer([]byte("a b")))
	fmt.Printf("parse of \"a b\": result=%v error=%v\n", res, err)
}
