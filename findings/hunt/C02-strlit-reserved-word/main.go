package main

import (
	"fmt"
	"os"
	"strings"

	"demo/out/lexer"
	"demo/out/parser"
	"demo/out/token"
	lexer2 "demo/out2/lexer"
	parser2 "demo/out2/parser"
	token2 "demo/out2/token"
)

// second grammar:   Status : "VALID" | "INVALID" ;   language { VALID , INVALID }
type sliceScanner2 struct {
	toks []string
	i    int
}

func (s *sliceScanner2) Scan() *token2.Token {
	if s.i >= len(s.toks) {
		return &token2.Token{Type: token2.EOF}
	}
	t := s.toks[s.i]
	s.i++
	return &token2.Token{Type: token2.TokMap.Type(t), Lit: []byte(t)}
}

func second() (bad int) {
	sent := map[string]bool{"VALID": true, "INVALID": true}
	for _, w := range [][]string{{}, {"VALID"}, {"INVALID"}, {"VALID", "VALID"}, {"VALID", "INVALID"}, {"INVALID", "VALID"}, {"INVALID", "INVALID"}} {
		src := strings.Join(w, " ")
		want := sent[src]
		_, err1 := parser2.NewParser().Parse(&sliceScanner2{toks: w})
		_, err2 := parser2.NewParser().Parse(lexer2.NewLexer([]byte(src)))
		if (err1 == nil) != want || (err2 == nil) != want {
			bad++
			fmt.Printf("VIOLATION (g2) input %-12q sentence=%-5v  Parse(custom Scanner) accepts=%-5v  Parse(generated lexer) accepts=%v\n",
				src, want, err1 == nil, err2 == nil)
		}
	}
	return
}

// The grammar is   Stmt : "empty" ";" | "x" ";" ;
// Its language is exactly { empty ; , x ; }.
var sentences = map[string]bool{"empty ;": true, "x ;": true}

// sliceScanner delivers a token sequence directly through the Scanner interface.
type sliceScanner struct {
	toks []string
	i    int
}

func (s *sliceScanner) Scan() *token.Token {
	if s.i >= len(s.toks) {
		return &token.Token{Type: token.EOF}
	}
	t := s.toks[s.i]
	s.i++
	return &token.Token{Type: token.TokMap.Type(t), Lit: []byte(t)}
}

func main() {
	terms := []string{"empty", ";", "x"}
	for _, t := range terms {
		if token.TokMap.Type(t) == token.INVALID {
			fmt.Printf("terminal %q has no token type\n", t)
		}
	}
	// all token sequences of length <= 3 over the grammar's terminals
	var all [][]string
	var rec func(cur []string)
	rec = func(cur []string) {
		all = append(all, append([]string{}, cur...))
		if len(cur) == 3 {
			return
		}
		for _, t := range terms {
			rec(append(cur, t))
		}
	}
	rec(nil)

	bad := 0
	for _, w := range all {
		src := strings.Join(w, " ")
		want := sentences[src]
		_, err1 := parser.NewParser().Parse(&sliceScanner{toks: w})
		_, err2 := parser.NewParser().Parse(lexer.NewLexer([]byte(src)))
		if (err1 == nil) != want || (err2 == nil) != want {
			bad++
			fmt.Printf("VIOLATION input %-12q sentence=%-5v  Parse(custom Scanner) accepts=%-5v  Parse(generated lexer) accepts=%v\n",
				src, want, err1 == nil, err2 == nil)
		}
	}
	fmt.Printf("g.bnf: %d token sequences checked, %d disagree with the grammar\n", len(all), bad)
	bad += second()
	if bad > 0 {
		os.Exit(1)
	}
}
