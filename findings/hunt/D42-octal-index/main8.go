package main

import (
	"fmt"
	"os"

	"demo/out/lexer"
	"demo/out/parser"
)

func main() {
	res, err := parser.NewParser().Parse(lexer.NewLexer([]byte("a b c d e f g h i j k l")))
	if err != nil {
		fmt.Println("unexpected parse error:", err)
		os.Exit(2)
	}
	fmt.Printf("  $T08   observed attribute of %q, required \"i\"\n", res)
	if res.(string) != "i" {
		os.Exit(1)
	}
}
