package main

import (
	"fmt"
	"os"

	"demo/out/lexer"
	"demo/out/parser"
)

func main() {
	res, err := parser.NewParser().Parse(lexer.NewLexer([]byte("a b c d e f g h i j k l")))
	if err != nil {
		fmt.Println("unexpected parse error:", err)
		os.Exit(2)
	}
	got := res.([]string)
	// $10 / $010, $T11 / $T011, $T7 / $T07
	want := []string{"k", "k", "l", "l", "h", "h"}
	names := []string{"$10", "$010", "$T11", "$T011", "$T7", "$T07"}
	bad := false
	for n := range want {
		mark := "ok"
		if got[n] != want[n] {
			mark = "WRONG"
			bad = true
		}
		fmt.Printf("  %-6s observed attribute of %q, required %q  %s\n", names[n], got[n], want[n], mark)
	}
	if bad {
		os.Exit(1)
	}
}
