#!/bin/sh
# usage: run.sh <path-to-gocc-source-tree>
# exit 1: property C03 violated, exit 0: holds, exit 2: could not run
if [ -d /opt/veriftools/go1.26.8/bin ]; then PATH=/opt/veriftools/go1.26.8/bin:$PATH; fi
export PATH GOFLAGS=-mod=mod GOPROXY=off GOSUMDB=off GOTOOLCHAIN=local GOWORK=off
[ $# -eq 1 ] || { echo "usage: $0 <gocc source tree>"; exit 2; }
SRC=$(cd "$1" && pwd) || exit 2
HERE=$(cd "$(dirname "$0")" && pwd)
W=$(mktemp -d) || exit 2
trap 'rm -rf "$W"' EXIT

(cd "$SRC" && go build -o "$W/gocc" .) || { echo "cannot build gocc"; exit 2; }

violated=0

# --- part 1: $010 / $T011 -------------------------------------------------
mkdir "$W/p1" && cd "$W/p1" || exit 2
printf 'module demo\n\ngo 1.24\n' > go.mod
cp "$HERE/g.bnf" "$HERE/main.go" .
"$W/gocc" -o out g.bnf >gocc.log 2>&1 || { cat gocc.log; echo "gocc refused the grammar"; exit 2; }
echo "generated reduce function:"
grep -n 'X\[0*1[01]\]' out/parser/productionstable.go | grep -v 'String:' | sed 's/^/  /'
echo "input: a b c d e f g h i j k l   (symbol 8 = i, 9 = j, 10 = k, 11 = l)"
go run . ; rc=$?
case $rc in
0) ;;
1) violated=1
   echo "VIOLATED: \$010 and \$T011 denote the attribute of body symbols 8 and 9, not 10 and 11" ;;
*) echo "demonstration 1 failed to run"; exit 2 ;;
esac

# --- part 2: $08 ------------------------------------------------------------
mkdir "$W/p2" && cd "$W/p2" || exit 2
printf 'module demo\n\ngo 1.24\n' > go.mod
cp "$HERE/g8.bnf" g.bnf; cp "$HERE/main8.go" main.go
"$W/gocc" -o out g.bnf >gocc.log 2>&1 || { cat gocc.log; echo "gocc refused the grammar"; exit 2; }
if go build -o demo8 . >build.log 2>&1; then
	./demo8 || { violated=1; echo "VIOLATED: \$T08 is not the attribute of body symbol 8"; }
else
	violated=1
	sed 's/^/  /' build.log
	echo "VIOLATED: gocc accepted the action << string(\$T08.Lit), nil >> without a word, but the parser it generated does not compile, so no Parse result exists"
fi

if [ $violated -eq 1 ]; then
	echo "RESULT: property C03 violated (required: \$i / \$Ti denote the attribute of the i-th body symbol)"
	exit 1
fi
echo "RESULT: property holds"
exit 0
