#!/bin/sh
# usage: run.sh <path-to-gocc-source-tree>
# exit 1 = property C16 violated, 0 = holds, 2 = could not run the demonstration
set -u
SRC=${1:?usage: run.sh <path-to-gocc-source-tree>}
SRC=$(cd "$SRC" && pwd) || exit 2
HERE=$(cd "$(dirname "$0")" && pwd)
export PATH=/opt/veriftools/go1.26.8/bin:$PATH GOFLAGS=-mod=mod GOPROXY=off GOSUMDB=off GOTOOLCHAIN=local GOWORK=off

W=$(mktemp -d) || exit 2
trap 'rm -rf "$W"' EXIT

(cd "$SRC" && go build -o "$W/gocc" .) || { echo "cannot build gocc"; exit 2; }

mkdir "$W/demo" && cd "$W/demo" || exit 2
printf 'module demo\n\ngo 1.24\n' > go.mod
cp "$HERE/g.bnf" "$HERE/main.go" .
"$W/gocc" -o out g.bnf >gocc.log 2>&1 || { cat gocc.log; echo "gocc failed"; exit 2; }
go build -o demo.exe . || { echo "generated code does not build"; exit 2; }
./demo.exe
rc=$?
case $rc in
0|1) exit $rc ;;
*) exit 2 ;;
esac
