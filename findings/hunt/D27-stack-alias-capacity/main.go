package main

import (
	"fmt"
	"os"
	"strings"

	"demo/out/lexer"
	"demo/out/parser"
	"demo/out/token"
)

// show renders a parse result ([]parser.Attrib holding one *token.Token).
func show(res interface{}, err error) string {
	if err != nil {
		return "error: " + strings.ReplaceAll(err.Error(), "\n", " ")
	}
	l, ok := res.([]parser.Attrib)
	if !ok {
		return fmt.Sprintf("%T %v", res, res)
	}
	var sb strings.Builder
	sb.WriteString("[")
	for i, e := range l {
		if i > 0 {
			sb.WriteString(" ")
		}
		if t, ok := e.(*token.Token); ok {
			fmt.Fprintf(&sb, "%s@%d", t.Lit, t.Pos.Offset)
		} else {
			fmt.Fprintf(&sb, "%T", e)
		}
	}
	sb.WriteString("]")
	return sb.String()
}

func input(k int) []byte {
	return []byte("a b c" + strings.Repeat(" y", k))
}

func main() {
	// The input under test: a b c followed by 120 y.  While the y are shifted
	// the parser stack grows beyond iNITIAL_STACK_SIZE (100) entries.
	test := input(120)

	violated := false
	report := func(history string, p *parser.Parser) {
		fresh := show(parser.NewParser().Parse(lexer.NewLexer(test)))
		used := show(p.Parse(lexer.NewLexer(test)))
		status := "same"
		if fresh != used {
			status = "DIFFERENT"
			violated = true
		}
		fmt.Printf("history: %-46s fresh parser -> %-10s used parser -> %-10s %s\n", history, fresh, used, status)
	}

	// history 0: nothing (control)
	report("none (control)", parser.NewParser())

	// history 1: the same short input, successfully parsed
	p := parser.NewParser()
	p.Parse(lexer.NewLexer(test))
	report("the same input once, succeeded", p)

	// history 2: one longer input, successfully parsed
	p = parser.NewParser()
	if _, err := p.Parse(lexer.NewLexer(input(300))); err != nil {
		fmt.Println("unexpected:", err)
		os.Exit(2)
	}
	report("one longer input (300 y), succeeded", p)

	// history 3: one longer input that fails with a syntax error
	p = parser.NewParser()
	if _, err := p.Parse(lexer.NewLexer([]byte("a b c" + strings.Repeat(" y", 300) + " a"))); err == nil {
		fmt.Println("unexpected: no error")
		os.Exit(2)
	}
	report("one longer input (300 y, then a), failed", p)

	// Additional observation (same root cause, does not influence the exit
	// status): a result obtained earlier is rewritten by a later Parse on the
	// same parser object, but not when the later Parse uses a fresh parser.
	short, next := []byte("a b c y"), []byte("a b c y y y")
	p = parser.NewParser()
	r1, e1 := p.Parse(lexer.NewLexer(short))
	before := show(r1, e1)
	parser.NewParser().Parse(lexer.NewLexer(next))
	afterFresh := show(r1, e1)
	p.Parse(lexer.NewLexer(next))
	afterUsed := show(r1, e1)
	fmt.Printf("note: result of Parse(%q) = %s; after parsing %q with a fresh parser it is %s, after parsing it with the same parser it is %s\n",
		short, before, next, afterFresh, afterUsed)

	if violated {
		fmt.Println("VIOLATED: Parse on an already used parser returned a different result than a freshly created parser for the same input")
		os.Exit(1)
	}
	fmt.Println("holds: used and fresh parsers agree")
}
