#!/bin/sh
# usage: run.sh <path-to-gocc-source-tree>
# exit 1 = property C19 violated, exit 0 = holds
set -u
export PATH=/opt/veriftools/go1.26.8/bin:$PATH GOFLAGS=-mod=mod GOPROXY=off GOSUMDB=off GOTOOLCHAIN=local GOWORK=off
SRC=${1:?usage: run.sh <gocc source tree>}
HERE=$(cd "$(dirname "$0")" && pwd)
W=$(mktemp -d)
trap 'rm -rf "$W"' EXIT
(cd "$SRC" && go build -o "$W/gocc" .) || { echo "cannot build gocc"; exit 2; }
printf 'module demo\ngo 1.24\n' > "$W/go.mod"
cp "$HERE/g.md" "$W/"
# the offending text is the second ':' of "S : a a : ;"
want=$(awk '/^S : a a : ;$/ {print NR ":9"}' "$HERE/g.md")
out=$(cd "$W" && "$W/gocc" -o out g.md 2>&1)
got=$(printf '%s\n' "$out" | sed -n 's/.*@ \([0-9]*:[0-9]*\).*/\1/p' | head -1)
echo "gocc g.md: $out"
echo "position of the offending ':' in g.md: $want   position in the diagnostic: $got"
if [ "$got" != "$want" ]; then
	echo "VIOLATED: C19 requires diagnostics to carry the line and column the offending text has in the markdown file"
	exit 1
fi
echo "holds"
exit 0
