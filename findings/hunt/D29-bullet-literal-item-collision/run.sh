#!/bin/sh
# usage: run.sh <path-to-gocc-source-tree>
# exit 1: property C05 violated; exit 0: holds.
set -u
TREE=${1:?usage: run.sh <path-to-gocc-source-tree>}
TREE=$(cd "$TREE" && pwd)
HERE=$(cd "$(dirname "$0")" && pwd)
if [ -d /opt/veriftools/go1.26.8/bin ]; then PATH=/opt/veriftools/go1.26.8/bin:$PATH; fi
export PATH GOFLAGS=-mod=mod GOPROXY=off GOSUMDB=off GOTOOLCHAIN=local GOWORK=off
W=$(mktemp -d)
trap 'rm -rf "$W"' EXIT
(cd "$TREE" && go build -o "$W/gocc" .) || { echo "cannot build gocc"; exit 2; }
cp -r "$HERE/demo" "$W/demo"
cd "$W/demo"
printf 'module demo\n\ngo 1.24\n' > go.mod
echo "== gocc -a -v -o out g.bnf"
"$W/gocc" -a -v -o out g.bnf > gocc.log 2>&1 || { cat gocc.log; echo "gocc failed"; exit 1; }
grep 'LR-1 conflicts' gocc.log
echo "== number of LR(1) states built by gocc (the canonical machine has 5):"
grep -c '^S[0-9]*{' out/LR1_sets.txt
if go run . ; then
	echo "HOLDS"
	exit 0
else
	echo "REQUIRED: e.g. \"a•\" is accepted with reductions [2], \"a•a•\" with [2 2 1] (canonical LR(1), shift preferred)."
	echo "VIOLATED"
	exit 1
fi
