#!/bin/bash
# C13 / layout: the same grammar file with LF and with CRLF line breaks.
HERE=$(cd "$(dirname "$0")" && pwd)
. "$HERE/../lib/common.sh"
setup "$1"

A="$HERE/a.bnf"                 # LF line breaks
B="$W/b.bnf"                    # every "\n" replaced by "\r\n", nothing else
sed 's/$/\r/' "$A" >"$B"
if ! tr -d '\r' <"$B" | cmp -s - "$A" || grep -q $'\r' "$A"; then echo "bad test setup"; exit 2; fi
echo "A = a.bnf with LF line breaks ($(wc -c <"$A") bytes); B = the same text with CRLF line breaks ($(wc -c <"$B") bytes)"

gen A "$A"
gen B "$B"
echo "gocc A: exit $(rc A); gocc B: exit $(rc B)"
if [ "$(rc A)" != 0 ] || [ "$(rc B)" != 0 ]; then echo "unexpected: gocc rejected the grammar"; cat "$W/A/log" "$W/B/log"; exit 2; fi
crs() { find "$W/$1/demo/out" -type f -exec cat {} + </dev/null | tr -cd '\r' | wc -c; }

# (second, even smaller demonstration: one blank inside an action)
printf "id : 'a' ;\nS : id << \$0, nil >> ;\n" >"$W/c.bnf"
printf "id : 'a' ;\nS : id << \$0,  nil >> ;\n" >"$W/d.bnf"
gen C "$W/c.bnf"
gen D "$W/d.bnf"

if same_packages A B; then
	echo "HOLDS: LF and CRLF versions yield byte-identical packages"
	exit 0
fi
echo "VIOLATED: A and B differ only in the spelling of their line breaks (LF vs CRLF)."
echo "  required: byte-identical generated packages"
echo "  observed: files that differ: $(diff -rq "$W/A/demo/out" "$W/B/demo/out" | sed "s|$W/||g")"
echo "  carriage returns in A's package: $(crs A), in B's package: $(crs B)"
echo "  diff of parser/productionstable.go (cat -A style, ^M = CR):"
diff <(cat -A "$W/A/demo/out/parser/productionstable.go") <(cat -A "$W/B/demo/out/parser/productionstable.go") | sed 's/^/      /' | head -40
same_packages C D || echo "  (also: '<< \$0, nil >>' vs '<< \$0,  nil >>' differ in productionstable.go: the action text is copied verbatim)"
exit 1
