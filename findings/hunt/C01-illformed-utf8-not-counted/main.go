package main

import (
	"fmt"
	"os"

	"demo/out/lexer"
	"demo/out/token"
)

func scanAll(src string) (out []string) {
	l := lexer.NewLexer([]byte(src))
	for i := 0; i < 10; i++ {
		t := l.Scan()
		out = append(out, fmt.Sprintf("%s(%q)", token.TokMap.Id(t.Type), t.Lit))
		if t.Type == token.EOF {
			break
		}
	}
	return
}

func main() {
	cases := []struct {
		in   string
		want []string
		why  string
	}{
		// controls: well-formed text
		{"�", []string{`repl("�")`, `␚("")`}, "control: the three bytes EF BF BD are the character U+FFFD"},
		{"aé", []string{`word("aé")`, `␚("")`}, "control"},
		// ill-formed text
		{"\xff", []string{`INVALID("\xff")`, `␚("")`},
			"the byte FF is not the character U+FFFD and is no prefix of any lexeme (the only lexeme of repl is EF BF BD)"},
		{"\xc3", []string{`INVALID("\xc3")`, `␚("")`},
			"a truncated two-byte sequence is not U+FFFD"},
		{"a\xffb", []string{`INVALID("a\xff")`, `word("b")`, `␚("")`},
			"\"a\" is a word, the byte FF is not a character of 'a'-'z' or '\\u0080'-'\\U0010ffff': the text stops being a prefix of a lexeme there"},
	}
	violated := false
	for _, c := range cases {
		got := scanAll(c.in)
		ok := fmt.Sprint(got) == fmt.Sprint(c.want)
		fmt.Printf("input %-12q observed %v\n", c.in, got)
		if !ok {
			violated = true
			fmt.Printf("                   required %v\n                   (%s)\n", c.want, c.why)
		}
	}
	if violated {
		fmt.Println("VIOLATED: a byte that is not part of any UTF-8 encoded character is matched by the patterns that contain U+FFFD")
		os.Exit(1)
	}
	fmt.Println("holds")
}
