#!/bin/bash
# usage: run.sh <path-to-gocc-source-tree>
# exit 1 = property C04 violated, 0 = holds, 2 = could not run.
set -u
export PATH=/opt/veriftools/go1.26.8/bin:$PATH GOFLAGS=-mod=mod GOPROXY=off GOSUMDB=off GOTOOLCHAIN=local GOWORK=off
SRC=$(cd "${1:?usage: run.sh <gocc source tree>}" && pwd) || exit 2
HERE=$(cd "$(dirname "$0")" && pwd)
W=$(mktemp -d /tmp/c04-reserved.XXXXXX)
trap 'rm -rf "$W"' EXIT
(cd "$SRC" && go build -o "$W/gocc" .) || { echo "cannot build gocc"; exit 2; }
cp "$HERE"/*.bnf "$HERE"/main.go "$W"/
printf 'module demo\n\ngo 1.24\n' > "$W/go.mod"
cd "$W"

viol=0
# run <grammar> <flags...> ; sets RC and ANN (1 if "N LR-1 conflicts" printed)
run() {
	local g=$1; shift
	rm -rf out
	OUT=$("$W/gocc" "$@" -o out "$g" 2>&1); RC=$?
	if echo "$OUT" | grep -q 'LR-1 conflicts'; then ANN=1; else ANN=0; fi
}
# expect <label> <grammar> <want-announced> <want-rc-zero(0/1)> <flags...>
expect() {
	local label=$1 g=$2 wantann=$3 wantzero=$4; shift 4
	run "$g" "$@"
	local gotzero=0; [ "$RC" -eq 0 ] && gotzero=1
	if [ "$ANN" = "$wantann" ] && [ "$gotzero" = "$wantzero" ]; then
		echo "ok        $label: announced=$ANN exit=$RC"
	else
		echo "VIOLATION $label: observed announced=$ANN exit=$RC ; required announced=$wantann exit $( [ $wantzero = 1 ] && echo '== 0' || echo '!= 0')"
		viol=1
	fi
}
# control <label> <grammar> <want-announced> <want-rc-zero> : sanity check on the renamed, isomorphic grammar
control() {
	local label=$1 g=$2 wantann=$3 wantzero=$4
	run "$g"
	local gotzero=0; [ "$RC" -eq 0 ] && gotzero=1
	if [ "$ANN" = "$wantann" ] && [ "$gotzero" = "$wantzero" ]; then
		echo "control   $label: announced=$ANN exit=$RC (as the oracle says)"
	else
		echo "control FAILED $label: announced=$ANN exit=$RC -- the demonstration's oracle is off"; exit 2
	fi
}

echo "--- 1. LR(1) grammar  S : \"empty\" | \"empty\" \"x\"  (must NOT be reported, exit 0)"
control "same grammar with the terminal spelled \"empti\"" fp_control.bnf 0 1
expect  "fp_empty.bnf, no -a" fp_empty.bnf 0 1
expect  "fp_empty.bnf, -a   " fp_empty.bnf 0 1 -a

echo "--- 2. non-LR(1) grammar  S : A \"empty\" \"c\" | B \"empty\" \"d\" ; A : \"x\" ; B : \"x\"  (must be reported; exit != 0 without -a)"
control "same grammar with the terminal spelled \"empti\"" fn_control.bnf 1 0
expect  "fn_empty.bnf, no -a" fn_empty.bnf 1 0
expect  "fn_empty.bnf, -a   " fn_empty.bnf 1 1 -a
expect  "fn_empty.bnf, -zip " fn_empty.bnf 1 0 -zip

echo "--- 3. non-LR(1) grammar  S : A \"INVALID\" | B \"INVALID\" ; A : \"x\" ; B : \"x\"  (must be reported; exit != 0 without -a)"
control "same grammar with the terminal spelled \"INVALYD\"" fn_invalid_control.bnf 1 0
expect  "fn_invalid.bnf, no -a" fn_invalid.bnf 1 0

echo "--- 4. LR(1) grammar  S : \"A\" A | A \"A\" ; A : \"x\"  (literal \"A\" used before nonterminal A is defined; must NOT be reported)"
control "same grammar with the terminal spelled \"a\"" fp_ntname_control.bnf 0 1
expect  "fp_ntname.bnf, no -a" fp_ntname.bnf 0 1

echo "--- consequence: the parser silently generated for grammar 2 (informational)"
run fn_empty.bnf
if [ "$RC" -eq 0 ]; then go run . || echo "  (a parser gocc emitted without any conflict report rejects the sentences of its grammar)"; fi

if [ $viol = 1 ]; then
	echo "RESULT: property C04 VIOLATED"
	exit 1
fi
echo "RESULT: property C04 holds on these inputs"
exit 0
