// Parses the two sentences of the language of fn_empty.bnf with the parser
// gocc generated for it (gocc reported no conflict, so the parser should be a
// correct LR(1) parser for that language).
package main

import (
	"fmt"
	"os"

	"demo/out/lexer"
	"demo/out/parser"
)

func main() {
	bad := false
	for _, in := range []string{"x empty c", "x empty d"} {
		_, err := parser.NewParser().Parse(lexer.NewLexer([]byte(in)))
		fmt.Printf("  generated parser on %q: accepted=%v\n", in, err == nil)
		if err != nil {
			bad = true
		}
	}
	if bad {
		os.Exit(3)
	}
}
