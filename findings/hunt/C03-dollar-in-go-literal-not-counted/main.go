package main

import (
	"fmt"
	"os"
	"regexp"

	"demo/out/lexer"
	"demo/out/parser"
)

// The oracle: the action expression of g.bnf, evaluated by hand over the parse
// tree of the input; $T0, $T1, $T2 are the three addr tokens, $Context is the
// parser's Context field.
var re = regexp.MustCompile(`(\w+)@(\w+)`)

func oracle(t0, t1, t2 string, context interface{}) []string {
	return []string{
		re.ReplaceAllString(t0, "$2 at $1"),
		re.ReplaceAllString(t1, `$2 at $1`),
		re.ReplaceAllString(t2, "$2 at $1"),
		context.(string) + " $Context",
	}
}

func main() {
	p := parser.NewParser()
	p.Context = "ctx"
	res, err := p.Parse(lexer.NewLexer([]byte("ann@here bob@there cy@home")))
	if err != nil {
		fmt.Println("unexpected parse error:", err)
		os.Exit(2)
	}
	got := res.([]string)
	want := oracle("ann@here", "bob@there", "cy@home", "ctx")
	what := []string{`"$2 at $1" in the action`, "`$2 at $1` in the action", `"$2 at $1" in the header`, `" $Context" in the action`}
	bad := false
	for n := range want {
		mark := "ok"
		if got[n] != want[n] {
			mark = "WRONG"
			bad = true
		}
		fmt.Printf("  %-26s observed %-34q required %-18q %s\n", what[n], got[n], want[n], mark)
	}
	if bad {
		os.Exit(1)
	}
}
