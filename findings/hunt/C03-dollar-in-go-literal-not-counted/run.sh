#!/bin/sh
# usage: run.sh <path-to-gocc-source-tree>
# exit 1: property C03 violated, exit 0: holds, exit 2: could not run
if [ -d /opt/veriftools/go1.26.8/bin ]; then PATH=/opt/veriftools/go1.26.8/bin:$PATH; fi
export PATH GOFLAGS=-mod=mod GOPROXY=off GOSUMDB=off GOTOOLCHAIN=local GOWORK=off
[ $# -eq 1 ] || { echo "usage: $0 <gocc source tree>"; exit 2; }
SRC=$(cd "$1" && pwd) || exit 2
HERE=$(cd "$(dirname "$0")" && pwd)
W=$(mktemp -d) || exit 2
trap 'rm -rf "$W"' EXIT

(cd "$SRC" && go build -o "$W/gocc" .) || { echo "cannot build gocc"; exit 2; }

mkdir "$W/p" && cd "$W/p" || exit 2
printf 'module demo\n\ngo 1.24\n' > go.mod
cp "$HERE/g.bnf" "$HERE/main.go" .
"$W/gocc" -o out g.bnf >gocc.log 2>&1 || { cat gocc.log; echo "gocc refused the grammar"; exit 2; }
echo "what gocc made of the Go string literals (out/parser/productionstable.go):"
grep -n 'at X\[\|" C"' out/parser/productionstable.go | grep -v 'String:' | sed 's/^/  /'
echo 'input: ann@here bob@there cy@home   Context = "ctx"'
go build -o demo . || { echo "the demonstration does not compile"; exit 2; }
./demo ; rc=$?
case $rc in
0) echo "RESULT: property holds"; exit 0 ;;
1) echo "VIOLATED: the result of Parse is not the value of the action expression: the contents of Go string"
   echo "          literals (in the action and in the file header) were rewritten to X[2], X[1] and C"
   echo "RESULT: property C03 violated"
   exit 1 ;;
*) echo "demonstration failed to run"; exit 2 ;;
esac
