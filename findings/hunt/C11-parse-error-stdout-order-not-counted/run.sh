#!/bin/bash
# usage: run.sh <path-to-gocc-source-tree>
# exit 1: property C11 violated (stdout of identical runs differs); exit 0: holds.
set -u
SRC=${1:?usage: run.sh <path-to-gocc-source-tree>}
SRC=$(cd "$SRC" && pwd)
HERE=$(cd "$(dirname "$0")" && pwd)
export PATH=/opt/veriftools/go1.26.8/bin:$PATH GOFLAGS=-mod=mod GOPROXY=off GOSUMDB=off GOTOOLCHAIN=local GOWORK=off
W=$(mktemp -d)
trap 'rm -rf "$W"' EXIT
(cd "$SRC" && go build -o "$W/gocc" .) || { echo "build failed"; exit 2; }
mkdir "$W/demo"
printf 'module demo\n\ngo 1.24\n' > "$W/demo/go.mod"
cp "$HERE/bad.bnf" "$W/demo/g.bnf"
cd "$W/demo"
N=60
for i in $(seq $N); do
  "$W/gocc" -o out g.bnf > "stdout.$i" 2> "stderr.$i"
  echo "exit=$?" >> "stdout.$i"
done
distinct=$(cat stdout.* | grep -v '^exit=' | sort | uniq -c | sort -rn)
ndistinct=$(for i in $(seq $N); do sha256sum < "stdout.$i"; done | sort -u | wc -l)
nexit=$(grep -h '^exit=' stdout.* | sort -u | wc -l)
echo "$N runs of: gocc -o out g.bnf  (same file, same flags, same directory)"
echo "distinct exit statuses: $nexit ($(grep -h '^exit=' stdout.* | sort -u | tr '\n' ' '))"
echo "distinct stdout contents: $ndistinct"
echo "$distinct"
if [ "$ndistinct" -ne 1 ] || [ "$nexit" -ne 1 ]; then
  echo "VIOLATED: C11 requires the same stdout/exit status for repeated runs, independently of map iteration order;"
  echo "          observed $ndistinct different stdout contents (the order of the 'expected one of' tokens changes)."
  exit 1
fi
echo "HOLDS: all $N runs printed the same stdout and returned the same exit status."
exit 0
