#!/bin/bash
# usage: run.sh <path-to-gocc-source-tree>
# exit 1 = property C04 violated, 0 = holds, 2 = could not run.
set -u
export PATH=/opt/veriftools/go1.26.8/bin:$PATH GOFLAGS=-mod=mod GOPROXY=off GOSUMDB=off GOTOOLCHAIN=local GOWORK=off
SRC=$(cd "${1:?usage: run.sh <gocc source tree>}" && pwd) || exit 2
HERE=$(cd "$(dirname "$0")" && pwd)
W=$(mktemp -d /tmp/c04-bullet.XXXXXX)
trap 'rm -rf "$W"' EXIT
(cd "$SRC" && go build -o "$W/gocc" .) || { echo "cannot build gocc"; exit 2; }
cp "$HERE"/*.bnf "$W"/
printf 'module demo\n\ngo 1.24\n' > "$W/go.mod"
cd "$W"

run() { # run <grammar> <flags...>
	local g=$1; shift
	rm -rf out
	OUT=$("$W/gocc" "$@" -o out "$g" 2>&1); RC=$?
	if echo "$OUT" | grep -q 'LR-1 conflicts'; then ANN=1; else ANN=0; fi
}

echo "grammar (not LR(1), shift/reduce on the lookahead after the first terminal):"
echo '    S : X "T" | "T" X "T" ;   X : "T" ;'
run control.bnf -v
echo "T spelled \"o\": announced=$ANN exit=$RC"
if [ "$ANN" != 1 ] || [ "$RC" -eq 0 ]; then echo "control failed: oracle is off"; exit 2; fi
sed -n '1,8p' out/LR1_conflicts.txt

viol=0
run bullet.bnf -v
echo "T spelled \"•\": announced=$ANN exit=$RC   (required: announced=1, exit != 0)"
if [ "$ANN" != 1 ] || [ "$RC" -eq 0 ]; then viol=1; echo "  state reached over the first terminal, from LR1_sets.txt (the item X : •T «T» is missing):"; awk '/^S3\{/,/^$/' out/LR1_sets.txt | sed 's/^/    /'; fi
run bullet.bnf -a
echo "T spelled \"•\", -a: announced=$ANN exit=$RC   (required: announced=1, exit == 0)"
if [ "$ANN" != 1 ] || [ "$RC" -ne 0 ]; then viol=1; fi

if [ $viol = 1 ]; then echo "RESULT: property C04 VIOLATED (verdict depends on the spelling of a terminal)"; exit 1; fi
echo "RESULT: property C04 holds on this input"
exit 0
