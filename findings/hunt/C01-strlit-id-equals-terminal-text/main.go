// Scans a few inputs with the lexer gocc generated from g.bnf and compares the
// token stream with the one the lexical rules define:
//
//	ab  : 'a' 'b' ;          matches exactly the text  ab
//	"'a'" (syntax literal)   matches exactly the text  'a'   (quote, a, quote)
package main

import (
	"fmt"
	"os"
	"strings"

	"demo/out/lexer"
	"demo/out/token"
)

type tk struct{ typ, lit string }

func scan(src string) (res []tk) {
	l := lexer.NewLexer([]byte(src))
	for i := 0; i < 20; i++ {
		t := l.Scan()
		res = append(res, tk{token.TokMap.Id(t.Type), string(t.Lit)})
		if t.Type == token.EOF {
			break
		}
	}
	return
}

func show(ts []tk) string {
	var p []string
	for _, t := range ts {
		p = append(p, fmt.Sprintf("%s(%q)", t.typ, t.lit))
	}
	return strings.Join(p, " ")
}

func main() {
	eof := tk{"␚", ""}
	cases := []struct {
		in   string
		want []tk
	}{
		// sanity: the two lexemes of the grammar
		{"ab", []tk{{"ab", "ab"}, eof}},
		{"'a'", []tk{{"'a'", "'a'"}, eof}},
		// "'a" is a prefix of the literal 'a' only; the 'b' makes it unmatchable:
		// one INVALID token that also consumes the 'b'.
		{"'ab", []tk{{"INVALID", "'ab"}, eof}},
		// "'a" is a prefix; the second 'a' makes it unmatchable -> INVALID("'aa");
		// the rest "'" is a prefix of the literal cut short by the end of input.
		{"'aa'", []tk{{"INVALID", "'aa"}, {"INVALID", "'"}, eof}},
		// after INVALID("'aa") the rest "ab" is an ordinary ab token.
		{"'aaab", []tk{{"INVALID", "'aa"}, {"ab", "ab"}, eof}},
	}
	bad := 0
	for _, c := range cases {
		got := scan(c.in)
		if show(got) != show(c.want) {
			bad++
			fmt.Printf("VIOLATION input %q\n   observed: %s\n   required: %s\n", c.in, show(got), show(c.want))
		} else {
			fmt.Printf("ok        input %q: %s\n", c.in, show(got))
		}
	}
	if bad > 0 {
		fmt.Printf("%d input(s): Scan returned a token for text that no lexical rule defines\n", bad)
		os.Exit(1)
	}
}
