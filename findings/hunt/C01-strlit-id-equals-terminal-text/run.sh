#!/bin/bash
# usage: run.sh <path-to-gocc-source-tree>
# exit 1 = property C01 violated, 0 = holds, 2 = could not run the demonstration
export PATH=/opt/veriftools/go1.26.8/bin:$PATH GOFLAGS=-mod=mod GOPROXY=off GOSUMDB=off GOTOOLCHAIN=local GOWORK=off
tree=$(cd "${1:?usage: run.sh <gocc source tree>}" && pwd) || exit 2
here=$(cd "$(dirname "$0")" && pwd)
tmp=$(mktemp -d) || exit 2
trap 'rm -rf "$tmp"' EXIT
(cd "$tree" && go build -o "$tmp/gocc" .) || { echo "cannot build gocc"; exit 2; }
mkdir "$tmp/demo" && cd "$tmp/demo" || exit 2
printf 'module demo\n\ngo 1.24\n' > go.mod
cp "$here/g.bnf" "$here/main.go" .
if ! "$tmp/gocc" -o out g.bnf > gocc.log 2>&1; then
  head -n 5 gocc.log
  echo "gocc rejects this grammar: it is outside the property's quantifier (grammars gocc accepts), so the property holds here"
  exit 0
fi
go build -o demo.bin . || { echo "generated code does not build"; exit 2; }
./demo.bin
rc=$?
if [ $rc -eq 0 ]; then echo "property holds on this demonstration"; exit 0; fi
if [ $rc -eq 1 ]; then exit 1; fi
exit 2
