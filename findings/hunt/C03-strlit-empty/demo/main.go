package main

import (
	"fmt"
	"os"
	"strings"

	"demo/out/lexer"
	"demo/out/parser"
	"demo/trace"
)

// The grammar (g.bnf):
//
//	S : "t" X             << S1($0,$1) >>
//	  | "t" "empty" E "z" << S2($0,$1,$2,$3) >> ;
//	X : "empty" "z"       << X1($0,$1) >> ;
//	E : "empty" "q"       << E1() >> ;
//
// It is LR(1) conflict free and its language is exactly
//
//	{ "t empty z" , "t empty empty q z" }.
//
// The only parse tree of "t empty z" is S1( t , X1( empty , z ) ).
func main() {
	input := "t empty z"
	wantLog := "X1/2 S1/2" // post-order: X1 with 2 attributes, then S1 with 2
	wantVal := "S1(t X1(empty z))"

	p := parser.NewParser()
	res, err := p.Parse(lexer.NewLexer([]byte(input)))
	if err != nil {
		fmt.Printf("Parse(%q) failed: %v\n", input, err)
		fmt.Println("C03 only speaks about successful parses: not a C03 violation")
		os.Exit(0)
	}
	gotLog := strings.Join(trace.Log, " ")
	gotVal := fmt.Sprint(res)
	fmt.Printf("input            : %q\n", input)
	fmt.Printf("actions required : %s\n", wantLog)
	fmt.Printf("actions observed : %s\n", gotLog)
	fmt.Printf("value required   : %s\n", wantVal)
	fmt.Printf("value observed   : %s\n", gotVal)
	if gotLog != wantLog || gotVal != wantVal {
		fmt.Println("VIOLATED: Parse succeeded, but its result is not the post-order evaluation of the")
		fmt.Println("actions over the parse tree: E1 ran although E does not occur in the tree (and with")
		fmt.Println("0 attributes for a 2-symbol body), X1 never ran, S2 ran instead of S1.")
		os.Exit(1)
	}
	fmt.Println("property holds")
}
