package trace

import (
	"fmt"
	"strings"
)

// Log records every action that ran, in order.
var Log []string

type N struct {
	Name string
	Kids []interface{}
}

func (n *N) String() string {
	parts := make([]string, len(n.Kids))
	for i, k := range n.Kids {
		switch k := k.(type) {
		case *N:
			parts[i] = k.String()
		case nil:
			parts[i] = "nil"
		case interface{ IDValue() string }:
			parts[i] = k.IDValue()
		default:
			parts[i] = fmt.Sprintf("%v", k)
		}
	}
	return n.Name + "(" + strings.Join(parts, " ") + ")"
}

func Node(name string, kids ...interface{}) (interface{}, error) {
	Log = append(Log, fmt.Sprintf("%s/%d", name, len(kids)))
	return &N{name, kids}, nil
}
