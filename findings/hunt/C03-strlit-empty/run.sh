#!/bin/sh
# usage: run.sh <path-to-gocc-source-tree>
# exit 1: property C03 violated (Parse succeeds with a value that is not the
#         post-order evaluation of the parse tree); exit 0: property holds.
set -u
SRC=${1:?usage: run.sh <path-to-gocc-source-tree>}
SRC=$(cd "$SRC" && pwd)
HERE=$(cd "$(dirname "$0")" && pwd)
if [ -d /opt/veriftools/go1.26.8/bin ]; then PATH=/opt/veriftools/go1.26.8/bin:$PATH; fi
export PATH GOFLAGS=-mod=mod GOPROXY=off GOSUMDB=off GOTOOLCHAIN=local GOWORK=off

WORK=$(mktemp -d)
trap 'rm -rf "$WORK"' EXIT

(cd "$SRC" && go build -o "$WORK/gocc" .) || { echo "cannot build gocc from $SRC"; exit 2; }
cp -r "$HERE/demo" "$WORK/demo"
cd "$WORK/demo" || exit 2
rm -rf out
if ! "$WORK/gocc" -o out g.bnf >gocc.log 2>&1; then
	cat gocc.log
	echo "gocc refused the grammar: no parser, nothing to violate"
	exit 0
fi
cat gocc.log
go run .
rc=$?
case $rc in
0) exit 0 ;;
1) exit 1 ;;
*) echo "demo program failed unexpectedly (rc=$rc)"; exit 2 ;;
esac
