#!/bin/bash
# usage: run.sh <path-to-gocc-source-tree>
# exit 1 = property C14 VIOLATED, exit 0 = holds, exit 2 = could not run
set -u
SRC=${1:?usage: run.sh <path-to-gocc-source-tree>}
SRC=$(cd "$SRC" && pwd)
HERE=$(cd "$(dirname "$0")" && pwd)
export PATH=/opt/veriftools/go1.26.8/bin:$PATH GOFLAGS=-mod=mod GOPROXY=off GOSUMDB=off GOTOOLCHAIN=local GOWORK=off
TMP=$(mktemp -d)
trap 'rm -rf "$TMP"' EXIT
(cd "$SRC" && go build -o "$TMP/gocc" .) || { echo "cannot build gocc from $SRC"; exit 2; }

run_gocc() { # $1 = grammar name ; sets RC, leaves output in $TMP/$1
	local d="$TMP/$1"
	mkdir -p "$d"
	cp "$HERE/$1.bnf" "$d/g.bnf"
	printf 'module demo\ngo 1.24\n' > "$d/go.mod"
	(cd "$d" && "$TMP/gocc" -o out g.bnf > gocc.out 2>&1)
	RC=$?
}

run_gocc control
if [ $RC -ne 0 ]; then
	echo "control grammar (well-formed) was rejected, rc=$RC; cannot judge"; cat "$TMP/control/gocc.out"; exit 2
fi

violated=0
for g in empty_then_symbols empty_in_middle error_not_first; do
	run_gocc $g
	body=$(grep '^S :' "$HERE/$g.bnf")
	if [ $RC -eq 0 ]; then
		violated=1
		echo "VIOLATION: '$body' is not derivable from spec/gocc2.ebnf, but gocc exited 0 and printed: '$(tr '\n' ' ' < "$TMP/$g/gocc.out")'"
		grep -n 'String: `S :' -A4 "$TMP/$g/out/parser/productionstable.go" | grep -E 'String|NumSymbols' | sed 's/^/    productionstable.go:/'
		if [ $g != error_not_first ]; then
			cp "$HERE/main.go" "$TMP/$g/main.go"
			(cd "$TMP/$g" && go run . 2>&1 | head -5)
		fi
	else
		echo "ok: '$body' rejected with rc=$RC: $(head -c 200 "$TMP/$g/gocc.out" | tr '\n' ' ')"
	fi
done

if [ $violated -eq 1 ]; then
	echo
	echo "OBSERVED: gocc accepts (exit 0, no diagnostic) bodies in which the reserved words empty/error stand where"
	echo "          the documented syntax does not allow them; for 'S : empty a b' the symbols 'a b' are silently dropped."
	echo "REQUIRED: non-zero exit status for every file that violates spec/gocc2.ebnf; nothing may be dropped to make the rest parse."
	exit 1
fi
echo "property holds for these inputs"
exit 0
