package main

import (
	"fmt"

	"demo/out/lexer"
	"demo/out/parser"
)

func main() {
	for _, in := range []string{"", "ab"} {
		_, err := parser.NewParser().Parse(lexer.NewLexer([]byte(in)))
		fmt.Printf("    generated parser: input %q accepted=%v\n", in, err == nil)
	}
}
