package main

import (
	"fmt"
	"os"
	"strings"

	clexer "demo/ctl/lexer"
	cparser "demo/ctl/parser"
	klexer "demo/kw/lexer"
	kparser "demo/kw/parser"
)

func show(res interface{}, err error) string {
	if err != nil {
		return "ERROR " + err.Error()
	}
	return fmt.Sprint(res)
}

func main() {
	cases := []struct{ in, required, why string }{
		{"x = y ; = ; a = b ;",
			"[recovered(*errors.Error) assign(id)]",
			"stray '=': state 0 (Stmt : .error \";\") is on the stack, so the parser must pop to it, push an *errors.Error, skip '=' and resume at ';'"},
		{"KW ; a = b ;",
			"[recovered(*errors.Error) assign(id)]",
			"a statement cannot start with the keyword: syntax error at the first token; the action of 'Stmt : error \";\"' must receive an *errors.Error recording that token"},
		{"x = y ; = ; a = KW ( b ) ;",
			"[recovered(*errors.Error) assign(call(*token.Token))]",
			"as the first case; the keyword alternative 'Expr : \"KW\" \"(\" id \")\"' may only ever see the keyword token as $0"},
	}
	bad := 0
	for _, c := range cases {
		kin := strings.ReplaceAll(c.in, "KW", "error")
		cin := strings.ReplaceAll(c.in, "KW", "raise")
		kres, kerr := kparser.NewParser().Parse(klexer.NewLexer([]byte(kin)))
		cres, cerr := cparser.NewParser().Parse(clexer.NewLexer([]byte(cin)))
		k, ctl := show(kres, kerr), show(cres, cerr)
		fmt.Printf("input %q\n  required (%s):\n      %s\n  keyword spelled \"raise\": %s\n  keyword spelled \"error\": %s\n", kin, c.why, c.required, ctl, k)
		if ctl != c.required {
			fmt.Println("  (control parser deviates from the required behaviour as well)")
			bad++
		}
		if k != c.required {
			fmt.Println("  VIOLATION")
			bad++
		}
	}
	if bad > 0 {
		fmt.Println("RESULT: property C07 VIOLATED")
		os.Exit(1)
	}
	fmt.Println("RESULT: property holds")
}
