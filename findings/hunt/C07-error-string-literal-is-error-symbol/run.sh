#!/bin/bash
# usage: run.sh <path-to-gocc-source-tree>
# exit 1: property violated; exit 0: property holds (or gocc refuses the colliding grammar); exit 2: set-up problem
set -u
SRC=${1:?usage: run.sh <path-to-gocc-source-tree>}
SRC=$(cd "$SRC" && pwd) || exit 2
HERE=$(cd "$(dirname "$0")" && pwd)
export PATH=/opt/veriftools/go1.26.8/bin:$PATH GOFLAGS=-mod=mod GOPROXY=off GOSUMDB=off GOTOOLCHAIN=local GOWORK=off
W=$(mktemp -d /tmp/c07-errlit.XXXXXX)
trap 'rm -rf "$W"' EXIT
(cd "$SRC" && go build -o "$W/gocc" .) || { echo "cannot build gocc"; exit 2; }
mkdir -p "$W/demo" && cd "$W/demo" || exit 2
printf 'module demo\n\ngo 1.24\n' > go.mod
cp "$HERE/main.go" .
sed 's/"KW"/"error"/' "$HERE/g.bnf" > kw.bnf
sed 's/"KW"/"raise"/' "$HERE/g.bnf" > ctl.bnf
"$W/gocc" -o ctl -p demo/ctl ctl.bnf > ctl.log 2>&1 || { cat ctl.log; echo "gocc failed on the control grammar"; exit 2; }
if ! "$W/gocc" -o kw -p demo/kw kw.bnf > kw.log 2>&1; then
  cat kw.log
  echo "gocc refuses the grammar that uses the string literal \"error\": no parser, property not violated"
  exit 0
fi
cat kw.log
go run . 
rc=$?
[ $rc -eq 0 ] && exit 0
[ $rc -eq 1 ] && exit 1
exit 2
