#!/bin/bash
# usage: run.sh <path-to-gocc-source-tree>
# exit 1: property C09 VIOLATED (gocc exits 0, generated packages do not compile)
# exit 0: property holds for this input
set -u
export PATH=/opt/veriftools/go1.26.8/bin:$PATH GOFLAGS=-mod=mod GOPROXY=off GOSUMDB=off GOTOOLCHAIN=local GOWORK=off
tree=${1:?usage: run.sh <path-to-gocc-source-tree>}
tree=$(cd "$tree" && pwd)
here=$(cd "$(dirname "$0")" && pwd)
work=$(mktemp -d)
trap 'rm -rf "$work"' EXIT

(cd "$tree" && go build -o "$work/gocc" .) || { echo "cannot build gocc from $tree"; exit 2; }

mkdir "$work/demo"
cd "$work/demo"
printf 'module demo\n\ngo 1.24\n' > go.mod
# g.bnf is:   b : 'b' ;   S : "x<U+FEFF>y" b ;      (U+FEFF = bytes EF BB BF inside the string literal)
cp "$here/g.bnf" g.bnf

rc=0
for flags in "" "-a" "-debug_parser" "-v" "-no_lexer"; do
	rm -rf out
	timeout 60 "$work/gocc" $flags -o out g.bnf > gocc.log 2>&1
	st=$?
	if [ $st -ne 0 ]; then
		echo "flags [$flags]: gocc exit status $st (grammar rejected) -- no claim made, property holds"
		continue
	fi
	if go build ./out/... > build.log 2>&1; then
		echo "flags [$flags]: gocc exit status 0 and the generated packages compile -- property holds"
	else
		echo "flags [$flags]: VIOLATION: gocc exit status 0, but the generated packages do not compile:"
		sed 's/^/    /' build.log | head -6
		rc=1
	fi
done
if [ $rc -ne 0 ]; then
	echo
	echo "observed: gocc exits 0 for a grammar whose only unusual feature is the character U+FEFF inside a"
	echo "          string literal; out/parser/actiontable.go then fails to compile (invalid BOM in the middle of the file)."
	echo "required: (C09) whenever gocc exits with status zero the written packages compile, whatever characters"
	echo "          appear in string literals."
fi
exit $rc
