package main

// The grammar of g.bnf for the oracle (terminals are spelled as in token.TokMap).
var gramTerms = []string{"print", "num", ";", "error", "on", "goto"}
var gramStart = "Prog"
var gramProds = []Prod{
	{"Prog", []string{"Stmt"}},
	{"Prog", []string{"Prog", "Stmt"}},
	{"Stmt", []string{"print", "num", ";"}},
	{"Stmt", []string{"error", "num", ";"}},
	{"Stmt", []string{"on", "error", "goto", "num", ";"}},
}

// Inputs shown one by one (through the generated lexer).
var showcase = []string{
	"print 1 ; error 2 ; on error goto 3 ;", // a sentence
	"print 1 print 2 ;",
	"print 1 2 ;",
	"on error goto ;",
	"on error goto goto 7 ;",
}

const maxLen = 5
