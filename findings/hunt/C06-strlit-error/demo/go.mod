module demo

go 1.24
