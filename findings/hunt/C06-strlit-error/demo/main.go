// Checks property C06 on the parser gocc generated from g.bnf.
//
// The oracle is an Earley recogniser working directly on the grammar given in
// gram.go: for a token string w it yields the first token t_i such that
// t_1..t_i is not a prefix of a sentence, and the set of terminals a (or end of
// input) such that t_1..t_(i-1) a is such a prefix. That is compared with the
// *errors.Error returned by Parse; a hook called from every action expression
// records which token was the look-ahead when it ran.
package main

import (
	"fmt"
	"os"
	"sort"
	"strings"

	"demo/hook"
	perrors "demo/out/errors"
	"demo/out/lexer"
	"demo/out/parser"
	"demo/out/token"
)

type Prod struct {
	Lhs string
	Rhs []string
}

const EOI = "␚" // gocc's name for end of input

// ---------- Earley oracle ----------

type eitem struct{ p, dot, org int }

var (
	prods    []Prod // prods[0] is S' : start
	isNT     = map[string]bool{}
	nullable = map[string]bool{}
)

func initOracle() {
	prods = append([]Prod{{"S'", []string{gramStart}}}, gramProds...)
	for _, p := range prods {
		isNT[p.Lhs] = true
	}
	for changed := true; changed; {
		changed = false
		for _, p := range prods {
			if nullable[p.Lhs] {
				continue
			}
			all := true
			for _, s := range p.Rhs {
				if !nullable[s] {
					all = false
				}
			}
			if all {
				nullable[p.Lhs] = true
				changed = true
			}
		}
	}
}

func closeSet(sets [][]eitem, k int, cur []eitem) []eitem {
	seen := map[eitem]bool{}
	for _, it := range cur {
		seen[it] = true
	}
	add := func(it eitem) {
		if !seen[it] {
			seen[it] = true
			cur = append(cur, it)
		}
	}
	for i := 0; i < len(cur); i++ {
		it := cur[i]
		p := prods[it.p]
		if it.dot < len(p.Rhs) {
			s := p.Rhs[it.dot]
			if isNT[s] {
				for pi, q := range prods {
					if q.Lhs == s {
						add(eitem{pi, 0, k})
					}
				}
				if nullable[s] {
					add(eitem{it.p, it.dot + 1, it.org})
				}
			}
			continue
		}
		src := cur
		if it.org != k {
			src = sets[it.org]
		}
		for j := 0; j < len(src); j++ {
			o := src[j]
			op := prods[o.p]
			if o.dot < len(op.Rhs) && op.Rhs[o.dot] == p.Lhs {
				add(eitem{o.p, o.dot + 1, o.org})
			}
		}
	}
	return cur
}

// analyse returns the 0-based index of the first offending token of w
// (len(w) stands for the end-of-input token; -1 means w is a sentence) and the
// sorted set of terminals that could have stood in its place.
// All nonterminals of the grammar are productive, so a prefix is viable iff its
// Earley set is not empty.
func analyse(w []string) (int, []string) {
	sets := [][]eitem{closeSet(nil, 0, []eitem{{0, 0, 0}})}
	for i := 0; ; i++ {
		exp := map[string]bool{}
		for _, it := range sets[i] {
			p := prods[it.p]
			if it.dot < len(p.Rhs) && !isNT[p.Rhs[it.dot]] {
				exp[p.Rhs[it.dot]] = true
			}
			if it.p == 0 && it.dot == 1 {
				exp[EOI] = true
			}
		}
		t := EOI
		if i < len(w) {
			t = w[i]
		}
		if !exp[t] {
			var l []string
			for e := range exp {
				l = append(l, e)
			}
			sort.Strings(l)
			return i, l
		}
		if i == len(w) {
			return -1, nil
		}
		var next []eitem
		for _, it := range sets[i] {
			p := prods[it.p]
			if it.dot < len(p.Rhs) && p.Rhs[it.dot] == t {
				next = append(next, eitem{it.p, it.dot + 1, it.org})
			}
		}
		sets = append(sets, closeSet(sets, i+1, next))
	}
}

// ---------- scanner that replays a token list and counts ----------

type replay struct {
	toks []*token.Token // ends with the EOF token
	i    int
}

func (s *replay) Scan() *token.Token {
	hook.Scanned++
	t := s.toks[len(s.toks)-1]
	if s.i < len(s.toks) {
		t = s.toks[s.i]
	}
	s.i++
	return t
}

var violations int

// check parses toks (whose terminal names are w) and compares with the oracle.
// It returns a description of what was observed and what is required.
func check(p *parser.Parser, w []string, toks []*token.Token, verbose bool) {
	hook.Scanned, hook.Log = 0, hook.Log[:0]
	_, err := p.Parse(&replay{toks: toks})
	idx, exp := analyse(w)

	var observed, required string
	bad := false
	tokName := func(i int) string {
		if i < 0 {
			return "a token that was not in the input"
		}
		return fmt.Sprintf("token #%d %s", i+1, token.TokMap.TokenString(toks[i]))
	}
	if idx == -1 {
		required = "a sentence: Parse succeeds"
		if err != nil {
			observed = "Parse failed: " + err.Error()
			// A rejected sentence is outside C06 (it quantifies over non-sentences);
			// it is reported but not counted.
		} else {
			observed = "Parse succeeded"
		}
	} else {
		required = fmt.Sprintf("not a sentence: error at %s, expected exactly %q, no action run with it as look-ahead", tokName(idx), exp)
		if err == nil {
			observed = "Parse SUCCEEDED (no error at all)"
			bad = true
		} else {
			pe := err.(*perrors.Error)
			gi := -1
			for k, t := range toks {
				if t == pe.ErrorToken {
					gi = k
				}
			}
			got := append([]string{}, pe.ExpectedTokens...)
			sort.Strings(got)
			ran := 0
			for _, la := range hook.Log {
				if la >= idx {
					ran++
				}
			}
			observed = fmt.Sprintf("error at %s, expected %q, %d action(s) run with the offending token (or a later one) as look-ahead", tokName(gi), got, ran)
			if gi != idx || strings.Join(got, "\x00") != strings.Join(exp, "\x00") || ran > 0 {
				bad = true
			}
		}
	}
	if bad {
		violations++
	}
	if verbose || (bad && violations <= 5) {
		verdict := "ok"
		if bad {
			verdict = "VIOLATION"
		}
		fmt.Printf("input: %s\n  required: %s\n  observed: %s\n  => %s\n", strings.Join(w, " "), required, observed, verdict)
	}
}

func main() {
	initOracle()
	p := parser.NewParser()

	fmt.Println("== selected inputs, scanned by the generated lexer ==")
	for _, in := range showcase {
		var toks []*token.Token
		var w []string
		lx := lexer.NewLexer([]byte(in))
		for {
			t := lx.Scan()
			toks = append(toks, t)
			if t.Type == token.EOF {
				break
			}
			w = append(w, token.TokMap.Id(t.Type))
		}
		fmt.Printf("text:  %q\n", in)
		check(p, w, toks, true)
	}

	fmt.Println("== all token strings up to length", maxLen, "==")
	before := violations
	total := 0
	var rec func(w []string)
	rec = func(w []string) {
		total++
		toks := make([]*token.Token, 0, len(w)+1)
		for i, s := range w {
			toks = append(toks, &token.Token{Type: token.TokMap.Type(s), Lit: []byte(s), Pos: token.Pos{Offset: i, Line: 1, Column: i + 1}})
		}
		toks = append(toks, &token.Token{Type: token.EOF, Pos: token.Pos{Offset: len(w), Line: 1, Column: len(w) + 1}})
		check(p, w, toks, false)
		if len(w) < maxLen {
			for _, a := range gramTerms {
				rec(append(w[:len(w):len(w)], a))
			}
		}
	}
	rec(nil)
	fmt.Printf("%d token strings checked, %d of them violate C06\n", total, violations-before)

	if violations > 0 {
		fmt.Printf("RESULT: property C06 VIOLATED (%d violations in total)\n", violations)
		os.Exit(1)
	}
	fmt.Println("RESULT: property C06 holds on this grammar")
}
