#!/bin/bash
# usage: run.sh <path-to-gocc-source-tree>
# exit 1: property C06 is violated, exit 0: it holds (or gocc rejects the grammar), exit 2: set-up problem
TREE=${1:?usage: run.sh <path-to-gocc-source-tree>}
TREE=$(cd "$TREE" && pwd) || exit 2
HERE=$(cd "$(dirname "$0")" && pwd)
export PATH=/opt/veriftools/go1.26.8/bin:$PATH GOFLAGS=-mod=mod GOPROXY=off GOSUMDB=off GOTOOLCHAIN=local GOWORK=off

W=$(mktemp -d /tmp/c06-strlit-error.XXXXXX)
trap 'rm -rf "$W"' EXIT
(cd "$TREE" && go build -o "$W/gocc" .) || { echo "cannot build gocc from $TREE"; exit 2; }

run_demo() { # $1 = directory name, $2 = spelling of the keyword
	cp -r "$HERE/demo" "$W/$1"
	cd "$W/$1" || exit 2
	if [ "$2" != error ]; then
		sed -i "s/\"error\"/\"$2\"/g" g.bnf
		sed -i "s/\berror\b/$2/g" gram.go
	fi
	if ! "$W/gocc" -o out -p demo/out g.bnf > gocc.log 2>&1; then
		echo "gocc does not accept the grammar:"; cat gocc.log
		return 0
	fi
	go run .
}

echo "######## control: the same grammar with the keyword spelled \"failure\" ########"
run_demo control failure > "$W/control.log" 2>&1
rc=$?
tail -2 "$W/control.log"
if [ $rc -ne 0 ]; then
	echo "the control run failed; the harness or the tree has another problem:"; cat "$W/control.log"; exit 2
fi

echo
echo "######## the grammar of demo/g.bnf, keyword spelled \"error\" ########"
run_demo test error
rc=$?
if [ $rc -eq 1 ]; then
	echo
	echo "C06 VIOLATED: g.bnf has no error alternative (the reserved word error is not used;"
	echo "\"error\" is a string literal, i.e. a terminal), it is conflict-free and reduced, yet the"
	echo "generated parser treats every state that can shift \"error\" as an error-recovery state:"
	echo "non-sentences are accepted, and reported errors list the wrong expected tokens."
	exit 1
fi
[ $rc -eq 0 ] && { echo "C06 holds"; exit 0; }
exit 2
