#!/bin/bash
# C13 / quoting style of a string literal: raw `\` vs interpreted "\\" (one backslash in Go).
HERE=$(cd "$(dirname "$0")" && pwd)
. "$HERE/../lib/common.sh"
setup "$1"

gen A "$HERE/a.bnf"    # S : id `\` id ;
gen B "$HERE/b.bnf"    # S : id "\\" id ;
echo "A: $(sed -n 2p "$HERE/a.bnf")    -> gocc exit $(rc A)"
echo "B: $(sed -n 2p "$HERE/b.bnf")   -> gocc exit $(rc B)"
if same_packages A B; then
	echo "HOLDS: both quoting styles yield byte-identical packages"
	exit 0
fi
echo "VIOLATED: the raw string \`\\\` and the interpreted string \"\\\\\" denote the same content (one backslash)"
echo "  required: byte-identical generated packages"
echo "  observed: $(diff -rq "$W/A/demo/out" "$W/B/demo/out" | wc -l) generated files differ, e.g. lexer/lexer.go:"
diff "$W/A/demo/out/lexer/lexer.go" "$W/B/demo/out/lexer/lexer.go" | sed 's/^/      /' | head -12
for L in A B; do
	cp "$HERE/main.go" "$W/$L/demo/main.go"
	echo "  language accepted by the parser generated from $L:"
	(cd "$W/$L/demo" && go run . 2>&1 | sed 's/^/      /')
done
exit 1
