package main

import (
	"fmt"

	"demo/out/lexer"
	"demo/out/parser"
)

func main() {
	for _, in := range []string{`a\a`, `a\\a`} {
		_, err := parser.NewParser().Parse(lexer.NewLexer([]byte(in)))
		fmt.Printf("%-6s accepted=%v\n", in, err == nil)
	}
}
