package main

// The grammar of g.bnf for the oracle (terminals are spelled as in token.TokMap).
var gramTerms = []string{"empty", "(", ")", "is", "not", "num"}
var gramStart = "Test"
var gramProds = []Prod{
	{"Test", []string{"empty", "(", "Value", ")"}},
	{"Test", []string{"Value", "is", "empty"}},
	{"Test", []string{"Value", "empty"}},
	{"Test", []string{"not", "Test"}},
	{"Value", []string{"num"}},
}

// Inputs shown one by one (through the generated lexer).
var showcase = []string{
	"not 1 is empty", // a sentence
	"empty ( 1 )",    // a sentence
	"1 empty",        // a sentence
	"",
	"not",
	"empty )",
	"not empty",
	"1",
	"1 )",
}

const maxLen = 5
