package hook

// Scanned is the number of tokens handed to the parser so far; the current
// look-ahead is token number Scanned-1 (0-based).
var Scanned int

// Log holds, for every action expression run, the index of the look-ahead token.
var Log []int

func R(p int, x interface{}) (interface{}, error) {
	Log = append(Log, Scanned-1)
	return p, nil
}
