#!/bin/bash
# usage: run.sh <path-to-gocc-source-tree>
# exit 1: property C11 violated (a generated file differs between identical runs); exit 0: holds.
set -u
SRC=${1:?usage: run.sh <path-to-gocc-source-tree>}
SRC=$(cd "$SRC" && pwd)
HERE=$(cd "$(dirname "$0")" && pwd)
export PATH=/opt/veriftools/go1.26.8/bin:$PATH GOFLAGS=-mod=mod GOPROXY=off GOSUMDB=off GOTOOLCHAIN=local GOWORK=off
W=$(mktemp -d)
trap 'rm -rf "$W"' EXIT
(cd "$SRC" && go build -o "$W/gocc" .) || { echo "build failed"; exit 2; }
mkdir "$W/demo"
printf 'module demo\n\ngo 1.24\n' > "$W/demo/go.mod"
cp "$HERE/amb.bnf" "$W/demo/g.bnf"
cd "$W/demo"
N=30
: > go.sums; : > txt.sums; : > conf.sums; : > out.sums
for i in $(seq $N); do
  rm -rf out
  "$W/gocc" -a -v -o out g.bnf > "stdout.$i" 2> "stderr.$i"
  echo "exit=$?" >> "stdout.$i"
  sha256sum < "stdout.$i" >> out.sums
  find out -name '*.go' | sort | xargs sha256sum | sha256sum >> go.sums
  find out -name '*.txt' ! -name LR1_conflicts.txt | sort | xargs sha256sum | sha256sum >> txt.sums
  sha256sum < out/LR1_conflicts.txt >> conf.sums
  cp out/LR1_conflicts.txt "conf.$i"
done
ngo=$(sort -u go.sums | wc -l); ntxt=$(sort -u txt.sums | wc -l); nconf=$(sort -u conf.sums | wc -l); nout=$(sort -u out.sums | wc -l)
echo "$N runs of: gocc -a -v -o out g.bnf  (same grammar, same flags, same directory)"
echo "distinct stdout+exit status:                 $nout   ($(grep -h 'conflicts' stdout.1) / $(tail -1 stdout.1))"
echo "distinct contents of the generated .go files: $ngo"
echo "distinct contents of the other -v .txt files: $ntxt"
echo "distinct contents of out/LR1_conflicts.txt:   $nconf"
if [ "$nconf" -ne 1 ]; then
  for i in $(seq 2 $N); do
    if ! cmp -s conf.1 "conf.$i"; then
      echo "--- diff of out/LR1_conflicts.txt between run 1 and run $i (first lines) ---"
      diff conf.1 "conf.$i" | head -12
      break
    fi
  done
fi
if [ "$ngo" -ne 1 ] || [ "$nout" -ne 1 ] || [ "$ntxt" -ne 1 ] || [ "$nconf" -ne 1 ]; then
  echo "VIOLATED: C11 requires generation to be independent of map iteration order; a file written by gocc"
  echo "          differs between identical runs (see the counts above)."
  exit 1
fi
echo "HOLDS: every file written by gocc, stdout and the exit status were identical in all $N runs."
exit 0
