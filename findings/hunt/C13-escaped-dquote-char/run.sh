#!/bin/bash
# C13 / character literal spelling: '"' vs the named escape '\"' (vs '\x22').
HERE=$(cd "$(dirname "$0")" && pwd)
. "$HERE/../lib/common.sh"
setup "$1"

gen A "$HERE/a.bnf"    # quote : '"' ;
gen B "$HERE/b.bnf"    # quote : '\"' ;
gen C "$HERE/c.bnf"    # quote : '\x22' ;
echo "A: $(head -1 "$HERE/a.bnf")   -> gocc exit $(rc A)"
echo "B: $(head -1 "$HERE/b.bnf")  -> gocc exit $(rc B)"
echo "C: $(head -1 "$HERE/c.bnf") -> gocc exit $(rc C)"
same_packages A C && echo "A and C (hex escape) yield byte-identical packages" || echo "A and C differ (!)"

if same_packages A B; then
	echo "HOLDS: '\"' and '\\\"' yield byte-identical packages"
	exit 0
fi
echo "VIOLATED: A and B differ only in the spelling of one character literal for U+0022"
echo "  ('\\\"' is a named escape of char_lit in gocc's own grammar: spec/gocc2.ebnf:108 and doc/gocc_user_guide.tex:1144 _escaped_char)."
echo "  required: byte-identical generated packages"
echo "  observed: gocc B exits $(rc B) and writes $([ -d "$W/B/demo/out" ] && echo "a different tree" || echo "nothing"); first lines of its output:"
head -8 "$W/B/log" | sed 's/^/      /'
exit 1
