#!/bin/bash
# usage: run.sh <path-to-gocc-source-tree>
# exit 1 = property C14 VIOLATED, exit 0 = holds, exit 2 = could not run
set -u
SRC=${1:?usage: run.sh <path-to-gocc-source-tree>}
SRC=$(cd "$SRC" && pwd)
HERE=$(cd "$(dirname "$0")" && pwd)
export PATH=/opt/veriftools/go1.26.8/bin:$PATH GOFLAGS=-mod=mod GOPROXY=off GOSUMDB=off GOTOOLCHAIN=local GOWORK=off
TMP=$(mktemp -d)
trap 'rm -rf "$TMP"' EXIT
(cd "$SRC" && go build -o "$TMP/gocc" .) || { echo "cannot build gocc from $SRC"; exit 2; }

run_gocc() {
	local d="$TMP/$1"
	mkdir -p "$d"
	cp "$HERE/$1.bnf" "$d/g.bnf"
	printf 'module demo\ngo 1.24\n' > "$d/go.mod"
	(cd "$d" && "$TMP/gocc" -o out g.bnf > gocc.out 2>&1)
	RC=$?
}

run_gocc control_ascii
echo "control (undefined production Expr):  rc=$RC  $(head -c 160 "$TMP/control_ascii/gocc.out" | tr '\n' ' ')"
if [ $RC -eq 0 ]; then echo "VIOLATION: even the ASCII case is accepted"; exit 1; fi

run_gocc wellformed
echo "defined  (Éxpr : a ; present):        rc=$RC  (gocc treats Éxpr as a production name: $(grep -c 'Éxpr : a' "$TMP/wellformed/out/parser/productionstable.go" 2>/dev/null) entry in productionstable.go)"

run_gocc undefined_nonascii
echo "mutant  (undefined production Éxpr): rc=$RC  $(head -c 160 "$TMP/undefined_nonascii/gocc.out" | tr '\n' ' ')"
if [ $RC -eq 0 ]; then
	echo "    token.go of the generated code lists the undefined production as a terminal:"
	grep -n 'xpr' "$TMP/undefined_nonascii/out/token/token.go" | sed 's/^/    /'
	echo
	echo "OBSERVED: gocc exits 0 (only a warning on stderr) for a grammar that uses the undefined syntax production Éxpr,"
	echo "          and silently turns Éxpr into a terminal that no lexer rule produces."
	echo "REQUIRED: non-zero exit status for every grammar that uses an undefined syntax production."
	exit 1
fi
echo "property holds for this input"
exit 0
