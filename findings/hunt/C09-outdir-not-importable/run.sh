#!/bin/bash
# usage: run.sh <path-to-gocc-source-tree>
# exit 1: property C09 VIOLATED (gocc exits 0, the import paths it wrote do not resolve)
# exit 0: property holds for these inputs
set -u
export PATH=/opt/veriftools/go1.26.8/bin:$PATH GOFLAGS=-mod=mod GOPROXY=off GOSUMDB=off GOTOOLCHAIN=local GOWORK=off
tree=${1:?usage: run.sh <path-to-gocc-source-tree>}
tree=$(cd "$tree" && pwd)
here=$(cd "$(dirname "$0")" && pwd)
work=$(mktemp -d)
trap 'rm -rf "$work"' EXIT

(cd "$tree" && go build -o "$work/gocc" .) || { echo "cannot build gocc from $tree"; exit 2; }

rc=0
n=0
# "out" is the control: it must pass.
for o in "out" "my out" "généré" "gen@v1"; do
	n=$((n+1))
	d="$work/demo$n"
	mkdir "$d"; cd "$d"
	printf 'module demo\n\ngo 1.24\n' > go.mod
	cp "$here/g.bnf" g.bnf          #  a : 'a' ;   S : a ;
	timeout 60 "$work/gocc" -o "$o" g.bnf > gocc.log 2>&1
	st=$?
	if [ $st -ne 0 ]; then
		echo "-o [$o]: gocc exit status $st (refused) -- no claim made, property holds"
		continue
	fi
	missing=""
	for f in token/token.go util/litconv.go lexer/lexer.go parser/parser.go errors/errors.go; do
		[ -f "$o/$f" ] || missing="$missing $f"
	done
	imp=$(sed -n 's/^[ \t]*"\(.*\)\/token"$/\1/p' "$o/parser/parser.go" | head -1)
	if go build "./$o/..." > build.log 2>&1 && [ -z "$missing" ]; then
		echo "-o [$o]: gocc exit status 0, package path \"$imp\", packages build -- property holds"
	else
		echo "-o [$o]: VIOLATION: gocc exit status 0, wrote imports of \"$imp/token\", \"$imp/errors\"; go build says:"
		sed 's/^/    /' build.log | head -4
		[ -n "$missing" ] && echo "    missing files:$missing"
		rc=1
	fi
done
if [ $rc -ne 0 ]; then
	echo
	echo "observed: gocc exits 0 and writes packages that import each other through a path the go tool rejects."
	echo "required: (C09) for every flag combination (-o with a directory below the working directory), status zero"
	echo "          means the packages were written under the requested directory with import paths that resolve."
fi
exit $rc
