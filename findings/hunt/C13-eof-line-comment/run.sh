#!/bin/bash
# C13 / layout: a // comment on the last line, with and without a final line break.
HERE=$(cd "$(dirname "$0")" && pwd)
. "$HERE/../lib/common.sh"
setup "$1"

A="$HERE/a.bnf"          # ends with "// end of grammar\n"
B="$W/b.bnf"             # the same bytes minus the final "\n"
head -c -1 "$A" >"$B"
C="$W/c.bnf"             # the comment removed altogether
grep -v '^//' "$A" >"$C"

echo "A = a.bnf (last line is a // comment, file ends with a newline)"
echo "B = A without the final newline byte:"
cmp "$A" "$B" 2>&1 | sed 's/^/    /'
echo "    size A = $(wc -c <"$A"), size B = $(wc -c <"$B"); last bytes of B: $(tail -c 8 "$B" | od -An -c | tr -s ' ')"

gen A "$A"
gen B "$B"
gen C "$C"

echo "gocc A: exit $(rc A)   $(grep -v '^$' "$W/A/log" | tail -1)"
echo "gocc B: exit $(rc B)   $(grep -v '^$' "$W/B/log" | tail -1)"
echo "gocc C (no comment at all): exit $(rc C)"

if same_packages A B; then
	echo "HOLDS: A and B yield byte-identical packages"
	exit 0
fi
echo "VIOLATED: A and B differ only in layout (one line break after the last comment)."
echo "  required: byte-identical generated packages"
if [ "$(rc B)" != 0 ]; then
	echo "  observed: A generates a package (identical to C: $(same_packages A C && echo yes || echo no)), B is rejected and nothing is generated:"
	sed 's/^/      /' "$W/B/log"
	[ -d "$W/B/demo/out" ] && echo "      (out/ exists)" || echo "      (no out/ directory was written for B)"
else
	echo "  observed: the generated trees differ:"
	head -20 "$W/diff"
fi
exit 1
