#!/bin/bash
# usage: run.sh <path-to-gocc-source-tree>
# exit 1 = property C14 VIOLATED, exit 0 = holds, exit 2 = could not run
set -u
SRC=${1:?usage: run.sh <path-to-gocc-source-tree>}
SRC=$(cd "$SRC" && pwd)
HERE=$(cd "$(dirname "$0")" && pwd)
export PATH=/opt/veriftools/go1.26.8/bin:$PATH GOFLAGS=-mod=mod GOPROXY=off GOSUMDB=off GOTOOLCHAIN=local GOWORK=off
TMP=$(mktemp -d)
trap 'rm -rf "$TMP"' EXIT
(cd "$SRC" && go build -o "$TMP/gocc" .) || { echo "cannot build gocc from $SRC"; exit 2; }

run_gocc() {
	local d="$TMP/$1"
	mkdir -p "$d"
	cp "$HERE/$1.bnf" "$d/g.bnf"
	printf 'module demo\ngo 1.24\n' > "$d/go.mod"
	(cd "$d" && "$TMP/gocc" -o out g.bnf > gocc.out 2>&1)
	RC=$?
}

run_gocc control
if [ $RC -ne 0 ]; then echo "control grammar rejected, rc=$RC; cannot judge"; cat "$TMP/control/gocc.out"; exit 2; fi

violated=0
for g in bang_inside bang_alone; do
	run_gocc $g
	if [ $RC -eq 0 ]; then
		violated=1
		echo "VIOLATION: $g.bnf accepted with exit 0; output: '$(tr '\n' ' ' < "$TMP/$g/gocc.out")'"
		grep -n '!' "$TMP/$g/out/token/token.go" "$TMP/$g/out/parser/productionstable.go" 2>/dev/null | grep -v '!= ' | head -6 | sed "s|$TMP/||;s/^/    /"
	else
		echo "ok: $g.bnf rejected with rc=$RC: $(head -c 200 "$TMP/$g/gocc.out" | tr '\n' ' ')"
	fi
done
if [ $violated -eq 1 ]; then
	echo
	echo "OBSERVED: 'a!b', 'S!!' and a bare '!' are scanned as one identifier each and gocc exits 0."
	echo "REQUIRED: non-zero exit for a file that violates the documented syntax at the token level"
	echo "          ('!' is no identifier character; an ignored-token name needs at least one letter after '!')."
	exit 1
fi
echo "property holds for these inputs"
exit 0
