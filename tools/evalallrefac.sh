#!/bin/bash
# evalallrefac.sh [N] : run every stored behaviour-preserving change against every check, N at a time.
cd "$(dirname "$(readlink -f "$0")")/.."
N=${1:-5}
ls refactorings | grep '^C' | xargs -P "$N" -I{} tools/evalrefac.sh {} refactorings/{}/patch.diff
