#!/bin/bash
# evalallrefac.sh [N] : run every stored behaviour-preserving change against every check, N at a time.
cd "$(dirname "$(readlink -f "$0")")/.."
N=${1:-5}
ls refactorings | grep '^C' | xargs -P "$N" -I{} tools/evalrefac.sh {} refactorings/{}/patch.diff | tee /tmp/evalallrefac.$$.log
grep '^REFAC ' /tmp/evalallrefac.$$.log | sed 's/ files=.*//' | sort > refactorings/RESULTS.txt; rm -f /tmp/evalallrefac.$$.log
echo "$(grep -c . refactorings/RESULTS.txt) changes, $(grep -c 'alarms=\[\]' refactorings/RESULTS.txt) silent"
