#!/usr/bin/env python3
"""storeseed.py ID... — copy /tmp/seed/<ID>/SEED into /verif/seeded/<ID>/ and (re)write meta.json from a fresh
run of tools/evalseed.sh (build, pinned suite, demo on clean/patched copy, every check on the patched copy)."""
import json, os, re, shutil, subprocess, sys
needs = json.load(open('/verif/seeded/needs.json')) if os.path.exists('/verif/seeded/needs.json') else {}
for arg in sys.argv[1:]:
    # NAME or NAME:SRCDIR ; the first three characters of NAME are the property id
    sid, _, src = arg.partition(':')
    src = src or f'/tmp/seed/{sid}/SEED'
    dst = f'/verif/seeded/{sid}'
    if os.path.isdir(src):
        os.makedirs(dst, exist_ok=True)
        shutil.copy(f'{src}/patch.diff', f'{dst}/patch.diff')
        if os.path.exists(f'{src}/README.md'):
            shutil.copy(f'{src}/README.md', f'{dst}/README.md')
        if os.path.isdir(f'{dst}/demo'):
            shutil.rmtree(f'{dst}/demo')
        shutil.copytree(f'{src}/demo', f'{dst}/demo', ignore=shutil.ignore_patterns('out', '.bin', '*.test'))
    out = subprocess.run(['/verif/tools/evalseed.sh', sid, dst], capture_output=True, text=True).stdout
    caught = re.findall(r'^CHECK (C\d+) exit=1', out, re.M)
    own = re.search(r'^PROPERTY-CHECK (C\d+) exit=(\d+)', out, re.M)
    summ = re.search(r'SUMMARY id=\S+ demo_clean=(\d+) demo_patched=(\d+)', out)
    meta = {
        "property": sid[:3],
        "origin": "written by an independent sub-agent that was given only the property text and a scratch worktree of /repo (nothing from /verif)",
        "needs_to_manifest": needs.get(sid, "see README.md"),
        "verified_by": "tools/evalseed.sh %s /verif/seeded/%s" % (sid, sid),
        "build_ok": "BUILD-OK" in out,
        "pinned_suite_same_as_baseline": "SUITE SAME-AS-BASELINE" in out,
        "demo_exit_on_clean_copy": int(summ.group(1)) if summ else None,
        "demo_exit_on_patched_copy": int(summ.group(2)) if summ else None,
        "own_property_check_reports_it": bool(own and own.group(2) == '1'),
        "checks_that_report_it": caught,
        "first_reports": [l[:400] for l in out.splitlines() if l.startswith(('REFUTED', 'UNDECIDED'))][:4],
    }
    meta["round"] = 3 if "-r3" in sid else 2 if "-r2" in sid else 1
    json.dump(meta, open(f"{dst}/meta.json", "w"), indent=1, ensure_ascii=False)
    print(sid, 'own=', meta['own_property_check_reports_it'], 'caught_by=', caught, 'demo', meta['demo_exit_on_clean_copy'], meta['demo_exit_on_patched_copy'], 'suite', meta['pinned_suite_same_as_baseline'])
