#!/bin/bash
# evalrefac.sh NAME PATCH : apply a behaviour-preserving change to a scratch copy of /repo, check that it builds,
# and run every check on the copy. Any non-zero exit is a false alarm. Prints "REFAC NAME alarms=<checks> ...".
set -u
name=$1; patch=$(readlink -f "$2")
export PATH=/opt/veriftools/go1.26.8/bin:$PATH GOFLAGS=-mod=mod GOPROXY=off GOSUMDB=off GOTOOLCHAIN=local GOWORK=off
tmp=$(mktemp -d /tmp/evalrefac-XXXXXX); trap 'rm -rf "$tmp"' EXIT
rsync -a --exclude .git --exclude REFAC --exclude .bin /repo/ "$tmp/r/"
(cd "$tmp/r" && patch -p1 -s < "$patch") || { echo "REFAC $name PATCH-FAILED"; exit 3; }
(cd "$tmp/r" && go build ./... ) || { echo "REFAC $name BUILD-FAILED"; exit 3; }
cp /verif/bin/goccverif "$tmp/gv"; mkdir -p "$tmp/ev/evidence"; cp /verif/known_findings.json "$tmp/ev/"
alarms=""; detail=""
for p in $("$tmp/gv" -list | tr ' ' '\n' | grep '^C[0-9]'); do
  out=$("$tmp/gv" -prop "$p" -tier quick -repo "$tmp/r" -out "$tmp/ev/evidence" 2>&1); rc=$?
  if [ $rc -ne 0 ]; then alarms="$alarms $p"; detail="$detail
$(echo "$out" | grep 'REFUTED\|UNDECIDED' | head -2 | cut -c1-330)"; fi
done
echo "REFAC $name alarms=[${alarms# }] files=$(grep '^+++ ' "$patch" | sed 's|+++ [ab]/||;s|\t.*||' | tr '\n' ' ')$detail"
