#!/usr/bin/env python3
"""Regenerates /verif/MANIFEST.json from the tables below (single source of truth)."""
import json, os

ALL = ["C%02d" % i for i in range(1, 21)]

# id -> dict(level, text, note, technique, design)
CLAIMED = {
    "C09": dict(
        level="other",
        text="Partial, structural: 'status zero means complete, compilable output' for all grammars and spellings. Every insertion point of every template is walked with the Go lexical context it lands in and the class of text its producers can put there (producers found in the generator's SSA; constant printf formats expanded verb by verb); a context x class matrix decides whether the insertion can break the output's token structure (R09.1). The instantiated templates type-check in all variants (R09.2). On every normally-returning path of main the required generators run under exactly the stated conditions and call all their writers (R09.3). No error of template execution, formatting or file writing is dropped on a path to status zero (R09.4). Every $-reference of an action is rewritten (R09.5); nothing recovers a panic and no exit code is zero (R09.6); the package path the generated files import is the one of the output directory (R09.7). Termination of the generator: the epsilon-move worklist never processes an item twice (R09.8, found D25) and every loop and recursion reachable from main is a range loop, a counted loop with an invariant bound, a scanner loop that consumes a character per round and leaves at end of input, or is listed with its argument and shape-checked, the worklist arguments resting on the step rules of C01/C02 (R09.9).",
        note="Termination: the finiteness of the universes the worklists draw from (items, item sets, FIRST sets) is argued in DESIGN, not checked; the front end's own LR Parse loop and library calls are assumed to return. Assumes -p is a valid import path and header/actions are valid Go (the property's premise). Trusted: text/template/parse, go/ssa, the context machine and class table in checker/splice.go.",
        technique="static analysis: lexical-context tracking over template parse trees x provenance classes from SSA; return-restricted post-dominance for output completeness; error-value flow",
        design="§4 C09, §3 E6"),
    "C10": dict(
        level="other",
        text="Decided structurally: INVALID = 0, EOF = 1; the symbol table registers INVALID and the end marker first, Add numbers unseen ids consecutively and never renumbers, terminals are listed in that order, NewTokenMap fills both directions together (R10.2); main registers token ids before listing terminals and hands the one TokenMap to all three generators (R10.3); lexer Accept = IdMap[id], parser columns = indices of TypeMap, Scan stores Accept into tok.Type, Parse indexes rows by the look-ahead's Type (R10.4); idMap entry i = %q of typeMap entry i with value i, and both templates print them in string-safe form (R10.5); generated Type/Id lookups (R10.6). One string names one symbol (R10.7): every production name is registered before any string literal is compared with them, literals spelled INVALID or like the end marker and a production named INVALID are refused (found D28).",
        note="Open known finding D33 (a string literal spelled error or empty is the reserved symbol of that spelling; printed as KNOWN-FINDING, DESIGN §5). Assumes %q (strconv.Quote) is injective. Trusted: go/ssa, checker/sx.go, checker/splice.go.",
        technique="static analysis: event-order / transfer tables by abstract interpretation + SSA value identity and dominance in main + splice classes",
        design="§4 C10"),
    "C11": dict(
        level="other",
        text="Structural decision of determinism: every loop whose order the language leaves open (map ranges, ranges over permutation-valued slices) is classified against order-insensitive idioms; the rest are taint sources whose explicit and implicit (control-dependence) flows, computed over the SSA of all reachable module functions, must reach no .go output, exit status or panic. Goroutines, channels, clocks, randomness, environment reads, address printing and maps in the gob payload are excluded by enumeration. This is the right level because nondeterminism has a finite set of syntactic sources in a cgo-free Go program.",
        note="Assumes text/template, go/format, gob, gzip, sort, fmt deterministic; field-based heap abstraction; go/ssa + VTA call graph trusted. Does not decide library determinism.",
        technique="static analysis: SSA loop-idiom classification + field-based order-taint (explicit and control-dependence flows) to file/exit sinks",
        design="§4 C11, §3 E5"),
    "C12": dict(
        level="other",
        text="Decided structurally for all grammars: the debug instantiations of lexer.go/parser.go equal the plain ones up to inserted print statements with effect-free operands (statement-level diff of the instantiated templates, R12.1); -zip: gob payload types are identical on both sides, encoder arm -> code and decoder code -> constructor compose to the plain writer's cells, canRecover and every goto cell are copied over exactly the table dimensions, both writers read the same sources (R12.2); the flag getters are confined to selecting the writer / the Debug field / skipping the lexer generator / adding diagnostics (R12.3). So the flags cannot change the recognised language, reductions, results, errors or positions. With -zip the tables are the values of their own initialisers, complete before any init function (R12.6, found D34).",
        note="Open known finding D35 (the -zip files import bytes, gzip, gob into package parser, where the file header lives; R12.7). NOT decided: gob/gzip round-trip fidelity (stdlib). Trusted: go/parser+go/printer statement comparison, go/ssa, checker/sx.go.",
        technique="static analysis: AST diff of template instantiations + writer/reader agreement tables by abstract interpretation + use-site enumeration of flag getters",
        design="§4 C12"),
    "C13": dict(
        level="other",
        text="Thin, structural: layout and spelling have no channel into the output except the sequence of (type, text) pairs: the front-end token has no position field and no ast type holds a position (R13.1); a character literal's raw spelling is never read, consumers use the decoded value or the rendering computed from it (R13.2); decoding follows Go's escape table (R13.3); a string literal's content is its text without first and last byte whatever the quote (R13.4). Where comments end, against the documented comment syntax (R13.4); what is white space (R13.5).",
        note="NOT decided: the hand-written scanner's loops (white space, comments, where literals end) — the reason this claim is thin. Trusted: go/types, go/ssa, checker/sx.go.",
        technique="static analysis: type-level reachability + field read-set + decision tables by abstract interpretation",
        design="§4 C13"),
    "C14": dict(
        level="other",
        text="Partial, structural: no detected problem is swallowed. Error recovery of the front end is inert (R14.1); the scanner's error count and the parse error each lead to a non-zero exit on a branch that dominates every generator call (R14.2, R14.3); NewGrammar returns the consistency verdict, empty alternatives, undefined production names, duplicate definitions and unknown ids are errors or panics (R14.4); undefined regular-definition references are rejected before generation (R14.5). The reserved words empty and error are refused out of place (R14.6, found D30); undefined production names with any capital first letter (R14.4, D31); identifiers: '!' only in front of an ignored token id (R14.7, D32).",
        note="NOT decided: that the token-level language is exactly the documented one (that is C15) and the scanner's classification of every byte sequence. Trusted: go/ssa, checker/sx.go, control dependence via post-dominators.",
        technique="static analysis: control-dependence/dominance of exit guards on SSA + decision tables by abstract interpretation",
        design="§4 C14"),
    "C15": dict(
        level="translation_validation",
        text="The checked-in LR tables of gocc's own parser are validated against spec/gocc2.ebnf: the checker reads the specification with its own reader, builds the canonical LR(1) automaton with its own construction and walks it in lock-step with tables.go (all state x token and state x nonterminal cells, productions with head/body/length/action text), requiring a bijection of states. Error recovery must be inert (R15.3). Cell-wise agreement up to state renaming of two deterministic automata implies equal token languages and reduction sequences, which is exactly the property; no finite set of test inputs can show that.",
        note="Trusted: go/parser+go/types reading tables.go, the checker's BNF reader and LR(1) construction (checker/lr.go). The driver loop (Parser.Parse) is covered by R15.2 once the transfer-table engine lands; until then it is read as the standard LR driver.",
        technique="static translation validation: independent canonical LR(1) construction vs checked-in tables (lock-step bisimulation over composite literals), SSA control-dependence check of the recovery guard",
        design="§4 C15, §3 E7"),
    "C17": dict(
        level="other",
        text="Effect analysis of the generated code for all grammars at once: gocc's 17 template constants are instantiated with placeholder tables in every debug/zip variant (9 packages) and every function is analysed on SSA for writes (store, map update, append, copy, clear, delete, hand-over to a writing external function) to memory reachable from package-level variables outside init, with interprocedural binding of parameters, returns, closures, sealed-interface calls and spilled value receivers. Plus: in-place editing callees get fresh memory (R17.2); no unsafe/reflect/sync imports (R17.3). Absence of shared writes is what makes independent instances race-free in every interleaving.",
        note="Assumes Go's init-before-use guarantee; user action code / Scanner / Context out of scope; read-only allowlist for stdlib callees; placeholder tables have the shape of real tables.",
        technique="static effect analysis (global-derived address taint on go/ssa) over the instantiated templates",
        design="§4 C17, §3 E1/E4"),
    "C05": dict(
        level="other",
        text="The resolution rule is decided on the code that implements it: the four ResolveConflict methods are interpreted abstractly in every world (dynamic type of the competing action x order of production indices) and must implement the stated table; on the extracted table the checker proves commutativity, associativity and 'max under Shift > Reduce i > Reduce j', so the per-state fold (whose body is decided row by row, R05.3) selects shift-if-present-else-earliest-production for any number of competitors in any item order. A test samples a few grammars; the table covers every combination.",
        note="Assumes the item sets are the canonical LR(1) sets (C02, not decided) and that two different shifts never compete on one symbol. The 'consequently the parser's verdict...' clause is not decided. Trusted: go/ssa, checker/sx.go.",
        technique="static analysis: finite-world abstract interpretation of SSA (decision-table extraction) + algebraic check of the extracted table",
        design="§4 C05, §3 E2/E3"),
    "C08": dict(
        level="other",
        text="Decided on the generated Scan for all grammars and inputs at once: the lexer template is instantiated (plain and debug) and its prologue, loop body and epilogue are interpreted abstractly in every world (end of input / rune class x automaton verdict x exhausted x verdict so far); each row must equal the transfer table written from the statement (positions advance exactly for kept runes incl. the one an INVALID token swallows; start triple captured at scan start and ignore restart; cursor returned to end; Lit = src[start:end]; EOF sticky). Induction over rows gives exact positions and tiling.",
        note="Assumes utf8.DecodeRune's contract and the table-shape facts R01.3/R01.4 (C01). Trusted: go/ssa of the instantiated template, checker/sx.go.",
        technique="static analysis: transfer-table extraction by abstract interpretation of the instantiated lexer template's SSA",
        design="§4 C08, Appendix A.1"),
    "C16": dict(
        level="other",
        text="State re-initialisation decided structurally on the generated code: the set of Lexer fields Scan can store to must be restored by Reset to NewLexer's constants; Parse's prologue must be Reset, Scan, store nextToken before the loop; Reset = stack.reset + push(0,nil); stack.reset truncates every stack field; every other Parser field is Context (never written) or never read. So each Parse / each scan after Reset starts from a fresh object's state regardless of history. The slice popN hands to an action is freshly allocated (R16.4, found D27).",
        note="popN's slice aliasing by user actions is outside the generated code and not decided. Trusted: go/ssa, checker/sx.go.",
        technique="static analysis: field store/load sets and prologue event order on the SSA of the instantiated templates",
        design="§4 C16"),
    "C18": dict(
        level="proof",
        text="Loop-invariant proof discharged mechanically: one iteration of AddRange's loop is interpreted abstractly (slice as a window with the three mutators) in every ordering-with-gaps of from,to,class.From,class.To; obligations O1-O4 (pieces sorted/disjoint/non-empty, union preserved, no straddling, cursor/from advance) must hold in every world, O5 on loop-carried variables; plus initialisation, exit, insertRange = insert-at, AddLexTNode dispatch, Item.match = class ⊆ range. The small-model property of difference constraints makes the finite enumeration complete for all rune values.",
        note="Trusted: go/ssa, the interpreter and window model, the small-model bound (offsets in the code are ±1, K=3 quick / 5 thorough), rune range (to+1 cannot overflow).",
        technique="static analysis: inductive invariant discharged by finite-world abstract interpretation over orderings with gaps",
        design="§4 C18, §3 E2/E3"),
    "C01": dict(
        level="other",
        text="Partial, structural: the loop-free decisions around the lexer automaton are decided in every abstract world: pattern priority among completed items (string literal > earlier declaration > later; regular definitions never accept) and its mapping to Accept/Ignore (R01.1); an item moves on a class iff the class lies inside its literal/range, '.' only on the default arm (R01.2); action-table sentinels written = sentinels Scan tests, INVALID = 0 (R01.3); transition-table writer and template: one case per class in order, default iff '.', NoState otherwise (R01.4); the generated Scan loop, plain and debug, as a transfer table (R01.5); every step of the subset construction against the algorithm in doc.go — ItemSets.Closure/Add/Contain, NewItemSet, class and transition slots, Next*, dependentsClosure, the item-list operations (R01.6), the ItemList.Closure step (R01.7), the epsilon-moves helper by helper and the Emoves worklist round (R01.8), and the rune-class partition argument of C18 (R01.9).",
        note="Two open known findings (D22, D23: regular definitions are shared between use sites, not expanded like macros; printed as KNOWN-FINDING, see DESIGN §5 and findings/). NOT decided: convergence/termination of the construction (steps are decided one at a time). Trusted: go/ssa, checker/sx.go, the generated model.",
        technique="static analysis: decision/transfer-table extraction by finite-world abstract interpretation of SSA (repo code and instantiated templates)",
        design="§4 C01, Appendix A.1"),
    "C02": dict(
        level="other",
        text="Partial, structural: decides the loop-free decisions between the LR(1) item sets and the running parser, for every combination of their abstract inputs: Item.action = Dragon-book Alg. 4.56 + INVALID column (R02.1); body length assumed by the automaton = NumSymbols popped by the parser (R02.2); every table writer renders each action kind into the right constructor and column, goto cells follow NTType's index (R02.3); the generated Parse loop, in all four debug/zip variants, is the LR driver (R02.4); augmentation and initial item (R02.5); every step of FIRST, closure, goto and the LR(1) collection is the textbook step (R02.6, R02.7) and the set operations that drive the iterations report membership/growth/equality truthfully, item identity covers everything Item.action reads (R02.8). These are necessary conditions of the property: breaking any of them breaks acceptance for some grammar. One string names one symbol: literals spelled like a reserved symbol or like any production are refused (R02.9 = R10.7); the item key is an injective rendering of (production, dot, look-ahead) (R02.8).",
        note="Open known finding D33 (a string literal spelled error or empty is the reserved symbol of that spelling; printed as KNOWN-FINDING, DESIGN §5). NOT decided: convergence of the FIRST/closure/GetItemSets iterations to the least fixed point (each step is decided, the limit is not), and that Parse terminates. Trusted: go/ssa, checker/sx.go, the generated model.",
        technique="static analysis: decision/transfer-table extraction by finite-world abstract interpretation of SSA (repo code and instantiated templates)",
        design="§4 C02, Appendix A.2"),
    "C03": dict(
        level="other",
        text="Partial, structural: what gives semantic actions their meaning is decided for all grammars: the synthesised reduce function (user text / nil,nil for empty / X[0]) and NumSymbols (R03.1), the $n/$Tn/$Context rewriting incl. the pattern's language on probes (R03.2), and in the generated Parse (all variants) that a shift pushes the scanner's token object, a reduce pops NumSymbols attributes and calls the action with them and p.Context, an action error returns immediately wrapped by newError, accept returns the last attribute (R03.3). R03.9 = R10.7 (symbol namespace).",
        note="Open known finding D33 (a string literal spelled error or empty is the reserved symbol of that spelling; printed as KNOWN-FINDING, DESIGN §5). NOT decided: post-order of reductions (follows from LR parsing given C02). Trusted: go/ssa, checker/sx.go, Go's regexp on the constant pattern.",
        technique="static analysis: decision-table extraction (abstract interpretation of SSA) + event-order tables of the instantiated parser template",
        design="§4 C03"),
    "C04": dict(
        level="other",
        text="The whole reporting chain is decided row by row: the per-state fold records a conflict iff two non-error actions differ (R04.1); both table writers and the plumbing to main preserve exactly the non-empty conflict sets (R04.2); handleConflicts' exit policy incl. accept-conflicts panicking in both modes (R04.3); every os.Exit has a non-zero constant and nothing recovers panics, so status zero means main returned (R04.4); the steps that build the item sets (R04.5 = R02.6-R02.8); the identity under which items are merged depends on every constructor input Item.action depends on (R04.6; found D21). The item key is injective (R04.7, found D29); R04.8 = R10.7 (symbol namespace).",
        note="Open known finding D33 (a string literal spelled error or empty is the reserved symbol of that spelling; printed as KNOWN-FINDING, DESIGN §5). NOT decided: convergence of the item-set iterations (C02). Trusted: go/ssa, checker/sx.go.",
        technique="static analysis: finite-world abstract interpretation of SSA regions + call-site enumeration",
        design="§4 C04"),
    "C06": dict(
        level="other",
        text="Partial, structural: given a canonical table, the error is exact because (a) reduce entries exist only on the item's exact follow symbol and error cells are nil (Item.action table, cell writers), (b) Parse goes to Error on an empty cell before any reduce, restores the offending token and returns newError, (c) newError carries that token, the top state and exactly the token names with a non-nil cell in index order (all variants), (d) the error type has the stated fields, (e) the look-ahead computation steps (R06.0e = R02.6-R02.8). R06.3 = R10.7 (symbol namespace).",
        note="Open known finding D33 (a string literal spelled error or empty is the reserved symbol of that spelling; printed as KNOWN-FINDING, DESIGN §5). NOT decided: that rows hold exactly the viable terminals (canonical LR(1) construction, C02). Trusted: go/ssa, checker/sx.go.",
        technique="static analysis: decision-table extraction + loop-body transfer tables of the instantiated parser template",
        design="§4 C06"),
    "C07": dict(
        level="other",
        text="Partial, structural: recovery-state flag = 'an item can shift the error symbol' and its emission (R07.1), one spelling of the error symbol (R07.2), and the generated recovery procedure region by region in every world: firstRecoveryState, popNonRecoveryStates, Error (attribute built from the current token and discarded attributes before skipping; shift of error only if the row has an entry; skip loop discards tokens until one is acceptable or input ends), Parse re-dispatching on the resume token (R07.3/4), all four variants. R07.5 = R10.7 (symbol namespace).",
        note="Open known finding D33 (a string literal spelled error or empty is the reserved symbol of that spelling; printed as KNOWN-FINDING, DESIGN §5). Error gives up (no panic) when the error column of the state on top holds no shift (found D24). NOT decided: never loops, panic-freedom outside Error, inertness on valid input (needs C02), token conservation across several recoveries. Trusted: go/ssa, checker/sx.go.",
        technique="static analysis: region transfer tables by finite-world abstract interpretation of the instantiated parser template",
        design="§4 C07"),
    "C19": dict(
        level="other",
        text="Partial, structural: the .md dispatch (only names ending in .md go through md.GetSource, whose result is the one buffer the scanner gets) and the store discipline of loadMd in every world (prose/code x fence/partial fence/plain rune incl. every rune value the code compares with x newline x end of buffer): only spaces are written, never over a newline, only in prose or on a fence; a fence toggles the mode; the buffer is never resized and is what GetSource returns. Hence lines and rune columns are preserved and code is untouched. Bytes that are not UTF-8 survive in code sections so that the scanner refuses them as in a .bnf file (R19.3, found D38); only next() sets the line (R19.4, found D37).",
        note="Open known finding D36 (prose is blanked, not removed: a token that spans the gap between two code blocks takes the blanks in; R19.5). NOT decided: exact fence recognition for every text (e.g. a fence right after a closing fence). Trusted: go/ssa, checker/sx.go.",
        technique="static analysis: loop-body transfer table by finite-world abstract interpretation of SSA",
        design="§4 C19"),
    "C20": dict(
        level="other",
        text="Partial, structural: both escape decoders (gocc's own and the generated util package) are decided independently against Go's table: dispatch on all 256 values of the byte after the backslash, one step of the digit loop, the final range check incl. surrogates, digitVal on 300 values, the escape/plain-rune choice, and IntValue/UintValue = strconv base 10 / 64 bits. Both copies satisfying the same tables means gocc and generated code read literals identically.",
        note="NOT decided: the accumulated value of the digit loop for every literal (only its step and parameters). Trusted: go/ssa, checker/sx.go, strconv.UnquoteChar as reference.",
        technique="static analysis: decision-table extraction by finite-world abstract interpretation of SSA, compared with a table frozen from the Go specification",
        design="§4 C20"),
}

NA_REASON_PENDING = "check not built yet in this round (design in DESIGN.md §4); no claim is made until the rule set exists and passes its mutants"

def main():
    checks = []
    for pid in ALL:
        if pid not in CLAIMED:
            continue
        c = CLAIMED[pid]
        checks.append({
            "property_id": pid,
            "quick_cmd": f"./run.sh {pid} quick",
            "thorough_cmd": f"./run.sh {pid} thorough",
            "evidence_file": f"/verif/evidence/{pid}.json",
            "replay_cmd_template": f"./run.sh {pid} quick  # re-decides every rule instance; the violation file {{path}} names rule + construct",
            "engine": "goccverif",
            "level_claimed": {"category": c["level"], "text": c["text"], "design_ref": c["design"]},
            "level_note": c["note"],
            "technique": c["technique"],
        })
    na = [{"property_id": pid, "reason": NA.get(pid, NA_REASON_PENDING)} for pid in ALL if pid not in CLAIMED]
    m = {
        "version": 1,
        "setup_cmd": "./setup.sh",
        "hooks": {
            "guard": "verif",
            "enable": "none needed: static analysis reads /repo's sources; no instrumentation exists",
            "baseline_off_cmd": "for m in $(cat /w/out/gomods.txt); do MF=$(cd /repo/$m && . /w/out/goenv.sh && gomodflag); (cd /repo/$m && go test $MF -json -vet=off -count=1 -timeout 25m ./...); done",
            "source_commits": [],
            "add_only": True,
        },
        "engines": [{
            "name": "goccverif",
            "path": "/verif/checker",
            "serves_properties": [c["property_id"] for c in checks],
            "kind_free_text": "repository-specific static analyser (go/packages, go/ssa, VTA call graph, text/template/parse); never runs gocc or generated code",
        }],
        "checks": checks,
        "not_applicable": na,
        "notes": "All checks are static: they load /repo's current working tree on every run. Genuine defects found are repaired in /repo by fix: commits or listed in /verif/known_findings.json (open entries are printed as KNOWN-FINDING lines, exit 0; fixed entries suppress nothing). See DESIGN.md §5, §10.",
    }
    with open("/verif/MANIFEST.json", "w") as f:
        json.dump(m, f, indent=1)
        f.write("\n")
    print("claimed:", [c["property_id"] for c in checks])

NA = {}

if __name__ == "__main__":
    main()
