#!/usr/bin/env python3
"""Regenerates /verif/MANIFEST.json from the tables below (single source of truth)."""
import json, os

ALL = ["C%02d" % i for i in range(1, 21)]

# id -> dict(level, text, note, technique, design)
CLAIMED = {
    "C11": dict(
        level="other",
        text="Structural decision of determinism: every loop whose order the language leaves open (map ranges, ranges over permutation-valued slices) is classified against order-insensitive idioms; the rest are taint sources whose explicit and implicit (control-dependence) flows, computed over the SSA of all reachable module functions, must reach no .go output, exit status or panic. Goroutines, channels, clocks, randomness, environment reads, address printing and maps in the gob payload are excluded by enumeration. This is the right level because nondeterminism has a finite set of syntactic sources in a cgo-free Go program.",
        note="Assumes text/template, go/format, gob, gzip, sort, fmt deterministic; field-based heap abstraction; go/ssa + VTA call graph trusted. Does not decide library determinism.",
        technique="static analysis: SSA loop-idiom classification + field-based order-taint (explicit and control-dependence flows) to file/exit sinks",
        design="§4 C11, §3 E5"),
}

NA_REASON_PENDING = "check not built yet in this round (design in DESIGN.md §4); no claim is made until the rule set exists and passes its mutants"

def main():
    checks = []
    for pid in ALL:
        if pid not in CLAIMED:
            continue
        c = CLAIMED[pid]
        checks.append({
            "property_id": pid,
            "quick_cmd": f"./run.sh {pid} quick",
            "thorough_cmd": f"./run.sh {pid} thorough",
            "evidence_file": f"/verif/evidence/{pid}.json",
            "replay_cmd_template": f"./run.sh {pid} quick  # re-decides every rule instance; the violation file {{path}} names rule + construct",
            "engine": "goccverif",
            "level_claimed": {"category": c["level"], "text": c["text"], "design_ref": c["design"]},
            "level_note": c["note"],
            "technique": c["technique"],
        })
    na = [{"property_id": pid, "reason": NA.get(pid, NA_REASON_PENDING)} for pid in ALL if pid not in CLAIMED]
    m = {
        "version": 1,
        "setup_cmd": "./setup.sh",
        "hooks": {
            "guard": "verif",
            "enable": "none needed: static analysis reads /repo's sources; no instrumentation exists",
            "baseline_off_cmd": "for m in $(cat /w/out/gomods.txt); do MF=$(cd /repo/$m && . /w/out/goenv.sh && gomodflag); (cd /repo/$m && go test $MF -json -vet=off -count=1 -timeout 25m ./...); done",
            "source_commits": [],
            "add_only": True,
        },
        "engines": [{
            "name": "goccverif",
            "path": "/verif/checker",
            "serves_properties": [c["property_id"] for c in checks],
            "kind_free_text": "repository-specific static analyser (go/packages, go/ssa, VTA call graph, text/template/parse); never runs gocc or generated code",
        }],
        "checks": checks,
        "not_applicable": na,
        "notes": "All checks are static: they load /repo's current working tree on every run. See DESIGN.md.",
    }
    with open("/verif/MANIFEST.json", "w") as f:
        json.dump(m, f, indent=1)
        f.write("\n")
    print("claimed:", [c["property_id"] for c in checks])

NA = {}

if __name__ == "__main__":
    main()
