#!/bin/bash
# Applies every /verif/mutants/*.patch to a scratch copy of /repo and runs the check of the
# property named in the patch header. Non-benign mutants must be reported (exit 1), benign-*
# refactors must stay silent (exit 0). Prints a summary; exit 0 iff everything is as expected.
cd "$(dirname "$(readlink -f "$0")")/.."
[ -x bin/goccverif ] || ./setup.sh >/dev/null
bad=0; n=0
for m in mutants/*.patch; do
  name=$(basename "$m" .patch)
  prop=$(head -1 "$m" | sed -n 's/^# property: //p')
  if [[ "$name" == benign-* ]]; then
    prop=$(echo "$name" | sed -n 's/^benign-c\([0-9][0-9]\).*/C\1/p')
    want=0
  else
    want=1
  fi
  [ -z "$prop" ] && { echo "SKIP $name (no property)"; continue; }
  out=$(tools/runmutant.sh "$m" "$prop" 2>&1)
  rc=$(echo "$out" | sed -n 's/^exit=//p' | tail -1)
  if echo "$out" | grep -q PATCH-FAILED; then echo "STALE $name (patch no longer applies)"; continue; fi
  n=$((n+1))
  if [ "$rc" = "$want" ]; then echo "ok    $name ($prop exit=$rc)"; else echo "WRONG $name ($prop exit=$rc, expected $want)"; bad=$((bad+1)); fi
done
echo "$n mutants run, $bad unexpected"
[ $bad = 0 ]
