#!/bin/bash
# evalseed.sh <ID> [seed-dir]  — verify an independently seeded change and run the checks on it.
#   seed-dir (default /tmp/seed/<ID>/SEED) must hold patch.diff and demo/run.sh <tree>.
# Steps: scratch copies of /repo (clean and patched) -> build -> pinned suite on the patched copy ->
# demo on clean (expect 0) and patched (expect non-zero) -> the property's check on the patched copy ->
# every other claimed check on the patched copy (who else notices). Prints a summary; writes nothing to /repo.
set -u
id=$1; seed=${2:-/tmp/seed/$id/SEED}; prop=${id:0:3}
export PATH=/opt/veriftools/go1.26.8/bin:$PATH GOFLAGS=-mod=mod GOPROXY=off GOSUMDB=off GOTOOLCHAIN=local GOWORK=off
tmp=$(mktemp -d /tmp/evalseed-XXXXXX); trap 'rm -rf "$tmp"' EXIT
[ -f "$seed/patch.diff" ] || { echo "NO-PATCH $seed/patch.diff"; exit 3; }
rsync -a --exclude .git --exclude SEED --exclude .bin /repo/ "$tmp/clean/"
rsync -a --exclude .git --exclude SEED --exclude .bin /repo/ "$tmp/patched/"
(cd "$tmp/patched" && git init -q . && git apply --whitespace=nowarn "$seed/patch.diff") || { echo "PATCH-DOES-NOT-APPLY"; exit 3; }
rm -rf "$tmp/patched/.git"
echo "== diffstat"; (cd "$tmp" && diff -rq clean patched | sed 's|'"$tmp"'/||g')
echo "== build"; (cd "$tmp/patched" && go build ./... ) && echo BUILD-OK || { echo BUILD-FAILED; exit 3; }
echo "== pinned suite on the patched copy"
(cd "$tmp/patched" && go test -mod=mod -json -vet=off -count=1 ./... 2>&1 | python3 -c "
import sys,json
p=0; fails=[]
for l in sys.stdin:
    try: e=json.loads(l)
    except: continue
    if e.get('Test') and e['Action']=='pass': p+=1
    if e.get('Test') and e['Action']=='fail': fails.append(e['Package'].split('gocc/')[-1]+'::'+e['Test'])
print('passed',p,'failed',fails)
print('SUITE', 'SAME-AS-BASELINE' if p==78 and fails==['internal/test/t2::TestEmptyKeyword'] else 'DIFFERS')
")
echo "== demo on the clean copy (expect exit 0)"
(cd "$seed/demo" && timeout 600 bash ./run.sh "$tmp/clean" > "$tmp/demo-clean.log" 2>&1); rc1=$?; tail -3 "$tmp/demo-clean.log"; echo "demo clean exit=$rc1"
echo "== demo on the patched copy (expect non-zero)"
(cd "$seed/demo" && timeout 600 bash ./run.sh "$tmp/patched" > "$tmp/demo-patched.log" 2>&1); rc2=$?; tail -5 "$tmp/demo-patched.log"; echo "demo patched exit=$rc2"
echo "== checks on the patched copy"
cp /verif/bin/goccverif "$tmp/gv"   # a private copy: the checker may be rebuilt while this runs
mkdir -p "$tmp/ev/evidence"; cp /verif/known_findings.json "$tmp/ev/"
for p in $("$tmp/gv" -list | tr ' ' '\n' | grep '^C[0-9]'); do
  out=$("$tmp/gv" -prop "$p" -tier quick -repo "$tmp/patched" -out "$tmp/ev/evidence" 2>&1); rc=$?
  if [ $rc -ne 0 ]; then echo "CHECK $p exit=$rc"; echo "$out" | grep -v '^VIOLATION' | grep 'REFUTED\|UNDECIDED' | cut -c1-400 | head -4; fi
  [ "$p" = "$prop" ] && echo "PROPERTY-CHECK $p exit=$rc"
done
echo "SUMMARY id=$id demo_clean=$rc1 demo_patched=$rc2"
