#!/bin/bash
# runmutant.sh PATCH PROP [tier] : apply PATCH to a scratch copy of /repo and run the check on it.
set -u
patch=$(readlink -f "$1"); prop=$2; tier=${3:-quick}
tmp=$(mktemp -d /tmp/mutrun-XXXXXX)
trap 'rm -rf "$tmp"' EXIT
rsync -a --exclude .git /repo/ "$tmp/repo/"
(cd "$tmp/repo" && patch -p1 -s < <(grep -v '^# property' "$patch")) || { echo "PATCH-FAILED $patch"; exit 3; }
mkdir -p "$tmp/ev/evidence"
cp /verif/known_findings.json "$tmp/ev/" 2>/dev/null
/verif/bin/goccverif -prop "$prop" -tier "$tier" -repo "$tmp/repo" -out "$tmp/ev/evidence"
rc=$?
echo "exit=$rc"
exit $rc
