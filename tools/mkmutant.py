#!/usr/bin/env python3
"""mkmutant.py NAME PROP FILE OLD NEW [FILE OLD NEW ...]
Create /verif/mutants/NAME.patch (unified diff against /repo HEAD working tree) by
replacing OLD with NEW (exactly one occurrence) in FILE; checks that the mutant builds."""
import os, shutil, subprocess, sys, tempfile
name, prop = sys.argv[1], sys.argv[2]
trip = sys.argv[3:]
env = dict(os.environ, PATH="/opt/veriftools/go1.26.8/bin:" + os.environ["PATH"], GOFLAGS="-mod=mod", GOPROXY="off", GOSUMDB="off", GOTOOLCHAIN="local", GOWORK="off")
tmp = tempfile.mkdtemp(prefix="mut-")
try:
    a = os.path.join(tmp, "a"); b = os.path.join(tmp, "b")
    subprocess.check_call(["rsync", "-a", "--exclude", ".git", "/repo/", a + "/"])
    subprocess.check_call(["rsync", "-a", "--exclude", ".git", "/repo/", b + "/"])
    for i in range(0, len(trip), 3):
        f, old, new = trip[i:i+3]
        p = os.path.join(b, f)
        s = open(p).read()
        if s.count(old) != 1:
            sys.exit(f"{f}: pattern occurs {s.count(old)} times: {old!r}")
        open(p, "w").write(s.replace(old, new))
    r = subprocess.run(["go", "build", "./..."], cwd=b, env=env, capture_output=True, text=True)
    if r.returncode != 0:
        sys.exit("mutant does not build:\n" + r.stderr)
    d = subprocess.run(["diff", "-ruN", "a", "b"], cwd=tmp, capture_output=True, text=True).stdout
    out = f"/verif/mutants/{name}.patch"
    open(out, "w").write(f"# property: {prop}\n" + d)
    print("wrote", out, len(d.splitlines()), "lines")
finally:
    shutil.rmtree(tmp)
