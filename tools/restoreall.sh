#!/bin/bash
# Re-evaluates every stored seeded change (seeded/*/) with the current checker, N at a time, and rewrites its meta.json.
cd "$(dirname "$(readlink -f "$0")")/.."
N=${1:-4}
ls seeded | grep '^C' | xargs -P "$N" -I{} python3 tools/storeseed.py {} 
