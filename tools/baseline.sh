#!/bin/bash
# Runs the pinned test suite of /repo (the BASELINE.json command); exits 0 only if
# exactly the 78 baseline tests pass and only the known always-failing test fails.
for m in $(cat /w/out/gomods.txt); do MF=$(cd /repo/$m && . /w/out/goenv.sh && gomodflag); (cd /repo/$m && go test $MF -json -vet=off -count=1 -timeout 25m ./... 2>&1 | python3 -c "
import sys,json
p=0; fails=[]
for l in sys.stdin:
    try: e=json.loads(l)
    except: continue
    if e.get('Test') and e['Action']=='pass': p+=1
    if e.get('Test') and e['Action']=='fail': fails.append(e['Package']+'::'+e['Test'])
print('passed',p,'failed',len(fails),fails)
ok = p==78 and fails==['github.com/goccmack/gocc/internal/test/t2::TestEmptyKeyword']
print('BASELINE', 'OK' if ok else 'BROKEN')
sys.exit(0 if ok else 1)
") || exit 1; done
