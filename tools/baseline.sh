#!/bin/bash
# Runs the pinned test suite of /repo (the BASELINE.json command) and prints pass/fail counts.
for m in $(cat /w/out/gomods.txt); do MF=$(cd /repo/$m && . /w/out/goenv.sh && gomodflag); (cd /repo/$m && go test $MF -json -vet=off -count=1 -timeout 25m ./... 2>&1 | python3 -c "
import sys,json
p=f=0
for l in sys.stdin:
    try: e=json.loads(l)
    except: continue
    if e.get('Test') and e['Action']=='pass': p+=1
    if e.get('Test') and e['Action']=='fail': f+=1; print('FAIL',e['Package'],e['Test'])
print('passed',p,'failed',f)
"); done
